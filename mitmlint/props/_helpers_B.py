"""Shared helpers of batch B (connection handling and TLS: C09 C10 C14 C15 C16 C17 C18).

* ``MiniInterp`` - a tiny *concrete* interpreter for straight-line / branching / for-loop Python functions over
  ordinary Python values.  Everything that is not a local name is asked of the rule (``atom`` hook); every
  construct that is not modelled raises AnalysisError (never a guess).  Used for decision tables over finite domains.
* ``ceval`` - the expression half of it, usable on its own (conditions taken from path-engine traces).
* ``with_throw_at_yield`` - copy of a generator-based context manager in which the ``yield`` raises (what
  ``contextlib.contextmanager`` does when the with-body raises), so the path engine sees the exceptional exit too.
* ``NodeCondSpec`` - GenericSpec whose cond events carry the condition *node* (for semantic evaluation).

Nothing here imports or executes repository code.
"""

from __future__ import annotations

import ast
import copy

from ..core import AnalysisError
from ..core import norm
from ..model import attr_chain
from ..model import call_name
from ..model import eval_order
from ..model import last_attr
from ..model import walk_in_order
from ..paths import GenericSpec


class NotAnAtom(Exception):
    """Raised by an ``atom`` hook for an expression the rule gives no value to."""


_CMP = {
    ast.Eq: lambda a, b: a == b,
    ast.NotEq: lambda a, b: a != b,
    ast.Lt: lambda a, b: a < b,
    ast.LtE: lambda a, b: a <= b,
    ast.Gt: lambda a, b: a > b,
    ast.GtE: lambda a, b: a >= b,
    ast.Is: lambda a, b: a is b or (type(a) is type(b) and isinstance(a, (bytes, str, int)) and a == b),
    ast.IsNot: lambda a, b: not (a is b or (type(a) is type(b) and isinstance(a, (bytes, str, int)) and a == b)),
    ast.In: lambda a, b: a in b,
    ast.NotIn: lambda a, b: a not in b,
}
_BIN = {
    ast.Add: lambda a, b: a + b,
    ast.Sub: lambda a, b: a - b,
    ast.Mult: lambda a, b: a * b,
    ast.BitAnd: lambda a, b: a & b,
    ast.BitOr: lambda a, b: a | b,
    ast.FloorDiv: lambda a, b: a // b,
    ast.Mod: lambda a, b: a % b,
}


_BUILTINS = {"len": len, "str": str, "range": lambda *a: list(range(*a)), "list": list, "tuple": tuple, "bool": bool, "next": lambda it, *d: next(iter(it), *d), "filter": filter,
             "iter": iter, "sorted": sorted, "reversed": lambda x: list(reversed(x)), "min": min, "max": max, "any": any, "all": all, "bytes": bytes, "dict": dict, "set": set}
_METHODS = {
    str: {"split", "join", "startswith", "endswith", "lower", "upper", "encode", "strip", "rsplit", "partition"},
    bytes: {"decode", "startswith", "endswith", "split"},
    list: {"append", "extend", "pop", "insert", "clear", "index", "count", "remove"},
    dict: {"items", "keys", "values", "get", "pop", "setdefault", "clear"},
    tuple: {"index", "count"},
}


def ceval(expr, env: dict, atom=None, what: str = "expression"):
    """Concrete value of ``expr``. Local names come from ``env``; everything else from ``atom(node, env)``
    (which raises NotAnAtom when it has no value) - an unresolved leaf is an AnalysisError."""

    def ev(e):
        if isinstance(e, ast.Constant):
            return e.value
        if isinstance(e, ast.Name) and e.id in env:
            return env[e.id]
        if isinstance(e, ast.Name) and e.id in ("True", "False", "None"):
            return {"True": True, "False": False, "None": None}[e.id]
        if atom is not None and isinstance(e, (ast.Name, ast.Attribute, ast.Call, ast.Subscript)):
            try:
                return atom(e, env)
            except NotAnAtom:
                pass
        if isinstance(e, ast.BoolOp):
            v = None
            for sub in e.values:
                v = ev(sub)
                if isinstance(e.op, ast.And) and not v:
                    return v
                if isinstance(e.op, ast.Or) and v:
                    return v
            return v
        if isinstance(e, ast.UnaryOp) and isinstance(e.op, ast.Not):
            return not ev(e.operand)
        if isinstance(e, ast.UnaryOp) and isinstance(e.op, ast.USub):
            return -ev(e.operand)
        if isinstance(e, ast.BinOp) and type(e.op) in _BIN:
            return _BIN[type(e.op)](ev(e.left), ev(e.right))
        if isinstance(e, ast.Compare):
            left = ev(e.left)
            for op, c in zip(e.ops, e.comparators):
                right = ev(c)
                if type(op) not in _CMP:
                    raise AnalysisError(f"{what}: comparison operator not modelled in {norm(e)}")
                if not _CMP[type(op)](left, right):
                    return False
                left = right
            return True
        if isinstance(e, ast.IfExp):
            return ev(e.body) if ev(e.test) else ev(e.orelse)
        if isinstance(e, (ast.Tuple, ast.List, ast.Set)):
            items = []
            for x in e.elts:
                if isinstance(x, ast.Starred):
                    items.extend(ev(x.value))
                else:
                    items.append(ev(x))
            return tuple(items) if isinstance(e, ast.Tuple) else (items if isinstance(e, ast.List) else set(items))
        if isinstance(e, (ast.ListComp, ast.GeneratorExp, ast.SetComp, ast.DictComp)):
            out = []

            def gen(k, scope):
                if k == len(e.generators):
                    if isinstance(e, ast.DictComp):
                        out.append((ceval(e.key, scope, atom, what), ceval(e.value, scope, atom, what)))
                    else:
                        out.append(ceval(e.elt, scope, atom, what))
                    return
                g = e.generators[k]
                names = [g.target] if isinstance(g.target, ast.Name) else (list(g.target.elts) if isinstance(g.target, ast.Tuple) else None)
                if g.is_async or names is None or not all(isinstance(x, ast.Name) for x in names):
                    raise AnalysisError(f"{what}: comprehension shape not modelled: {norm(e)}")
                for item in list(ceval(g.iter, scope, atom, what)):
                    sc = dict(scope)
                    if isinstance(g.target, ast.Name):
                        sc[g.target.id] = item
                    else:
                        item = tuple(item)
                        if len(item) != len(names):
                            raise AnalysisError(f"{what}: comprehension unpacking mismatch in {norm(e)}")
                        for nm, it in zip(names, item):
                            sc[nm.id] = it
                    if all(ceval(c, sc, atom, what) for c in g.ifs):
                        gen(k + 1, sc)

            gen(0, dict(env))
            if isinstance(e, ast.DictComp):
                return dict(out)
            return set(out) if isinstance(e, ast.SetComp) else out
        if isinstance(e, ast.Slice):
            return slice(ev(e.lower) if e.lower is not None else None, ev(e.upper) if e.upper is not None else None, ev(e.step) if e.step is not None else None)
        if isinstance(e, ast.Lambda):
            a = e.args
            if a.vararg or a.kwarg or a.kwonlyargs or a.defaults or a.posonlyargs:
                raise AnalysisError(f"{what}: lambda signature not modelled: {norm(e)}")
            params = [x.arg for x in a.args]
            closure = dict(env)
            return lambda *vals: ceval(e.body, {**closure, **dict(zip(params, vals))}, atom, what)
        if isinstance(e, ast.Call) and not e.keywords and not any(isinstance(x, ast.Starred) for x in e.args):
            if isinstance(e.func, ast.Name) and e.func.id in _BUILTINS and e.func.id not in env:
                return _BUILTINS[e.func.id](*[ev(x) for x in e.args])
            if isinstance(e.func, ast.Attribute):
                recv = ev(e.func.value)
                allowed = _METHODS.get(type(recv))
                if allowed and e.func.attr in allowed:
                    return getattr(recv, e.func.attr)(*[ev(x) for x in e.args])
                raise AnalysisError(f"{what}: method call not modelled: {norm(e)} on {type(recv).__name__}")
        if isinstance(e, ast.Subscript):
            base = ev(e.value)
            idx = ev(e.slice)
            try:
                return base[idx]
            except Exception as ex:
                raise AnalysisError(f"{what}: subscript {norm(e)} fails on the abstract value: {ex!r}")
        raise AnalysisError(f"{what}: construct not modelled: {norm(e)}")

    return ev(expr)


class _Return(Exception):
    def __init__(self, value):
        self.value = value


class MiniInterp:
    """Concrete interpreter for small pure functions (decision tables over finite domains).

    Modelled: docstring, Assign/AnnAssign to plain names (and tuple targets of names), If, For over a concrete
    list/tuple (with else, break, continue), Return, Pass, Assert (must evaluate true, else the case is outside
    the function's contract -> AnalysisError), bare expression statements accepted by ``expr_stmt`` hook.
    Everything else -> AnalysisError.
    """

    def __init__(self, atom=None, expr_stmt=None, what="function", store=None, eval_calls=False):
        self.atom = atom
        self.expr_stmt = expr_stmt
        self.store = store  # store(target_node, value, env) for attribute / subscript targets
        self.eval_calls = eval_calls  # evaluate bare call statements (side effects through atom / whitelisted methods)
        self.what = what
        self.steps = 0

    def run(self, fn, env: dict):
        env = dict(env)
        self.steps = 0
        body = list(fn.body)
        if body and isinstance(body[0], ast.Expr) and isinstance(body[0].value, ast.Constant) and isinstance(body[0].value.value, str):
            body = body[1:]
        try:
            self.block(body, env)
        except _Return as r:
            return r.value
        return None

    def ev(self, e, env):
        return ceval(e, env, self.atom, self.what)

    def assign(self, target, value, env):
        if isinstance(target, ast.Name):
            env[target.id] = value
        elif isinstance(target, (ast.Tuple, ast.List)) and all(isinstance(t, ast.Name) for t in target.elts):
            vals = list(value)
            if len(vals) != len(target.elts):
                raise AnalysisError(f"{self.what}: unpacking arity mismatch at {norm(target)}")
            for t, v in zip(target.elts, vals):
                env[t.id] = v
        elif self.store is not None and isinstance(target, (ast.Attribute, ast.Subscript)):
            self.store(target, value, env)
        else:
            raise AnalysisError(f"{self.what}: assignment target not modelled: {norm(target)}")

    def block(self, stmts, env):
        """returns 'break' | 'continue' | None"""
        for s in stmts:
            self.steps += 1
            if self.steps > 100000:
                raise AnalysisError(f"{self.what}: interpreter step bound exceeded")
            if isinstance(s, ast.Assign):
                v = self.ev(s.value, env)
                for t in s.targets:
                    self.assign(t, v, env)
            elif isinstance(s, ast.AnnAssign):
                if s.value is not None:
                    self.assign(s.target, self.ev(s.value, env), env)
            elif isinstance(s, ast.If):
                r = self.block(s.body if self.ev(s.test, env) else s.orelse, env)
                if r:
                    return r
            elif isinstance(s, ast.For):
                it = self.ev(s.iter, env)
                if not isinstance(it, (list, tuple)) and not getattr(it, "_mini_iterable", False):
                    raise AnalysisError(f"{self.what}: loop over a non-sequence value: {norm(s.iter)}")
                broke = False
                for item in list(it):
                    self.assign(s.target, item, env)
                    r = self.block(s.body, env)
                    if r == "break":
                        broke = True
                        break
                if not broke:
                    r = self.block(s.orelse, env)
                    if r:
                        return r
            elif isinstance(s, ast.Return):
                raise _Return(self.ev(s.value, env) if s.value is not None else None)
            elif isinstance(s, ast.Pass):
                pass
            elif isinstance(s, ast.Break):
                return "break"
            elif isinstance(s, ast.Continue):
                return "continue"
            elif isinstance(s, ast.Assert):
                if not self.ev(s.test, env):
                    raise AnalysisError(f"{self.what}: assertion {norm(s.test)} is false for a case of the table")
            elif isinstance(s, ast.Expr) and self.expr_stmt is not None and self.expr_stmt(s.value, env):
                pass
            elif isinstance(s, ast.Expr) and self.eval_calls and isinstance(s.value, ast.Call):
                self.ev(s.value, env)
            else:
                raise AnalysisError(f"{self.what}: statement not modelled: {norm(s)}")
        return None


def with_throw_at_yield(fn, exc_name: str = "BaseException"):
    """Deep copy of generator function ``fn`` in which every ``yield`` statement is followed by
    ``raise <exc_name>()`` - the behaviour of a @contextmanager generator whose with-body raised."""
    new = copy.deepcopy(fn)
    n = 0

    def rewrite(stmts):
        nonlocal n
        out = []
        for s in stmts:
            for field in ("body", "orelse", "finalbody"):
                if hasattr(s, field) and isinstance(getattr(s, field), list):
                    setattr(s, field, rewrite(getattr(s, field)))
            if isinstance(s, ast.Try):
                for h in s.handlers:
                    h.body = rewrite(h.body)
            out.append(s)
            if isinstance(s, ast.Expr) and isinstance(s.value, ast.Yield):
                n += 1
                r = ast.Raise(exc=ast.Call(func=ast.Name(id=exc_name, ctx=ast.Load()), args=[], keywords=[]), cause=None)
                ast.copy_location(r, s)
                ast.fix_missing_locations(r)
                out.append(r)
        return out

    new.body = rewrite(new.body)
    others = [y for y in walk_in_order(new) if isinstance(y, (ast.Yield, ast.YieldFrom))]
    if len(others) != n:
        raise AnalysisError(f"{fn.name}: a yield that is not a plain statement - context-manager shape not modelled")
    return new, n


class NodeCondSpec(GenericSpec):
    """GenericSpec recording ('cond', text, taken, node) for every branch leaf."""

    def __init__(self, **kw):
        kw.setdefault("record_conds", True)
        super().__init__(**kw)

    def cond_event(self, expr, value, st):
        return ("cond", norm(expr), value, expr)


def reads(expr, chain: str) -> bool:
    """Does ``expr`` read the attribute chain / name ``chain`` (exactly, not a longer chain's prefix only)?"""
    for n in ast.walk(expr):
        if isinstance(n, (ast.Attribute, ast.Name)) and attr_chain(n) == chain:
            return True
    return False


def unconditional_in_stmt(node) -> bool:
    """Is the expression ``node`` evaluated whenever its enclosing statement is executed (not under an IfExp arm,
    a short-circuited BoolOp operand, a lambda or a comprehension)?  Needs model parents (``_parent``)."""
    child = node
    par = getattr(node, "_parent", None)
    while par is not None and not isinstance(par, ast.stmt):
        if isinstance(par, ast.IfExp) and child is not par.test:
            return False
        if isinstance(par, ast.BoolOp) and child is not par.values[0]:
            return False
        if isinstance(par, (ast.Lambda, ast.ListComp, ast.SetComp, ast.DictComp, ast.GeneratorExp)):
            return False
        child, par = par, getattr(par, "_parent", None)
    return par is not None


class FlowSpec(NodeCondSpec):
    """GenericSpec + cond nodes + with-region events + hook events + implicit exception edges.

    extra events: ('enter', ctxexpr) / ('exit', ctxexpr) for with / async with,
                  ('hook', 'ClassName') for ``await self.handle_hook(mod.ClassName(...))`` and ``yield ClassName(...)`` hooks,
                  ('loop', entered) per for-loop decision (if ``loops``),
                  ('except', 'Cls') when a handler is entered.
    ``raises_into``: every statement of a try body may raise every exception class its handlers name
    (over-approximation: only adds paths, so must-rules stay sound).
    """

    def __init__(self, keep=None, resolver=None, unroll=1, tracked=(), record_conds=True, loops=False, implicit_raises=True, hook_call="self.handle_hook",
                 call_nodes=False, ret_nodes=False, assign_nodes=False):
        self._user_keep = keep
        self.call_nodes = call_nodes  # also emit ('callx', name, node) for every call
        self.ret_nodes = ret_nodes  # also emit ('ret', value_node_or_None) for every return statement
        self.assign_nodes = assign_nodes  # also emit ('assignx', target_text, value_node) for Assign/AnnAssign
        self.loops = loops
        self.implicit_raises = implicit_raises
        self.hook_call = hook_call
        super().__init__(keep=self._keep_ev, resolver=resolver, unroll=unroll, tracked=tracked, record_conds=record_conds)

    def _keep_ev(self, ev):
        return self._user_keep is None or self._user_keep(ev)

    def events(self, node, st):
        base = list(super().events(node, st))
        extra = []
        for n in eval_order(node):
            if isinstance(n, ast.Call):
                if call_name(n) == self.hook_call and n.args and isinstance(n.args[0], ast.Call):
                    extra.append(("hook", last_attr(n.args[0].func)))
                if self.call_nodes:
                    extra.append(("callx", call_name(n), n))
        if self.assign_nodes and isinstance(node, (ast.Assign, ast.AnnAssign)) and node.value is not None:
            for t in node.targets if isinstance(node, ast.Assign) else [node.target]:
                extra.append(("assignx", norm(t), node.value))
        late = []
        if self.ret_nodes and isinstance(node, ast.Return):
            late.append(("ret", node.value))
        # expression-level events (evaluation order) first, then the statement's own effect (assignment / return / raise)
        expr_level = [e for e in base if e[0] in ("call", "yield", "yield_from", "await")]
        stmt_level = [e for e in base if e[0] not in ("call", "yield", "yield_from", "await")]
        assignx = [e for e in extra if e[0] == "assignx"]
        extra = [e for e in extra if e[0] != "assignx"]
        return expr_level + [e for e in extra if self._keep_ev(e)] + stmt_level + [e for e in assignx + late if self._keep_ev(e)]

    def cond_event(self, expr, value, st):
        ev = ("cond", norm(expr), value, expr)
        return ev if self._keep_ev(ev) else None

    @staticmethod
    def _ctx_text(item):
        return norm(item.context_expr)

    def with_enter(self, node, s):
        return tuple(e for e in (("enter", self._ctx_text(i)) for i in node.items) if self._keep_ev(e))

    def with_exit(self, node):
        return tuple(e for e in (("exit", self._ctx_text(i)) for i in reversed(node.items)) if self._keep_ev(e))

    def loop_event(self, node, entered, s):
        if self.loops:
            ev = ("loop", entered, node)
            return ev if self._keep_ev(ev) else None
        return None

    def handler_event(self, h, ename, s):
        ev = ("except", ename)
        return ev if self._keep_ev(ev) else None

    def raises_into(self, stmt, handler_names, st):
        return list(dict.fromkeys(handler_names)) if self.implicit_raises else []


def module_const(model, rel: str, name: str, _depth=0):
    """Concrete value of a module-level constant built from literals and other constants of the same module."""
    if _depth > 6:
        raise AnalysisError(f"{rel}::{name}: constant definition too deep")
    node = model.const(rel, name)
    mod = model.module(rel)

    def atom(n, env):
        if isinstance(n, ast.Name) and mod.assigns(n.id):
            return module_const(model, rel, n.id, _depth + 1)
        raise NotAnAtom

    return ceval(node, {}, atom, f"{rel}::{name}")


def mentions(expr, *chains) -> bool:
    """Does ``expr`` contain a Name/Attribute whose dotted text is one of ``chains``?"""
    return any(isinstance(n, (ast.Name, ast.Attribute)) and attr_chain(n) in chains for n in ast.walk(expr))


def feasible(trace, relevant, atom, env=None, what="condition", until=None):
    """Is the path consistent with a concrete world?  Every cond event (kind 'cond', with node at [3]) for which
    ``relevant(node)`` holds must evaluate (ceval with ``atom``/``env``) to the value taken on the path.
    ``until(event)`` stops the scan (facts after a rebinding are stale)."""
    for e in trace:
        if until is not None and until(e):
            break
        if e[0] == "cond" and relevant(e[3]):
            if bool(ceval(e[3], env or {}, atom, what)) != e[2]:
                return False
    return True


def local_defs(fn, name: str):
    """Value nodes of all plain assignments to local ``name`` in ``fn`` (Assign / AnnAssign / with-as excluded)."""
    out = []
    for s in walk_in_order(fn):
        if isinstance(s, ast.Assign):
            for t in s.targets:
                if isinstance(t, ast.Name) and t.id == name:
                    out.append(s.value)
                elif isinstance(t, (ast.Tuple, ast.List)) and any(isinstance(x, ast.Name) and x.id == name for x in t.elts):
                    out.append(s.value)
        elif isinstance(s, ast.AnnAssign) and isinstance(s.target, ast.Name) and s.target.id == name and s.value is not None:
            out.append(s.value)
        elif isinstance(s, (ast.AugAssign, ast.NamedExpr)) and isinstance(s.target, ast.Name) and s.target.id == name:
            out.append(s.value)
    return out


def consistent(trace, names) -> bool:
    """False if the path tests the plain local ``name`` (truthiness leaf) twice with different outcomes without an
    ('assign', name) in between - such a path is not a behaviour (the engine does not correlate repeated tests)."""
    last = {}
    for e in trace:
        if e[0] == "assign" and e[1] in names:
            last.pop(e[1], None)
        elif e[0] == "cond" and e[1] in names:
            if e[1] in last and last[e[1]] != e[2]:
                return False
            last[e[1]] = e[2]
    return True


# ---------------------------------------------------------------------------------------------------
# hardening round (C09 / C22): depth-aware engine, value-based ("symbolic") flow spec, helper inlining by class, call-graph closure.
# Everything below is additive; nothing above depends on it.

from ..paths import Engine  # noqa: E402
from ..paths import is_const  # noqa: E402
from ..paths import R  # noqa: E402
from ..paths import State  # noqa: E402
from ..paths import UNKNOWN  # noqa: E402


class DepthEngine(Engine):
    """Path engine that tells the spec where it is: ``spec.cur_depth`` = inlining depth of the statement / condition being labelled
    and ``spec.call_stack`` = the call sites through which the current frame was inlined.  With that ``events`` / ``cond_event`` /
    ``loop_event`` (which get no depth from the engine) can *evaluate* expressions in the right frame, so rules can be written on
    values (what object is cancelled / awaited / tested) instead of on the text of local names."""

    def stmt(self, node, states, depth):
        self.spec.cur_depth = depth
        if isinstance(node, ast.stmt) and node.__class__.__name__ == "CtxBody":
            return self._ctx_body(node, states)
        if isinstance(node, (ast.With, ast.AsyncWith)) and getattr(self.spec, "inline_ctxmanagers", False):
            o = self._with_ctxmanager(node, states, depth)
            if o is not None:
                return o
        return super().stmt(node, states, depth)

    def cond(self, expr, states, depth):
        self.spec.cur_depth = depth
        return super().cond(expr, states, depth)

    # -- `with <generator-based context manager>(..)`: the generator is inlined around the with-body (see ``generator_around``)
    def _cm_of(self, item, s, depth):
        c = item.context_expr
        if not isinstance(c, ast.Call):
            return None
        fn = self.spec.inline(c, s, depth)
        return fn if fn is not None and ctxmanager_kind(fn) else None

    def _with_ctxmanager(self, node, states, depth):
        """None when no item of the with statement is a call of a resolvable @contextmanager / @asynccontextmanager function"""
        hits = {id(s): [self._cm_of(i, s, depth) for i in node.items] for s in states}
        if not any(fn is not None for fns in hits.values() for fn in fns):
            return None
        if len(node.items) > 1:
            # `with a, b: body` is `with a: with b: body`
            inner = type(node)(items=node.items[1:], body=node.body, type_comment=None)
            outer = type(node)(items=node.items[:1], body=[inner], type_comment=None)
            for x in (inner, outer):
                ast.copy_location(x, node)
                x._parent = node
            return self.stmt(outer, states, depth)
        item = node.items[0]
        out = None
        plain = {s for s in states if hits[id(s)][0] is None}
        if plain:
            out = super().stmt(node, plain, depth)
        from ..paths import Out

        out = out or Out.empty()
        for s in states:
            fn = hits[id(s)][0]
            if fn is None:
                continue
            kind = ctxmanager_kind(fn)
            if (kind == "async") != isinstance(node, ast.AsyncWith):
                raise AnalysisError(f"{norm(item.context_expr)[:60]}: {'async ' if kind == 'async' else ''}context manager used in a{'n async' if isinstance(node, ast.AsyncWith) else ' plain'} with")
            holes = []

            def make_hole(ystmt, holes=holes):
                holes.append(CtxBody(node, node.body, depth, ystmt))
                return holes[-1]

            gen, ystmt = generator_around(fn, make_hole)
            gen._cm_inlined = True
            key = f"$cm:{id(holes[0])}"
            o = self.call(gen, item.context_expr, {s}, depth)
            out.exc |= {r.drop(lambda k: k == key) for r in o.exc}
            for r in o.ret:
                how = r.get(key)
                r2 = r.drop(lambda k: k == key)
                if not is_const(how):
                    # the generator ended without reaching its yield: contextlib raises RuntimeError("generator didn't yield")
                    out.exc.add(r2.drop(lambda k: k == "$ret").set("$exc", ("c", "RuntimeError")))
                elif how[1] == "ret":
                    out.ret.add(r2)
                elif how[1] == "brk":
                    out.brk.add(r2.drop(lambda k: k == "$ret"))
                elif how[1] == "cont":
                    out.cont.add(r2.drop(lambda k: k == "$ret"))
                else:
                    out.normal.add(r2.drop(lambda k: k == "$ret"))
        return out

    def _ctx_body(self, hole, states):
        """the with-body, run in the frame of the with statement at the place of the generator's yield.  How the body was left is
        remembered in the state; return / break / continue of the body travel through the generator like a ``return`` (its ``finally``
        clauses run, nothing else) and are handed back to the with statement's own frame by ``_with_ctxmanager``."""
        from ..paths import Out

        sp = self.spec
        key = f"$cm:{id(hole)}"
        node, depth = hole.with_node, hole.with_depth
        y = hole.yield_stmt.value
        cur = set()
        for s in states:
            if is_const(s.get(key)):
                raise AnalysisError(f"{norm(node.items[0].context_expr)[:60]}: the context manager reaches its yield twice (not modelled)")
            ov = node.items[0].optional_vars
            if ov is not None:
                v = sp.value(y.value, s, self.spec.cur_depth) if y.value is not None else ("c", None)
                s = sp.bind(ov, None, s, depth, value=v if (is_const(v) or is_sym(v)) else UNKNOWN)
            cur.add(s)
        gen_depth = sp.cur_depth
        # the generator's frame lives one level below the with statement - where the calls the body inlines put (and afterwards drop)
        # their frames too: its locals are parked under another name while the body runs
        live, parked = f"{gen_depth}:", f"$cmframe:{id(hole)}:"

        def park(s):
            return State(s.trace, {(parked + k if k.startswith(live) else k): v for k, v in s.env})

        def unpark(s):
            return State(s.trace, {(k[len(parked):] if k.startswith(parked) else k): v for k, v in s.env if not k.startswith(live)})

        cur = {park(s) for s in cur}
        sp.call_stack.append(hole.yield_stmt)
        try:
            o = self.block(hole.with_body, cur, depth)
        finally:
            sp.call_stack.pop()
            sp.cur_depth = gen_depth
        o = Out({unpark(s) for s in o.normal}, {unpark(s) for s in o.ret}, {unpark(s) for s in o.exc}, {unpark(s) for s in o.brk}, {unpark(s) for s in o.cont})
        out = Out.empty()
        out.normal = {s.set(key, ("c", "normal")) for s in o.normal}
        out.exc = {s.set(key, ("c", "exc")) for s in o.exc}
        out.ret = {s.set(key, ("c", "ret")) for s in o.ret} | {s.set(key, ("c", "brk")).set("$ret", ("c", None)) for s in o.brk} | {s.set(key, ("c", "cont")).set("$ret", ("c", None)) for s in o.cont}
        return out

    def _plain_cond(self, expr, s, depth, T, F):
        # walrus targets nested in a condition leaf (`if (t := io.handler) is None:`) are bound before the leaf is decided
        # (BoolOp operands are separate leaves, so everything inside one leaf is evaluated unconditionally - IfExp arms excepted)
        s = s.emit(*self.spec.events(expr, s))
        if not isinstance(expr, ast.NamedExpr):
            for ne in eval_order(expr):
                if isinstance(ne, ast.NamedExpr) and unconditional_in_expr(ne, expr):
                    s = self.spec.bind(ne.target, ne.value, s, depth)
        self._decide_into(expr, expr, s, depth, T, F)

    def call(self, fn, call, states, depth):
        if getattr(self.spec, "inline_ctxmanagers", False) and ctxmanager_kind(fn) and not getattr(fn, "_cm_inlined", False):
            # calling the decorated function only creates the context manager object; its code runs when a with statement enters it
            raise AnalysisError(f"{norm(call)[:60]}: a context manager object is created outside the header of a with statement (not modelled)")
        stack = self.spec.call_stack
        stack.append(call)
        try:
            return super().call(fn, call, states, depth)
        finally:
            stack.pop()
            self.spec.cur_depth = depth


def unconditional_in_expr(node, root) -> bool:
    """is ``node`` evaluated whenever the expression ``root`` is (not under an IfExp arm, a later BoolOp operand, a lambda or a comprehension)?"""
    child, par = node, getattr(node, "_parent", None)
    while par is not None and child is not root:
        if isinstance(par, ast.IfExp) and child is not par.test:
            return False
        if isinstance(par, ast.BoolOp) and child is not par.values[0]:
            return False
        if isinstance(par, (ast.Lambda, ast.ListComp, ast.SetComp, ast.DictComp, ast.GeneratorExp)):
            return False
        child, par = par, getattr(par, "_parent", None)
    return child is root


def traces_of_v(fn, spec, bindings: dict | None = None, init_env: dict | None = None):
    """``paths.traces_of`` on a DepthEngine (for SymFlowSpec and its subclasses)."""
    eng = DepthEngine(spec)
    o = eng.run(fn, State((), dict(init_env or {})), bindings)
    out = []
    for s in o.ret:
        out.append((s.trace, "return", s))
    for s in o.exc:
        e = s.get("$exc")
        out.append((s.trace, "raise:" + (e[1] if is_const(e) else "?"), s))
    return out, eng


def S(kind, *rest):
    """A symbolic value of the value-based specs: ('s', kind, ...)."""
    return ("s", kind) + tuple(rest)


def is_sym(v, kind=None):
    return isinstance(v, tuple) and len(v) >= 2 and v[0] == "s" and (kind is None or v[1] == kind)


def _handler_type_names(h) -> list[str]:
    if h.type is None:
        return [""]
    return [last_attr(e) for e in (h.type.elts if isinstance(h.type, ast.Tuple) else [h.type])]


def cancel_guarded(node, call_stack=(), stop=None, also=None) -> bool:
    """Is ``node`` inside the *body* of a ``try`` that has a handler for asyncio.CancelledError (bare except / CancelledError /
    BaseException) - in its own function or, when its function was inlined, at one of the call sites in ``call_stack``?
    ``also(try_node)`` lets a rule accept further guards (e.g. a ``finally`` that does the clean-up itself)."""
    for start in [node] + list(reversed(list(call_stack))):
        child, p = start, getattr(start, "_parent", None)
        while p is not None and p is not stop and not isinstance(p, (ast.FunctionDef, ast.AsyncFunctionDef, ast.Lambda)):
            if isinstance(p, ast.Try) and any(child is x for x in p.body):
                if any(n in ("", "CancelledError", "BaseException") for h in p.handlers for n in _handler_type_names(h)):
                    return True
                if also is not None and also(p):
                    return True
            child, p = p, getattr(p, "_parent", None)
    return False


def class_helper_resolver(model, rel: str, cls: str, atomic=()):
    """Resolver for the path engine: inline ``self.<m>(...)`` / ``cls.<m>(...)`` when ``m`` is a method found along the MRO of ``cls`` and
    bare ``f(...)`` when ``f`` is a function of module ``rel`` - except the names in ``atomic`` (the methods a rule treats as events of
    its alphabet).  This is what makes "extract method" refactors transparent: a new private helper is analysed as if it were still
    written in place."""
    mod = model.module(rel)
    atomic = set(atomic)

    def resolve(call):
        f = call.func
        if isinstance(f, ast.Attribute) and isinstance(f.value, ast.Name) and f.value.id in ("self", "cls"):
            if f.attr in atomic:
                return None
            r = model.method(rel, cls, f.attr)
            return r[1] if r is not None else None
        if isinstance(f, ast.Name) and f.id not in atomic:
            d = mod.get(f.id)
            if isinstance(d, (ast.FunctionDef, ast.AsyncFunctionDef)):
                return d
        return None

    return resolve


def reference_sites(model, name: str, sub: str = "mitmproxy"):
    """[(rel, enclosing function node | None, node, is_call)] for every ``<x>.name`` attribute / bare ``name`` reference in the package
    (definitions excluded).  Text pre-filter: a reference needs the identifier in the file."""
    from ..model import enclosing_func

    out = []
    for p in sorted((model.repo / sub).rglob("*.py")):
        rel = p.relative_to(model.repo).as_posix()
        if rel.startswith("mitmproxy/contrib/") or name not in model.source(rel):
            continue
        for n in ast.walk(model.module(rel).tree):
            hit = (isinstance(n, ast.Attribute) and n.attr == name) or (isinstance(n, ast.Name) and n.id == name and isinstance(n.ctx, ast.Load))
            if not hit:
                continue
            par = getattr(n, "_parent", None)
            out.append((rel, enclosing_func(n), n, isinstance(par, ast.Call) and par.func is n))
    return out


def _enclosing_class(node):
    n = getattr(node, "_parent", None)
    while n is not None and not isinstance(n, ast.ClassDef):
        n = getattr(n, "_parent", None)
    return n


def _may_denote(model, rel, fn, srel, node) -> bool:
    """Can the reference ``node`` (in module ``srel``) denote the helper ``fn`` of module ``rel``?  A ``self.<name>`` / ``cls.<name>`` inside a
    class outside the helper's class family is a different method that merely has the same name; a bare name in another module denotes
    it only if it is imported from the helper's module.  Anything that cannot be told apart counts (conservative)."""
    owner = _enclosing_class(fn)
    if isinstance(node, ast.Name):
        if owner is not None:
            return False  # a method is not reachable through a bare name
        if srel == rel:
            return True
        target = model.module(srel).imports.get(node.id, "")
        return target.endswith("." + fn.name) and model.module_by_dotted(target.rsplit(".", 1)[0]) is model.module(rel)
    base = node.value
    if isinstance(base, ast.Name) and base.id in ("self", "cls"):
        if owner is None:
            return False
        k = _enclosing_class(node)
        if k is None:
            return True
        try:
            fam_k = {c.name for _, c in model.mro(srel, getattr(k, "_qual", k.name))}
            fam_o = {c.name for _, c in model.mro(rel, getattr(owner, "_qual", owner.name))}
        except AnalysisError:
            return True
        return owner.name in fam_k or k.name in fam_o
    return True


def only_reachable_from(model, rel: str, fn, roots, _seen=None) -> bool:
    """Is the helper function ``fn`` (a def node of module ``rel``) *called* only from the functions in ``roots`` (def nodes) or from
    helpers for which the same holds, and never referenced otherwise (stored, passed as a callback)?  The "who may fire / who may
    write" rules use it so that a private helper extracted from an allowed function stays allowed."""
    _seen = _seen if _seen is not None else set()
    if any(fn is r for r in roots):
        return True
    if id(fn) in _seen:
        return True  # a cycle of helpers adds no new caller
    _seen.add(id(fn))
    sites = [x for x in reference_sites(model, fn.name) if _may_denote(model, rel, fn, x[0], x[2])]
    if not sites:
        return False
    for srel, caller, node, is_call in sites:
        if not is_call or caller is None:
            return False
        if not only_reachable_from(model, srel, caller, roots, _seen):
            return False
    return True


class SymFlowSpec(FlowSpec):
    """FlowSpec on a DepthEngine with *value-based* events.

    values:  S('hook', Cls)     a lifecycle hook object ``mod.Cls(...)`` (``hook_classes``), wherever it is built / passed
             R('a.b.c')         attribute chains are resolved through locals and parameters bound to references
                                (``conn = command.connection; conn.address`` and a helper's parameter both read R('command.connection.address'))
             subclasses add their own through ``sym_value``.
    events:  ('hook', Cls) also when the hook object reaches ``handle_hook`` through a local / parameter ('?' if it cannot be resolved),
             ('hookawait', Cls) when that call is awaited,
             ('extwait', text, guarded) for every await of / ``async with`` on something that is not a method of ``self`` (``extwaits``),
             plus whatever ``sym_events`` of a subclass adds.
    Use ``traces_of_v``."""

    cur_depth = 0
    inline_ctxmanagers = True  # `with helper(..)` on a @contextmanager generator function: the generator is inlined around the body

    def __init__(self, hook_classes=(), extwaits=False, guard_also=None, **kw):
        super().__init__(**kw)
        self.call_stack: list = []
        self.hook_classes = tuple(hook_classes)
        self.extwaits = extwaits
        self.guard_also = guard_also
        self.wait_log: dict = {}

    # -- values
    def sym(self, expr, st):
        return self.value(expr, st, self.cur_depth)

    def sym_value(self, expr, st, depth):
        return None

    def value(self, expr, st, depth):
        v = self.sym_value(expr, st, depth)
        if v is not None:
            return v
        if isinstance(expr, ast.Call) and self.hook_classes and last_attr(expr.func) in self.hook_classes:
            return S("hook", last_attr(expr.func))
        if isinstance(expr, ast.Attribute):
            ch = attr_chain(expr)
            if ch and st.has(ch):
                return st.get(ch)  # a tracked chain
            b = self.value(expr.value, st, depth)
            if isinstance(b, tuple) and len(b) == 2 and b[0] == "r":
                return R(f"{b[1]}.{expr.attr}")
        if isinstance(expr, (ast.Starred, ast.NamedExpr)):
            return self.value(expr.value, st, depth)
        return super().value(expr, st, depth)

    # -- events
    def sym_events(self, node, st):
        return []

    def _hook_cls(self, call, st):
        a = call.args[0]
        if isinstance(a, ast.Call):
            return last_attr(a.func)
        v = self.sym(a, st)
        return v[2] if is_sym(v, "hook") else "?"

    def events(self, node, st):
        base = list(super().events(node, st))
        extra = []
        for n in eval_order(node):
            if isinstance(n, ast.Call) and call_name(n) == self.hook_call and n.args and not isinstance(n.args[0], ast.Call):
                extra.append(("hook", self._hook_cls(n, st)))  # (the literal form is labelled by FlowSpec)
            elif isinstance(n, ast.Await):
                c = n.value
                if isinstance(c, ast.Call) and call_name(c) == self.hook_call and c.args:
                    extra.append(("hookawait", self._hook_cls(c, st)))
                elif self.extwaits:
                    callee = call_name(c) if isinstance(c, ast.Call) else norm(c)
                    if not (callee.startswith("self.") and callee.count(".") == 1 and isinstance(c, ast.Call)):
                        extra.append(("extwait", callee, cancel_guarded(n, self.call_stack, also=self.guard_also), n))
        extra.extend(self.sym_events(node, st))
        for e in extra:
            if e[0] == "extwait":
                self._log_wait(e)
        return base + [e for e in extra if self._keep_ev(e)]

    def with_enter(self, node, s):
        out = tuple(super().with_enter(node, s))
        if self.extwaits and isinstance(node, ast.AsyncWith):
            ev = ("extwait", "async with " + ", ".join(norm(i.context_expr) for i in node.items), cancel_guarded(node, self.call_stack, also=self.guard_also), node)
            self._log_wait(ev)
            if self._keep_ev(ev):
                out = (ev,) + out
        return out

    def raises_into(self, stmt, handler_names, st):
        # the with-body standing at the yield of an inlined context manager: what the body raises is decided inside the body (its own
        # guarded statements and explicit raises reach the generator's handlers as real exception states); the placeholder itself raises nothing
        if stmt.__class__.__name__ == "CtxBody":
            return []
        return super().raises_into(stmt, handler_names, st)

    def _log_wait(self, ev):
        """``wait_log``: every external wait the engine came across (also on paths that are cut off by the loop bound):
        id(node) -> [node, text, guarded on every occurrence]"""
        w = self.wait_log.setdefault(id(ev[3]), [ev[3], ev[1], True])
        w[2] = w[2] and ev[2]


# -- ConnectionHandler.handle_client, value-based (shared by C09 R09.2 and C22 R22.2) --------------------------------

SERVER_PY = "mitmproxy/proxy/server.py"
CONN_HANDLER = "ConnectionHandler"
# methods of ConnectionHandler that the rules treat as *events* (everything else reached through ``self.`` is a helper and is inlined)
CONN_HANDLER_ATOMIC = ("handle_hook", "server_event", "log", "drain_writers", "wakeup", "on_timeout", "hook_task", "close_connection",
                       "handle_client", "open_connection", "handle_connection")


class HandleClientSpec(SymFlowSpec):
    """Projection of ``ConnectionHandler.handle_client`` (helpers inlined) onto what C09 / C22 talk about, by *value*:

      ('hook', Cls) / ('hookawait', Cls)       lifecycle hook built / awaited
      ('cerr', set?, readpos)                  a branch decided by the truth of ``self.client.error`` - directly, negated, compared with
                                               None, through ``bool()`` or through a local that holds any of these; ``readpos`` = length
                                               of the trace when the attribute was *read* (a value read before the hook is stale)
      ('call'|'await', ...)                    server_event / handle_connection / handle_event, ``.close()`` / ``.abort()``
      ('wait', 'client-task'|'remaining')      ``await asyncio.wait(..)`` / ``gather(..)`` on the task created for handle_connection /
                                               on the handlers of everything left in ``self.transports``
      ('cancel', 'client-task'|'remaining')    ``.cancel(..)`` on such a task
      ('loop', entered, node, kind)            a ``for`` over ``self.transports`` values / items / their handlers
      ('hcond', non-null?)                     a branch on such a handler being set
    """

    PROC = ("server_event", "handle_connection", "handle_event")
    CERR = "self.client.error"
    TRANSPORTS = "self.transports"

    def __init__(self, resolver=None, hook_classes=()):
        super().__init__(keep=self._keep, resolver=resolver, loops=True, record_conds=True, hook_classes=hook_classes)

    def _keep(self, ev):
        k = ev[0]
        if k in ("hook", "hookawait", "cerr", "hcond", "wait", "cancel", "loop"):
            return True
        if k == "call":
            return ev[1].split(".")[-1] in self.PROC + ("close", "abort")
        if k == "await":
            return ev[1].split(".")[-1] in self.PROC
        return False

    # -- values
    @staticmethod
    def _truth_of(v):
        if is_sym(v, "truth"):
            return v
        if is_sym(v, "cerr"):
            return S("truth", "cerr", True, v[2])
        if is_sym(v, "elem") and v[2] == "handler":
            return S("truth", "handler", True, 0)
        return None

    def _elem(self, target, coll, st, depth):
        kind = coll[2]
        if isinstance(target, ast.Name):
            v = S("elem", "io", False) if kind == "io" else S("elem", "handler", coll[3]) if kind == "handler" else UNKNOWN
            return st.set(f"{depth}:{target.id}", v)
        if isinstance(target, (ast.Tuple, ast.List)) and kind == "item" and len(target.elts) == 2 and all(isinstance(e, ast.Name) for e in target.elts):
            st = st.set(f"{depth}:{target.elts[0].id}", UNKNOWN)
            return st.set(f"{depth}:{target.elts[1].id}", S("elem", "io", False))
        return None

    def sym_value(self, expr, st, depth):
        if isinstance(expr, ast.Attribute):
            if attr_chain(expr) == self.CERR or (expr.attr == "error" and self.value(expr.value, st, depth) == R(self.CERR.rsplit(".", 1)[0])):
                return S("cerr", len(st.trace))  # (also through `client = self.client`)
            if expr.attr == "handler":
                b = self.value(expr.value, st, depth)
                if is_sym(b, "elem") and b[2] == "io":
                    return S("elem", "handler", False)
            return None
        if isinstance(expr, ast.UnaryOp) and isinstance(expr.op, ast.Not):
            t = self._truth_of(self.value(expr.operand, st, depth))
            return S("truth", t[2], not t[3], t[4]) if t else None
        if isinstance(expr, ast.Compare) and len(expr.ops) == 1 and isinstance(expr.comparators[0], ast.Constant) and expr.comparators[0].value is None:
            v = self.value(expr.left, st, depth)
            if (is_sym(v, "cerr") or (is_sym(v, "elem") and v[2] == "handler")) and isinstance(expr.ops[0], (ast.Is, ast.IsNot, ast.Eq, ast.NotEq)):
                t = self._truth_of(v)  # `x is not None` is read like the truth of x (an error message / a task object is never falsy but set)
                return S("truth", t[2], isinstance(expr.ops[0], (ast.IsNot, ast.NotEq)), t[4])
            return None
        if isinstance(expr, ast.Call):
            f = expr.func
            la = last_attr(f)
            if isinstance(f, ast.Name) and f.id == "bool" and len(expr.args) == 1 and not expr.keywords:
                return self._truth_of(self.value(expr.args[0], st, depth))
            if la in ("create_task", "ensure_future") and expr.args and isinstance(expr.args[0], ast.Call):
                inner = call_name(expr.args[0])
                if inner.startswith("self.") and inner.count(".") == 1:
                    return S("task", inner[5:])
            if isinstance(f, ast.Name) and f.id in ("list", "tuple", "set", "frozenset", "sorted") and len(expr.args) == 1 and not expr.keywords:
                v = self.value(expr.args[0], st, depth)
                return v if is_sym(v, "coll") else None
            if isinstance(f, ast.Attribute) and not expr.args and f.attr in ("values", "items") and (attr_chain(f.value) == self.TRANSPORTS or self.value(f.value, st, depth) == R(self.TRANSPORTS)):
                if f.attr == "values":
                    return S("coll", "io", False)
                if f.attr == "items":
                    return S("coll", "item", False)
            return None
        if isinstance(expr, (ast.ListComp, ast.SetComp, ast.GeneratorExp)):
            if len(expr.generators) != 1 or expr.generators[0].is_async:
                return None
            g = expr.generators[0]
            it = self.value(g.iter, st, depth)
            if not is_sym(it, "coll"):
                return None
            st2 = self._elem(g.target, it, st, depth)
            if st2 is None:
                return None
            elt = self.value(expr.elt, st2, depth)
            tests = [self._truth_of(self.value(c, st2, depth)) for c in g.ifs]
            if any(t is None or t[2] != "handler" or not t[3] for t in tests):
                return None  # filtered by something else: not (known to be) every remaining handler
            if is_sym(elt, "elem") and elt[2] == "handler":
                return S("coll", "handler", bool(elt[3] or tests))
            if is_sym(elt, "elem") and elt[2] == "io" and not tests:
                return S("coll", "io", False)
            return None
        if isinstance(expr, (ast.List, ast.Tuple, ast.Set)):
            vals = tuple(self.value(e, st, depth) for e in expr.elts)
            return S("seq", vals) if any(is_sym(v) for v in vals) else None
        return None

    def bind(self, target, value_expr, st, depth, value=None):
        if value_expr is None and value == UNKNOWN:
            p = getattr(target, "_parent", None)
            if isinstance(p, (ast.For, ast.AsyncFor)) and p.target is target:
                it = self.value(p.iter, st, depth)
                if is_sym(it, "coll"):
                    st2 = self._elem(target, it, st, depth)
                    if st2 is not None:
                        return st2
        return super().bind(target, value_expr, st, depth, value=value)

    # -- events
    def _awaited_kinds(self, v, out):
        if is_sym(v, "task"):
            out.append("client-task" if v[2] == "handle_connection" else "task:" + v[2])
        elif is_sym(v, "coll") and v[2] == "handler":
            out.append("remaining")
        elif is_sym(v, "elem") and v[2] == "handler":
            out.append("one-remaining")
        elif is_sym(v, "seq"):
            for x in v[2]:
                self._awaited_kinds(x, out)

    def sym_events(self, node, st):
        out = []
        for n in eval_order(node):
            if isinstance(n, ast.Call) and isinstance(n.func, ast.Attribute) and n.func.attr == "cancel":
                kinds: list = []
                self._awaited_kinds(self.sym(n.func.value, st), kinds)
                out.extend(("cancel", "remaining" if k == "one-remaining" else k) for k in kinds)
            elif isinstance(n, ast.Await) and isinstance(n.value, ast.Call) and last_attr(n.value.func) in ("wait", "gather"):
                kinds = []
                for a in n.value.args:
                    self._awaited_kinds(self.sym(a, st), kinds)
                out.extend(("wait", k) for k in dict.fromkeys(kinds))
        return out

    def loop_event(self, node, entered, s):
        it = self.sym(node.iter, s)
        if not is_sym(it, "coll"):
            return None  # a loop over something else (wake-up timers ...): not in the alphabet
        return ("loop", entered, node, it[2] + ("!" if it[3] else ""))

    def cond_event(self, expr, value, st):
        e = expr.target if isinstance(expr, ast.NamedExpr) else expr
        t = self._truth_of(self.sym(e, st))
        if t is not None:
            if t[2] == "cerr":
                return ("cerr", value == t[3], t[4])
            return ("hcond", value == t[3])
        if "client.error" in ast.unparse(expr):
            raise AnalysisError(f"handle_client: unmodelled test of client.error: {norm(expr)}")
        return None


def handle_client_paths(ctx, hook_classes):
    """All terminal paths of ConnectionHandler.handle_client (helper methods inlined) in the alphabet of HandleClientSpec.
    -> (fn, [(trace, how, state)], engine); assertion failures are not behaviours."""
    fn = ctx.func(SERVER_PY, f"{CONN_HANDLER}.handle_client")
    spec = HandleClientSpec(resolver=class_helper_resolver(ctx.model, SERVER_PY, CONN_HANDLER, CONN_HANDLER_ATOMIC), hook_classes=hook_classes)
    res, eng = traces_of_v(fn, spec)
    return fn, [(t, how, st) for t, how, st in res if how != "raise:AssertionError"], eng



# ---------------------------------------------------------------------------------------------------
# hardening round 2 (C09): ``with <generator-based context manager>(..)`` is analysed by inlining the generator around the with-body
# (DepthEngine.stmt dispatches here when the spec sets ``inline_ctxmanagers``), and "is this identifier bound exactly once" for
# constants / factory functions that a rule evaluates.  Additive.


class CtxBody(ast.stmt):
    """Placeholder statement: the body of a ``with`` statement, standing where the ``yield`` of its @contextmanager generator stood."""

    _fields = ()

    def __init__(self, with_node, body, depth, yield_stmt):
        super().__init__()
        self.with_node, self.with_body, self.with_depth, self.yield_stmt = with_node, body, depth, yield_stmt
        ast.copy_location(self, yield_stmt)
        self._parent = getattr(yield_stmt, "_parent", None)


def ctxmanager_kind(fn):
    """'sync' / 'async' when ``fn`` is decorated with contextlib.contextmanager / asynccontextmanager (however imported), else None"""
    for d in getattr(fn, "decorator_list", []):
        la = last_attr(d)
        if la == "contextmanager" and isinstance(fn, ast.FunctionDef):
            return "sync"
        if la == "asynccontextmanager" and isinstance(fn, ast.AsyncFunctionDef):
            return "async"
    return None


def _own_yields(node):
    """yield expressions of this function body part (nested defs / lambdas excluded)"""
    out = []
    stack = [node]
    while stack:
        n = stack.pop()
        if isinstance(n, (ast.Yield, ast.YieldFrom)):
            out.append(n)
        for c in ast.iter_child_nodes(n):
            if not isinstance(c, (ast.FunctionDef, ast.AsyncFunctionDef, ast.Lambda, ast.ClassDef)):
                stack.append(c)
    return out


def generator_around(fn, make_hole):
    """Copy of the generator function ``fn`` (only the statements on the way to its ``yield`` are copied, everything else is shared) in
    which the single ``yield`` statement is replaced by ``make_hole(yield_stmt)``.  What ``contextlib.contextmanager`` does with the
    generator is then ordinary control flow: the code before the yield runs on entry, the with-body runs *at* the yield (an exception
    of the body is raised there, so the generator's own ``try/except/finally`` apply), the code after it on every exit.
    Shapes outside this (several yields, a yield inside a loop or inside an expression, ``yield from``) raise AnalysisError."""
    ys = [y for st in fn.body for y in _own_yields(st)]
    if len(ys) != 1 or not isinstance(ys[0], ast.Yield):
        raise AnalysisError(f"{fn.name}: context manager with {len(ys)} yield expressions / a yield from (not modelled)")
    y = ys[0]
    found = []

    def contains(s):
        return any(x is y for x in _own_yields(s))

    def rewrite(stmts):
        out = []
        for s in stmts:
            if not contains(s):
                out.append(s)
                continue
            if isinstance(s, ast.Expr) and s.value is y:
                found.append(s)
                out.append(make_hole(s))
                continue
            if isinstance(s, (ast.If, ast.Try, ast.With, ast.AsyncWith)) and not any(
                x is y for e in ([s.test] if isinstance(s, ast.If) else [i.context_expr for i in s.items] if isinstance(s, (ast.With, ast.AsyncWith)) else []) for x in _own_yields(e)
            ):
                c = copy.copy(s)
                for field in ("body", "orelse", "finalbody"):
                    if isinstance(getattr(c, field, None), list):
                        setattr(c, field, rewrite(getattr(c, field)))
                if isinstance(c, ast.Try):
                    hs = []
                    for h in c.handlers:
                        if contains(h):
                            h2 = copy.copy(h)
                            h2.body = rewrite(h.body)
                            hs.append(h2)
                        else:
                            hs.append(h)
                    c.handlers = hs
                out.append(c)
                continue
            raise AnalysisError(f"{fn.name}: the yield of the context manager is not a plain statement under if / try / with (not modelled): {norm(s)[:80]}")
        return out

    new = copy.copy(fn)
    new.body = rewrite(list(fn.body))
    if len(found) != 1:
        raise AnalysisError(f"{fn.name}: yield statement of the context manager not found")
    return new, found[0]


def binding_sites(model, name: str, sub: str = "mitmproxy"):
    """[(rel, node)] for everything in the package that binds the identifier ``name`` in a way another scope can see: ``def`` / ``class``
    statements, stores to a module- or class-level name (or to a ``global``), stores to / deletions of an attribute ``<x>.name`` and
    ``setattr(<x>, "name", ..)``.  A rule that evaluates a constant or a factory function requires exactly one (the definition it read)."""
    from ..model import enclosing_func

    out = []
    for p in sorted((model.repo / sub).rglob("*.py")):
        rel = p.relative_to(model.repo).as_posix()
        if rel.startswith("mitmproxy/contrib/") or name not in model.source(rel):
            continue
        for n in ast.walk(model.module(rel).tree):
            if isinstance(n, (ast.FunctionDef, ast.AsyncFunctionDef, ast.ClassDef)) and n.name == name:
                out.append((rel, n))
            elif isinstance(n, ast.Attribute) and n.attr == name and isinstance(n.ctx, (ast.Store, ast.Del)):
                out.append((rel, n))
            elif isinstance(n, ast.Name) and n.id == name and isinstance(n.ctx, (ast.Store, ast.Del)):
                fn = enclosing_func(n)
                if fn is None or any(isinstance(g, ast.Global) and name in g.names for g in ast.walk(fn)):
                    out.append((rel, n))
            elif isinstance(n, ast.Call) and isinstance(n.func, ast.Name) and n.func.id in ("setattr", "delattr") and len(n.args) >= 2:
                a = n.args[1]
                if isinstance(a, ast.Constant) and a.value == name:
                    out.append((rel, n))
    return out
