"""Shared helpers of batch B (connection handling and TLS: C09 C10 C14 C15 C16 C17 C18).

* ``MiniInterp`` - a tiny *concrete* interpreter for straight-line / branching / for-loop Python functions over
  ordinary Python values.  Everything that is not a local name is asked of the rule (``atom`` hook); every
  construct that is not modelled raises AnalysisError (never a guess).  Used for decision tables over finite domains.
* ``ceval`` - the expression half of it, usable on its own (conditions taken from path-engine traces).
* ``with_throw_at_yield`` - copy of a generator-based context manager in which the ``yield`` raises (what
  ``contextlib.contextmanager`` does when the with-body raises), so the path engine sees the exceptional exit too.
* ``NodeCondSpec`` - GenericSpec whose cond events carry the condition *node* (for semantic evaluation).

Nothing here imports or executes repository code.
"""

from __future__ import annotations

import ast
import copy

from ..core import AnalysisError
from ..core import norm
from ..model import attr_chain
from ..model import call_name
from ..model import eval_order
from ..model import last_attr
from ..model import walk_in_order
from ..paths import GenericSpec


class NotAnAtom(Exception):
    """Raised by an ``atom`` hook for an expression the rule gives no value to."""


_CMP = {
    ast.Eq: lambda a, b: a == b,
    ast.NotEq: lambda a, b: a != b,
    ast.Lt: lambda a, b: a < b,
    ast.LtE: lambda a, b: a <= b,
    ast.Gt: lambda a, b: a > b,
    ast.GtE: lambda a, b: a >= b,
    ast.Is: lambda a, b: a is b or (type(a) is type(b) and isinstance(a, (bytes, str, int)) and a == b),
    ast.IsNot: lambda a, b: not (a is b or (type(a) is type(b) and isinstance(a, (bytes, str, int)) and a == b)),
    ast.In: lambda a, b: a in b,
    ast.NotIn: lambda a, b: a not in b,
}
_BIN = {
    ast.Add: lambda a, b: a + b,
    ast.Sub: lambda a, b: a - b,
    ast.Mult: lambda a, b: a * b,
    ast.BitAnd: lambda a, b: a & b,
    ast.BitOr: lambda a, b: a | b,
}


_BUILTINS = {"len": len, "str": str, "range": lambda *a: list(range(*a)), "list": list, "tuple": tuple, "bool": bool, "next": lambda it, *d: next(iter(it), *d), "filter": filter,
             "iter": iter, "sorted": sorted, "reversed": lambda x: list(reversed(x)), "min": min, "max": max, "any": any, "all": all, "bytes": bytes, "dict": dict, "set": set}
_METHODS = {
    str: {"split", "join", "startswith", "endswith", "lower", "upper", "encode", "strip", "rsplit", "partition"},
    bytes: {"decode", "startswith", "endswith", "split"},
    list: {"append", "extend", "pop", "insert", "clear", "index", "count", "remove"},
    dict: {"items", "keys", "values", "get", "pop", "setdefault", "clear"},
    tuple: {"index", "count"},
}


def ceval(expr, env: dict, atom=None, what: str = "expression"):
    """Concrete value of ``expr``. Local names come from ``env``; everything else from ``atom(node, env)``
    (which raises NotAnAtom when it has no value) - an unresolved leaf is an AnalysisError."""

    def ev(e):
        if isinstance(e, ast.Constant):
            return e.value
        if isinstance(e, ast.Name) and e.id in env:
            return env[e.id]
        if isinstance(e, ast.Name) and e.id in ("True", "False", "None"):
            return {"True": True, "False": False, "None": None}[e.id]
        if atom is not None and isinstance(e, (ast.Name, ast.Attribute, ast.Call, ast.Subscript)):
            try:
                return atom(e, env)
            except NotAnAtom:
                pass
        if isinstance(e, ast.BoolOp):
            v = None
            for sub in e.values:
                v = ev(sub)
                if isinstance(e.op, ast.And) and not v:
                    return v
                if isinstance(e.op, ast.Or) and v:
                    return v
            return v
        if isinstance(e, ast.UnaryOp) and isinstance(e.op, ast.Not):
            return not ev(e.operand)
        if isinstance(e, ast.UnaryOp) and isinstance(e.op, ast.USub):
            return -ev(e.operand)
        if isinstance(e, ast.BinOp) and type(e.op) in _BIN:
            return _BIN[type(e.op)](ev(e.left), ev(e.right))
        if isinstance(e, ast.Compare):
            left = ev(e.left)
            for op, c in zip(e.ops, e.comparators):
                right = ev(c)
                if type(op) not in _CMP:
                    raise AnalysisError(f"{what}: comparison operator not modelled in {norm(e)}")
                if not _CMP[type(op)](left, right):
                    return False
                left = right
            return True
        if isinstance(e, ast.IfExp):
            return ev(e.body) if ev(e.test) else ev(e.orelse)
        if isinstance(e, (ast.Tuple, ast.List, ast.Set)):
            items = []
            for x in e.elts:
                if isinstance(x, ast.Starred):
                    items.extend(ev(x.value))
                else:
                    items.append(ev(x))
            return tuple(items) if isinstance(e, ast.Tuple) else (items if isinstance(e, ast.List) else set(items))
        if isinstance(e, (ast.ListComp, ast.GeneratorExp, ast.SetComp, ast.DictComp)):
            out = []

            def gen(k, scope):
                if k == len(e.generators):
                    if isinstance(e, ast.DictComp):
                        out.append((ceval(e.key, scope, atom, what), ceval(e.value, scope, atom, what)))
                    else:
                        out.append(ceval(e.elt, scope, atom, what))
                    return
                g = e.generators[k]
                names = [g.target] if isinstance(g.target, ast.Name) else (list(g.target.elts) if isinstance(g.target, ast.Tuple) else None)
                if g.is_async or names is None or not all(isinstance(x, ast.Name) for x in names):
                    raise AnalysisError(f"{what}: comprehension shape not modelled: {norm(e)}")
                for item in list(ceval(g.iter, scope, atom, what)):
                    sc = dict(scope)
                    if isinstance(g.target, ast.Name):
                        sc[g.target.id] = item
                    else:
                        item = tuple(item)
                        if len(item) != len(names):
                            raise AnalysisError(f"{what}: comprehension unpacking mismatch in {norm(e)}")
                        for nm, it in zip(names, item):
                            sc[nm.id] = it
                    if all(ceval(c, sc, atom, what) for c in g.ifs):
                        gen(k + 1, sc)

            gen(0, dict(env))
            if isinstance(e, ast.DictComp):
                return dict(out)
            return set(out) if isinstance(e, ast.SetComp) else out
        if isinstance(e, ast.Slice):
            return slice(ev(e.lower) if e.lower is not None else None, ev(e.upper) if e.upper is not None else None, ev(e.step) if e.step is not None else None)
        if isinstance(e, ast.Lambda):
            a = e.args
            if a.vararg or a.kwarg or a.kwonlyargs or a.defaults or a.posonlyargs:
                raise AnalysisError(f"{what}: lambda signature not modelled: {norm(e)}")
            params = [x.arg for x in a.args]
            closure = dict(env)
            return lambda *vals: ceval(e.body, {**closure, **dict(zip(params, vals))}, atom, what)
        if isinstance(e, ast.Call) and not e.keywords and not any(isinstance(x, ast.Starred) for x in e.args):
            if isinstance(e.func, ast.Name) and e.func.id in _BUILTINS and e.func.id not in env:
                return _BUILTINS[e.func.id](*[ev(x) for x in e.args])
            if isinstance(e.func, ast.Attribute):
                recv = ev(e.func.value)
                allowed = _METHODS.get(type(recv))
                if allowed and e.func.attr in allowed:
                    return getattr(recv, e.func.attr)(*[ev(x) for x in e.args])
                raise AnalysisError(f"{what}: method call not modelled: {norm(e)} on {type(recv).__name__}")
        if isinstance(e, ast.Subscript):
            base = ev(e.value)
            idx = ev(e.slice)
            try:
                return base[idx]
            except Exception as ex:
                raise AnalysisError(f"{what}: subscript {norm(e)} fails on the abstract value: {ex!r}")
        raise AnalysisError(f"{what}: construct not modelled: {norm(e)}")

    return ev(expr)


class _Return(Exception):
    def __init__(self, value):
        self.value = value


class MiniInterp:
    """Concrete interpreter for small pure functions (decision tables over finite domains).

    Modelled: docstring, Assign/AnnAssign to plain names (and tuple targets of names), If, For over a concrete
    list/tuple (with else, break, continue), Return, Pass, Assert (must evaluate true, else the case is outside
    the function's contract -> AnalysisError), bare expression statements accepted by ``expr_stmt`` hook.
    Everything else -> AnalysisError.
    """

    def __init__(self, atom=None, expr_stmt=None, what="function", store=None, eval_calls=False):
        self.atom = atom
        self.expr_stmt = expr_stmt
        self.store = store  # store(target_node, value, env) for attribute / subscript targets
        self.eval_calls = eval_calls  # evaluate bare call statements (side effects through atom / whitelisted methods)
        self.what = what
        self.steps = 0

    def run(self, fn, env: dict):
        env = dict(env)
        self.steps = 0
        body = list(fn.body)
        if body and isinstance(body[0], ast.Expr) and isinstance(body[0].value, ast.Constant) and isinstance(body[0].value.value, str):
            body = body[1:]
        try:
            self.block(body, env)
        except _Return as r:
            return r.value
        return None

    def ev(self, e, env):
        return ceval(e, env, self.atom, self.what)

    def assign(self, target, value, env):
        if isinstance(target, ast.Name):
            env[target.id] = value
        elif isinstance(target, (ast.Tuple, ast.List)) and all(isinstance(t, ast.Name) for t in target.elts):
            vals = list(value)
            if len(vals) != len(target.elts):
                raise AnalysisError(f"{self.what}: unpacking arity mismatch at {norm(target)}")
            for t, v in zip(target.elts, vals):
                env[t.id] = v
        elif self.store is not None and isinstance(target, (ast.Attribute, ast.Subscript)):
            self.store(target, value, env)
        else:
            raise AnalysisError(f"{self.what}: assignment target not modelled: {norm(target)}")

    def block(self, stmts, env):
        """returns 'break' | 'continue' | None"""
        for s in stmts:
            self.steps += 1
            if self.steps > 100000:
                raise AnalysisError(f"{self.what}: interpreter step bound exceeded")
            if isinstance(s, ast.Assign):
                v = self.ev(s.value, env)
                for t in s.targets:
                    self.assign(t, v, env)
            elif isinstance(s, ast.AnnAssign):
                if s.value is not None:
                    self.assign(s.target, self.ev(s.value, env), env)
            elif isinstance(s, ast.If):
                r = self.block(s.body if self.ev(s.test, env) else s.orelse, env)
                if r:
                    return r
            elif isinstance(s, ast.For):
                it = self.ev(s.iter, env)
                if not isinstance(it, (list, tuple)) and not getattr(it, "_mini_iterable", False):
                    raise AnalysisError(f"{self.what}: loop over a non-sequence value: {norm(s.iter)}")
                broke = False
                for item in list(it):
                    self.assign(s.target, item, env)
                    r = self.block(s.body, env)
                    if r == "break":
                        broke = True
                        break
                if not broke:
                    r = self.block(s.orelse, env)
                    if r:
                        return r
            elif isinstance(s, ast.Return):
                raise _Return(self.ev(s.value, env) if s.value is not None else None)
            elif isinstance(s, ast.Pass):
                pass
            elif isinstance(s, ast.Break):
                return "break"
            elif isinstance(s, ast.Continue):
                return "continue"
            elif isinstance(s, ast.Assert):
                if not self.ev(s.test, env):
                    raise AnalysisError(f"{self.what}: assertion {norm(s.test)} is false for a case of the table")
            elif isinstance(s, ast.Expr) and self.expr_stmt is not None and self.expr_stmt(s.value, env):
                pass
            elif isinstance(s, ast.Expr) and self.eval_calls and isinstance(s.value, ast.Call):
                self.ev(s.value, env)
            else:
                raise AnalysisError(f"{self.what}: statement not modelled: {norm(s)}")
        return None


def with_throw_at_yield(fn, exc_name: str = "BaseException"):
    """Deep copy of generator function ``fn`` in which every ``yield`` statement is followed by
    ``raise <exc_name>()`` - the behaviour of a @contextmanager generator whose with-body raised."""
    new = copy.deepcopy(fn)
    n = 0

    def rewrite(stmts):
        nonlocal n
        out = []
        for s in stmts:
            for field in ("body", "orelse", "finalbody"):
                if hasattr(s, field) and isinstance(getattr(s, field), list):
                    setattr(s, field, rewrite(getattr(s, field)))
            if isinstance(s, ast.Try):
                for h in s.handlers:
                    h.body = rewrite(h.body)
            out.append(s)
            if isinstance(s, ast.Expr) and isinstance(s.value, ast.Yield):
                n += 1
                r = ast.Raise(exc=ast.Call(func=ast.Name(id=exc_name, ctx=ast.Load()), args=[], keywords=[]), cause=None)
                ast.copy_location(r, s)
                ast.fix_missing_locations(r)
                out.append(r)
        return out

    new.body = rewrite(new.body)
    others = [y for y in walk_in_order(new) if isinstance(y, (ast.Yield, ast.YieldFrom))]
    if len(others) != n:
        raise AnalysisError(f"{fn.name}: a yield that is not a plain statement - context-manager shape not modelled")
    return new, n


class NodeCondSpec(GenericSpec):
    """GenericSpec recording ('cond', text, taken, node) for every branch leaf."""

    def __init__(self, **kw):
        kw.setdefault("record_conds", True)
        super().__init__(**kw)

    def cond_event(self, expr, value, st):
        return ("cond", norm(expr), value, expr)


def reads(expr, chain: str) -> bool:
    """Does ``expr`` read the attribute chain / name ``chain`` (exactly, not a longer chain's prefix only)?"""
    for n in ast.walk(expr):
        if isinstance(n, (ast.Attribute, ast.Name)) and attr_chain(n) == chain:
            return True
    return False


def unconditional_in_stmt(node) -> bool:
    """Is the expression ``node`` evaluated whenever its enclosing statement is executed (not under an IfExp arm,
    a short-circuited BoolOp operand, a lambda or a comprehension)?  Needs model parents (``_parent``)."""
    child = node
    par = getattr(node, "_parent", None)
    while par is not None and not isinstance(par, ast.stmt):
        if isinstance(par, ast.IfExp) and child is not par.test:
            return False
        if isinstance(par, ast.BoolOp) and child is not par.values[0]:
            return False
        if isinstance(par, (ast.Lambda, ast.ListComp, ast.SetComp, ast.DictComp, ast.GeneratorExp)):
            return False
        child, par = par, getattr(par, "_parent", None)
    return par is not None


class FlowSpec(NodeCondSpec):
    """GenericSpec + cond nodes + with-region events + hook events + implicit exception edges.

    extra events: ('enter', ctxexpr) / ('exit', ctxexpr) for with / async with,
                  ('hook', 'ClassName') for ``await self.handle_hook(mod.ClassName(...))`` and ``yield ClassName(...)`` hooks,
                  ('loop', entered) per for-loop decision (if ``loops``),
                  ('except', 'Cls') when a handler is entered.
    ``raises_into``: every statement of a try body may raise every exception class its handlers name
    (over-approximation: only adds paths, so must-rules stay sound).
    """

    def __init__(self, keep=None, resolver=None, unroll=1, tracked=(), record_conds=True, loops=False, implicit_raises=True, hook_call="self.handle_hook",
                 call_nodes=False, ret_nodes=False, assign_nodes=False):
        self._user_keep = keep
        self.call_nodes = call_nodes  # also emit ('callx', name, node) for every call
        self.ret_nodes = ret_nodes  # also emit ('ret', value_node_or_None) for every return statement
        self.assign_nodes = assign_nodes  # also emit ('assignx', target_text, value_node) for Assign/AnnAssign
        self.loops = loops
        self.implicit_raises = implicit_raises
        self.hook_call = hook_call
        super().__init__(keep=self._keep_ev, resolver=resolver, unroll=unroll, tracked=tracked, record_conds=record_conds)

    def _keep_ev(self, ev):
        return self._user_keep is None or self._user_keep(ev)

    def events(self, node, st):
        base = list(super().events(node, st))
        extra = []
        for n in eval_order(node):
            if isinstance(n, ast.Call):
                if call_name(n) == self.hook_call and n.args and isinstance(n.args[0], ast.Call):
                    extra.append(("hook", last_attr(n.args[0].func)))
                if self.call_nodes:
                    extra.append(("callx", call_name(n), n))
        if self.assign_nodes and isinstance(node, (ast.Assign, ast.AnnAssign)) and node.value is not None:
            for t in node.targets if isinstance(node, ast.Assign) else [node.target]:
                extra.append(("assignx", norm(t), node.value))
        late = []
        if self.ret_nodes and isinstance(node, ast.Return):
            late.append(("ret", node.value))
        # expression-level events (evaluation order) first, then the statement's own effect (assignment / return / raise)
        expr_level = [e for e in base if e[0] in ("call", "yield", "yield_from", "await")]
        stmt_level = [e for e in base if e[0] not in ("call", "yield", "yield_from", "await")]
        assignx = [e for e in extra if e[0] == "assignx"]
        extra = [e for e in extra if e[0] != "assignx"]
        return expr_level + [e for e in extra if self._keep_ev(e)] + stmt_level + [e for e in assignx + late if self._keep_ev(e)]

    def cond_event(self, expr, value, st):
        ev = ("cond", norm(expr), value, expr)
        return ev if self._keep_ev(ev) else None

    @staticmethod
    def _ctx_text(item):
        return norm(item.context_expr)

    def with_enter(self, node, s):
        return tuple(e for e in (("enter", self._ctx_text(i)) for i in node.items) if self._keep_ev(e))

    def with_exit(self, node):
        return tuple(e for e in (("exit", self._ctx_text(i)) for i in reversed(node.items)) if self._keep_ev(e))

    def loop_event(self, node, entered, s):
        if self.loops:
            ev = ("loop", entered, node)
            return ev if self._keep_ev(ev) else None
        return None

    def handler_event(self, h, ename, s):
        ev = ("except", ename)
        return ev if self._keep_ev(ev) else None

    def raises_into(self, stmt, handler_names, st):
        return list(dict.fromkeys(handler_names)) if self.implicit_raises else []


def module_const(model, rel: str, name: str, _depth=0):
    """Concrete value of a module-level constant built from literals and other constants of the same module."""
    if _depth > 6:
        raise AnalysisError(f"{rel}::{name}: constant definition too deep")
    node = model.const(rel, name)
    mod = model.module(rel)

    def atom(n, env):
        if isinstance(n, ast.Name) and mod.assigns(n.id):
            return module_const(model, rel, n.id, _depth + 1)
        raise NotAnAtom

    return ceval(node, {}, atom, f"{rel}::{name}")


def mentions(expr, *chains) -> bool:
    """Does ``expr`` contain a Name/Attribute whose dotted text is one of ``chains``?"""
    return any(isinstance(n, (ast.Name, ast.Attribute)) and attr_chain(n) in chains for n in ast.walk(expr))


def feasible(trace, relevant, atom, env=None, what="condition", until=None):
    """Is the path consistent with a concrete world?  Every cond event (kind 'cond', with node at [3]) for which
    ``relevant(node)`` holds must evaluate (ceval with ``atom``/``env``) to the value taken on the path.
    ``until(event)`` stops the scan (facts after a rebinding are stale)."""
    for e in trace:
        if until is not None and until(e):
            break
        if e[0] == "cond" and relevant(e[3]):
            if bool(ceval(e[3], env or {}, atom, what)) != e[2]:
                return False
    return True


def local_defs(fn, name: str):
    """Value nodes of all plain assignments to local ``name`` in ``fn`` (Assign / AnnAssign / with-as excluded)."""
    out = []
    for s in walk_in_order(fn):
        if isinstance(s, ast.Assign):
            for t in s.targets:
                if isinstance(t, ast.Name) and t.id == name:
                    out.append(s.value)
                elif isinstance(t, (ast.Tuple, ast.List)) and any(isinstance(x, ast.Name) and x.id == name for x in t.elts):
                    out.append(s.value)
        elif isinstance(s, ast.AnnAssign) and isinstance(s.target, ast.Name) and s.target.id == name and s.value is not None:
            out.append(s.value)
        elif isinstance(s, (ast.AugAssign, ast.NamedExpr)) and isinstance(s.target, ast.Name) and s.target.id == name:
            out.append(s.value)
    return out


def consistent(trace, names) -> bool:
    """False if the path tests the plain local ``name`` (truthiness leaf) twice with different outcomes without an
    ('assign', name) in between - such a path is not a behaviour (the engine does not correlate repeated tests)."""
    last = {}
    for e in trace:
        if e[0] == "assign" and e[1] in names:
            last.pop(e[1], None)
        elif e[0] == "cond" and e[1] in names:
            if e[1] in last and last[e[1]] != e[2]:
                return False
            last[e[1]] = e[2]
    return True
