"""Shared by C25 / C26: an independent reference implementation of the DNS wire format (RFC 1035 s.4.1, name compression
s.4.1.4) and a pyint specialisation that interprets mitmproxy's DNS codec from its AST.

Why: rules that *match the shape* of ``DNSMessage.packed`` / ``unpack_from`` / ``domain_names.*`` (which statement stores the
loop sentinel, which struct constant is called where, how a local is spelled) alarm on behaviour-preserving maintenance.
Rules built on this module *evaluate* the repository's functions (AST interpretation, nothing imported or executed) on finite
families of inputs and compare the results with the reference below - a renamed local, an inverted branch, an extracted
helper, ``match`` instead of ``if`` are interpreted like the original.

Nothing here imports or executes repository code.  ``struct`` and the ``idna`` codec are the trusted library base;
``logging`` and ``time`` are replaced by inert stubs (a log call has no effect on the values the rules look at).
"""

from __future__ import annotations

import ast
import struct

from ..core import AnalysisError
from ..pyint import ClassRef
from ..pyint import Func
from ..pyint import Interp
from ..pyint import Raised
from ..pyint import Rec

DNS = "mitmproxy/dns.py"
DN = "mitmproxy/net/dns/domain_names.py"
TYPES = "mitmproxy/net/dns/types.py"
LAYER = "mitmproxy/proxy/layers/dns.py"

STRUCT_ERROR = "error"  # pyint names exceptions by their last attribute: struct.error -> "error"


# ---------------------------------------------------------------------------------------------------
# model facade: memoised lookups (pyint asks the same questions thousands of times; the plain model stats the file system)


def _dotted(expr):
    parts = []
    e = expr
    while isinstance(e, ast.Attribute):
        parts.append(e.attr)
        e = e.value
    if isinstance(e, ast.Name):
        parts.append(e.id)
        return ".".join(reversed(parts))
    return None


class FastModel:
    def __init__(self, model):
        self._m = model
        self._dot: dict = {}
        self._rn: dict = {}
        self._mro: dict = {}
        self._meth: dict = {}

    def __getattr__(self, name):
        return getattr(self._m, name)

    def module_by_dotted(self, dotted):
        if dotted not in self._dot:
            self._dot[dotted] = self._m.module_by_dotted(dotted)
        return self._dot[dotted]

    def resolve_name(self, mod, expr):
        d = _dotted(expr)
        if d is None:
            return self._m.resolve_name(mod, expr)
        k = (mod.rel, d)
        if k not in self._rn:
            self._rn[k] = self._m.resolve_name(mod, expr)
        return self._rn[k]

    def mro(self, rel, qual):
        k = (rel, qual)
        if k not in self._mro:
            self._mro[k] = self._m.mro(rel, qual)
        return self._mro[k]

    def method(self, rel, qual, name):
        k = (rel, qual, name)
        if k not in self._meth:
            r = None
            for m, c in self.mro(rel, qual):
                for st in c.body:
                    if isinstance(st, (ast.FunctionDef, ast.AsyncFunctionDef)) and st.name == name:
                        r = (m, st)
                        break
                if r:
                    break
            self._meth[k] = r
        return self._meth[k]


def fast_model(model):
    fm = getattr(model, "_dnsref_fast", None)
    if fm is None:
        fm = FastModel(model)
        model._dnsref_fast = fm
    return fm


# ---------------------------------------------------------------------------------------------------
# inert stand-ins for modules whose effects are outside every rule's alphabet


class _NullLogger:
    def __getattr__(self, name):
        if name.startswith("__"):
            raise AttributeError(name)
        if name in ("isEnabledFor",):
            return lambda *a, **k: False
        if name in ("getChild",):
            return lambda *a, **k: self
        return lambda *a, **k: None


class _NullLogging:
    DEBUG, INFO, WARNING, ERROR, CRITICAL = 10, 20, 30, 40, 50

    def __init__(self):
        self._logger = _NullLogger()

    def getLogger(self, *a, **k):
        return self._logger

    def __getattr__(self, name):
        if name.startswith("__"):
            raise AttributeError(name)
        return getattr(self._logger, name)


class _FrozenTime:
    @staticmethod
    def time():
        return 0.0

    @staticmethod
    def monotonic():
        return 0.0


# ---------------------------------------------------------------------------------------------------
# the interpreter


class DnsInterp(Interp):
    """pyint + the few constructs the DNS codec needs that the pure-decision-function subset lacks:

    * ``nonlocal`` rebinding in nested functions (``unpack_from``'s closures advance the shared ``offset``),
    * item / slice assignment on a ``bytearray``,
    * bookkeeping for the rules: how often each ``assert`` was evaluated / failed, how often and how deeply nested each
      repository function was entered, which function called which."""

    def __init__(self, model, max_steps=400000, max_depth=64, extra_trusted=None):
        trusted = {"struct": struct, "logging": _NullLogging(), "time": _FrozenTime()}
        trusted.update(extra_trusted or {})
        Interp.__init__(self, fast_model(model), trusted_modules=trusted, max_depth=max_depth, max_steps=max_steps)
        self.asserts: dict = {}  # (rel, line, col) -> [evaluated, failed]
        self.entered: dict = {}  # (rel, function name) -> number of activations
        self.nesting: dict = {}  # (rel, function name) -> current number of live activations
        self.max_nesting: dict = {}
        self.edges: set = set()  # ((caller rel, caller name) | None, (callee rel, callee name))
        self._frames: list = []
        self._globals: dict = {}
        self._class_attrs: dict = {}

    def reset_counters(self):
        self.steps = 0
        self.entered = {}
        self.nesting = {}
        self.max_nesting = {}
        self.edges = set()
        self._frames = []

    # ---- statements
    def stmt(self, st, env, mod, depth):
        if isinstance(st, ast.Nonlocal):
            self.tick()
            env.setdefault("$nonlocal", set()).update(st.names)
            return
        if isinstance(st, ast.Assert):
            self.tick()
            rec = self.asserts.setdefault((mod.rel, st.lineno, st.col_offset), [0, 0])
            rec[0] += 1
            if not self.truthy(self.ev(st.test, env, mod, depth)):
                rec[1] += 1
                raise Raised("AssertionError")
            return
        return Interp.stmt(self, st, env, mod, depth)

    def assign(self, target, value, env, mod, depth):
        if isinstance(target, ast.Name) and target.id in env.get("$nonlocal", ()):
            clo = env.get("$closure")
            while clo is not None:
                if target.id in clo:
                    clo[target.id] = value
                    return
                clo = clo.get("$closure")
            raise AnalysisError(f"pyint: nonlocal {target.id} is not bound in an enclosing function")
        if isinstance(target, ast.Subscript):
            base = self.ev(target.value, env, mod, depth)
            if isinstance(base, bytearray):
                key = self.ev(target.slice, env, mod, depth)
                try:
                    base[key] = value
                except (IndexError, TypeError, ValueError) as e:
                    raise Raised(type(e).__name__)
                return
        Interp.assign(self, target, value, env, mod, depth)

    # ---- names: module-level bindings are resolved once per (module, identifier)
    def name(self, ident, env, mod, depth, node):
        if ident in env:
            return env[ident]
        clo = env.get("$closure")
        while clo is not None:
            if ident in clo:
                return clo[ident]
            clo = clo.get("$closure")
        k = (mod.rel, ident)
        g = self._globals
        if k not in g:
            g[k] = Interp.name(self, ident, {}, mod, depth, node)
        return g[k]

    def class_attr(self, cref, attr, depth):
        k = (cref.mod.rel, getattr(cref.node, "_qual", cref.node.name), attr)
        c = self._class_attrs
        if k not in c:
            v = Interp.class_attr(self, cref, attr, depth)
            if isinstance(v, Func) and v.bound is None and any(isinstance(d, ast.Name) and d.id == "classmethod" for d in getattr(v.node, "decorator_list", [])):
                v = Func(v.mod, v.node, bound=cref)  # Class.method(...) of a classmethod: cls is the class
            c[k] = v
        return c[k]

    # ---- calls
    def native_call(self, f, args, kwargs, where):
        if isinstance(getattr(f, "__self__", None), (_NullLogger, _NullLogging)) or getattr(f, "__qualname__", "").startswith(("_NullLogger.", "_NullLogging.")):
            return f(*args, **kwargs)
        return Interp.native_call(self, f, args, kwargs, where)

    def call_func(self, f, args, kwargs, depth):
        key = (f.mod.rel, getattr(f.node, "name", "<lambda>"))
        self.entered[key] = self.entered.get(key, 0) + 1
        n = self.nesting.get(key, 0) + 1
        self.nesting[key] = n
        if n > self.max_nesting.get(key, 0):
            self.max_nesting[key] = n
        self.edges.add((self._frames[-1] if self._frames else None, key))
        self._frames.append(key)
        try:
            return Interp.call_func(self, f, args, kwargs, depth)
        finally:
            self._frames.pop()
            self.nesting[key] = n - 1

    # ---- entry points
    def run(self, rel, qual, *args, **kwargs):
        """-> ('ok', value) | ('raise', exception name) | ('diverge', message).  A function whose first parameter is ``cls`` is
        called as a classmethod of its class."""
        fn = self.model.func(rel, qual)
        mod = self.model.module(rel)
        bound = None
        a = fn.args
        params = [p.arg for p in a.posonlyargs + a.args]
        if params[:1] == ["cls"] and "." in qual:
            bound = ClassRef(mod, self.model.cls(rel, qual.rsplit(".", 1)[0]))
        return self.outcome(lambda: self.apply(Func(mod, fn, bound=bound), list(args), kwargs, 0))

    def outcome(self, thunk):
        self._frames = []
        self.nesting = {}
        try:
            return ("ok", thunk())
        except Raised as r:
            return ("raise", r.name)
        except RecursionError:
            return ("diverge", "the analyser's recursion limit was reached")
        except AnalysisError as e:
            msg = str(e)
            if "step bound" in msg or "call depth" in msg:
                return ("diverge", msg)
            raise

    def prop(self, rec, name):
        """value of a property / attribute of a bound record: ('ok', v) | ('raise', name) | ('diverge', msg)"""
        return self.outcome(lambda: self.getattr(rec, name, None, 0))


# ---------------------------------------------------------------------------------------------------
# performance: run deep interpretive recursion inside one roomy frame


def _roomy_frame(thunk):
    return thunk()


try:
    # CPython (3.11+) keeps Python frames in 16 KiB "data stack chunks" that are mmap'ed when the recursion crosses a chunk boundary
    # and unmapped as soon as it returns below it.  An AST interpreter recurses ~15 Python frames per interpreted call and oscillates
    # across such boundaries thousands of times per run, which costs far more (system time) than the interpretation itself.  A frame
    # that *declares* a huge evaluation stack gets one big chunk, and every frame above it lives in the remainder of that chunk.
    _roomy_frame.__code__ = _roomy_frame.__code__.replace(co_stacksize=150_000)
except Exception:  # pragma: no cover - purely an optimisation
    pass


def roomy(thunk):
    """run ``thunk()``; semantically just that (see above for why it is routed through a frame with a big declared stack)"""
    return _roomy_frame(thunk)


# ---------------------------------------------------------------------------------------------------
# reference wire format


class RefError(Exception):
    def __init__(self, kind, msg=""):
        super().__init__(f"{kind}: {msg}")
        self.kind = kind  # 'loop' | 'malformed'


def wire_name(name) -> bytes:
    """uncompressed wire form of a dotted ASCII name / a list of label byte strings"""
    if isinstance(name, str):
        labels = [x.encode("ascii") for x in name.split(".") if x]
    else:
        labels = list(name)
    return b"".join(bytes([len(x)]) + x for x in labels) + b"\x00"


def ref_name(buf, off):
    """reference name decoder: (labels, wire length at ``off``); RefError('loop') / RefError('malformed')"""
    labels, start, consumed = [], off, None
    visited = set()
    while True:
        if off in visited:
            raise RefError("loop", f"offset {off} is reached twice")
        visited.add(off)
        if off >= len(buf):
            raise RefError("malformed", "name runs past the buffer")
        n = buf[off]
        if n & 0xC0 == 0xC0:
            if off + 1 >= len(buf):
                raise RefError("malformed", "pointer runs past the buffer")
            if consumed is None:
                consumed = off + 2 - start
            off = ((n & 0x3F) << 8) | buf[off + 1]
            continue
        if n >= 64:
            raise RefError("malformed", f"label type {n:#x}")
        if n == 0:
            if consumed is None:
                consumed = off + 1 - start
            return labels, consumed
        if off + 1 + n > len(buf):
            raise RefError("malformed", "label runs past the buffer")
        labels.append(bytes(buf[off + 1 : off + 1 + n]))
        off += 1 + n


FLAG_FIELDS = (
    # field, shift, width, inverted (RFC 1035 s.4.1.1)
    ("query", 15, 1, True),
    ("op_code", 11, 4, False),
    ("authoritative_answer", 10, 1, False),
    ("truncation", 9, 1, False),
    ("recursion_desired", 8, 1, False),
    ("recursion_available", 7, 1, False),
    ("reserved", 4, 3, False),
    ("response_code", 0, 4, False),
)
SECTIONS = ("answers", "authorities", "additionals")
MESSAGE_FIELDS = ("id",) + tuple(f for f, *_ in FLAG_FIELDS) + ("questions",) + SECTIONS


def ref_flags(msg: dict) -> int:
    flags = 0
    for f, sh, w, inv in FLAG_FIELDS:
        v = msg[f]
        if w == 1:
            v = int(bool(v)) ^ int(inv)
        flags |= (v & ((1 << w) - 1)) << sh
    return flags


def ref_encode(msg: dict, compress=False) -> bytes:
    """msg: id, the 8 flag fields, questions [(name, type, class)], answers/authorities/additionals [(name, type, class, ttl, rdata)].
    ``compress``: owner names already written are emitted as a pointer to their first occurrence."""
    out = bytearray(struct.pack("!HHHHHH", msg["id"], ref_flags(msg), len(msg["questions"]), *(len(msg[s]) for s in SECTIONS)))
    seen: dict = {}

    def name(n):
        if compress and n and n in seen and seen[n] < 0x3FFF:
            return struct.pack("!H", 0xC000 | seen[n])
        if n:
            seen.setdefault(n, len(out))
        return wire_name(n)

    for n, t, c in msg["questions"]:
        out += name(n)
        out += struct.pack("!HH", t, c)
    for s in SECTIONS:
        for n, t, c, ttl, rdata in msg[s]:
            out += name(n)
            out += struct.pack("!HHIH", t, c, ttl, len(rdata))
            out += rdata
    return bytes(out)


def ref_decode(buf) -> dict:
    """reference message decoder (names as dotted ASCII where possible); rdata is the raw wire slice; RefError when malformed.
    Additional key ``_rdata_at``: {(section, index): (start, end)}."""
    buf = bytes(buf)
    if len(buf) < 12:
        raise RefError("malformed", "short header")
    ident, flags, nq, *counts = struct.unpack_from("!HHHHHH", buf, 0)
    msg = {"id": ident, "questions": [], "_rdata_at": {}}
    for f, sh, w, inv in FLAG_FIELDS:
        v = (flags >> sh) & ((1 << w) - 1)
        msg[f] = bool(v ^ int(inv)) if w == 1 else v
    off = 12

    def name():
        nonlocal off
        labels, n = ref_name(buf, off)
        off += n
        return ".".join(x.decode("latin-1") for x in labels)

    for _ in range(nq):
        n = name()
        if off + 4 > len(buf):
            raise RefError("malformed", "question header runs past the buffer")
        t, c = struct.unpack_from("!HH", buf, off)
        off += 4
        msg["questions"].append((n, t, c))
    for s, cnt in zip(SECTIONS, counts):
        msg[s] = []
        for i in range(cnt):
            n = name()
            if off + 10 > len(buf):
                raise RefError("malformed", "record header runs past the buffer")
            t, c, ttl, ln = struct.unpack_from("!HHIH", buf, off)
            off += 10
            if off + ln > len(buf):
                raise RefError("malformed", "record data runs past the buffer")
            msg["_rdata_at"][(s, i)] = (off, off + ln)
            msg[s].append((n, t, c, ttl, buf[off : off + ln]))
            off += ln
    msg["_length"] = off
    return msg


# ---------------------------------------------------------------------------------------------------
# abstract records of the repository's message classes


def dataclass_fields(model, rel, qual) -> list:
    out = []
    for st in model.cls(rel, qual).body:
        if isinstance(st, ast.AnnAssign) and isinstance(st.target, ast.Name) and "ClassVar" not in ast.unparse(st.annotation):
            out.append(st.target.id)
    return out


def require_fields(model):
    """the attribute names of Question / ResourceRecord / DNSMessage are public API the rules are phrased in"""
    q, rr, m = (dataclass_fields(model, DNS, c) for c in ("Question", "ResourceRecord", "DNSMessage"))
    if q != ["name", "type", "class_"]:
        raise AnalysisError(f"Question fields changed: {q}")
    if rr != ["name", "type", "class_", "ttl", "data"]:
        raise AnalysisError(f"ResourceRecord fields changed: {rr}")
    missing = [f for f in MESSAGE_FIELDS + ("timestamp",) if f not in m]
    if missing:
        raise AnalysisError(f"DNSMessage lost the fields {missing}")
    return m


def mk_question(name, type_, class_):
    return Rec("Question", _impl=(DNS, "Question"), name=name, type=type_, class_=class_)


def mk_rr(name, type_, class_, ttl, data):
    return Rec("ResourceRecord", _impl=(DNS, "ResourceRecord"), name=name, type=type_, class_=class_, ttl=ttl, data=data)


def mk_message(msg: dict):
    return Rec(
        "DNSMessage", _impl=(DNS, "DNSMessage"), timestamp=0.0, id=msg["id"],
        **{f: msg[f] for f, *_ in FLAG_FIELDS},
        questions=[mk_question(*q) for q in msg["questions"]],
        **{s: [mk_rr(*r) for r in msg[s]] for s in SECTIONS},
    )


def plain(rec) -> dict:
    """DNSMessage record built by the interpreted decoder -> comparable dict (same shape as the reference's)"""
    d = rec.__dict__
    out = {"id": d.get("id")}
    for f, *_ in FLAG_FIELDS:
        out[f] = d.get(f)
    out["questions"] = [(q.__dict__.get("name"), q.__dict__.get("type"), q.__dict__.get("class_")) if isinstance(q, Rec) else q for q in d.get("questions", [])]
    for s in SECTIONS:
        out[s] = [
            (r.__dict__.get("name"), r.__dict__.get("type"), r.__dict__.get("class_"), r.__dict__.get("ttl"), bytes(r.__dict__.get("data")) if isinstance(r.__dict__.get("data"), (bytes, bytearray)) else r.__dict__.get("data"))
            if isinstance(r, Rec) else r
            for r in d.get(s, [])
        ]
    return out


def public(msg: dict) -> dict:
    return {k: v for k, v in msg.items() if not k.startswith("_")}


def diff(a: dict, b: dict) -> str:
    """first difference between two message dicts, for messages"""
    for k in MESSAGE_FIELDS:
        if a.get(k) != b.get(k):
            return f"{k}: {a.get(k)!r} vs {b.get(k)!r}"
    return ""


def unpack_from(it: DnsInterp, buf, offset=0):
    """interpret DNSMessage.unpack_from(buf, offset): ('ok', (length, plain message)) | ('raise', name) | ('diverge', msg)"""
    o = it.run(DNS, "DNSMessage.unpack_from", bytes(buf), offset)
    if o[0] != "ok":
        return o
    v = o[1]
    if not (isinstance(v, tuple) and len(v) == 2 and isinstance(v[1], Rec)):
        raise AnalysisError(f"DNSMessage.unpack_from returned something that is not (length, message): {v!r}")
    return ("ok", (v[0], plain(v[1])))


def unpack(it: DnsInterp, buf):
    o = it.run(DNS, "DNSMessage.unpack", bytes(buf))
    if o[0] != "ok":
        return o
    if not isinstance(o[1], Rec):
        raise AnalysisError(f"DNSMessage.unpack returned something that is not a message: {o[1]!r}")
    return ("ok", plain(o[1]))


def packed(it: DnsInterp, msg: dict):
    """interpret DNSMessage.packed of the record for ``msg``: ('ok', bytes) | ('raise', name) | ('diverge', msg)"""
    o = it.prop(mk_message(msg), "packed")
    if o[0] == "ok" and not isinstance(o[1], (bytes, bytearray)):
        raise AnalysisError(f"DNSMessage.packed evaluated to a non-bytes value {o[1]!r}")
    return ("ok", bytes(o[1])) if o[0] == "ok" else o


def layer_self(transport):
    """an abstract DNSLayer instance (client / server connections with the given transport, empty reassembly buffers)"""
    conn = Rec("Client", transport_protocol=transport)
    return Rec("DNSLayer", _impl=(LAYER, "DNSLayer"), context=Rec("Context", client=conn, server=Rec("Server", transport_protocol=transport)),
               req_buf=bytearray(), resp_buf=bytearray(), flows={})


def layer_unpack(it: DnsInterp, me, data, from_client=True):
    """interpret DNSLayer.unpack_message(data, from_client) on ``me``: ('ok', [plain message]) | ('raise', name) | ('diverge', msg)"""
    o = it.outcome(lambda: it.method(me, "unpack_message", bytes(data), from_client))
    if o[0] != "ok":
        return o
    if not isinstance(o[1], list) or not all(isinstance(x, Rec) for x in o[1]):
        raise AnalysisError(f"DNSLayer.unpack_message returned something that is not a list of messages: {o[1]!r}")
    return ("ok", [plain(x) for x in o[1]])

