"""Shared by C48 / C50: ``XInterp`` - pyint plus the constructs the exporters / content-view code needs, so that rules can decide
*behaviour* (interpret the repository's functions from their AST on concrete worlds, compare the results with a reference written from the
property text) instead of matching statement shapes.  Nothing here imports or executes repository code.

Extensions over ``pyint.Interp`` (each one is semantics of plain Python, none is specific to a rule):

* module globals built by *several* top-level statements (``T = {...}; T[127] = ..; T.update(..); U = T.copy(); for x in ..: del U[x];
  T = str.maketrans(T)``): the backward slice of the module's top-level statements for the name is executed in source order
  (``pyint.modconst`` evaluates only the last assignment).  A statement of the slice that is outside pyint poisons the names it writes:
  an AnalysisError is raised only if such a name is read.
* ``@classmethod`` functions reached through the class or an instance are bound to the class.
* records bound to a repository class follow the data model: ``x[k]`` -> ``__getitem__``, ``k in x`` -> ``__contains__`` (or the
  ``Mapping`` mix-in over ``__getitem__``), ``len(x)`` / truthiness -> ``__len__``, iteration -> ``__iter__``, ``x.get(k, d)`` of a ``Mapping``.
* the name bound by ``except E as e`` is an ``ExcStr``: ``str(e)`` / ``f"{e}"`` / ``repr(e)`` give the text the rule's world attached to
  the exception (hostile text, for rules about sanitising error messages); re-raising it keeps working.
* repository functions / lambdas handed to a trusted native callable (``re.sub(pat, lambda m: ..)``, ``sorted(key=..)``, ``map``) are
  wrapped so that the native code calls back into the interpreter.
* ``calls``-log: every interpreted repository function call with its depth and result (rules use it to *attribute* a behaviour to the
  function that produced it, never to decide).
"""

from __future__ import annotations

import ast
import builtins

from ..core import AnalysisError
from ..core import norm
from ..model import last_attr
from ..pyint import ClassRef
from ..pyint import DictRec
from ..pyint import Func
from ..pyint import Gen
from ..pyint import Interp
from ..pyint import NullLog
from ..pyint import Raised
from ..pyint import Rec


class ExcStr(str):
    """the value bound by ``except ... as e`` (pyint represents exceptions as '<exc:Name>' strings): same representation, but its
    ``str()`` / ``repr()`` / formatting give the message text of the modelled exception."""

    def __new__(cls, name, text=""):
        s = str.__new__(cls, f"<exc:{name}>")
        s.exc_name = name
        s.text = text
        s.args = (text,)
        s.__traceback__ = None
        s.__cause__ = s.__context__ = None
        return s

    def __str__(self):
        return str.__str__(self.text)

    def __repr__(self):
        return f"{self.exc_name}({self.text!r})"

    def __format__(self, spec):
        return format(str.__str__(self.text), spec)


class RaiseOnRead:
    """attribute value of a world record that stands for a property whose getter raises: reading it raises that exception"""

    def __init__(self, name, msg=""):
        self.name, self.msg = name, msg


def abstract_ok(f):
    """mark a native callable of a rule's world as accepting abstract records"""
    f._pyint_accepts_abstract = True
    return f


class Stub:
    """base of native world objects: unknown attributes are an AnalysisError ("extend the rule's world"), never an AttributeError
    that the interpreted code could catch or that would be reported as the repository raising."""

    _pyint_accepts_abstract = True
    _what = "world object"

    def __getattr__(self, k):
        if k.startswith("__") and k.endswith("__"):
            raise AttributeError(k)
        raise AnalysisError(f"{self._what}: attribute / method `{k}` is not part of the rule's world model (extend it)")


def _writes(st, names) -> bool:
    """does the top-level statement ``st`` bind or mutate one of the module-level ``names``?  (binding; ``T[k] = v`` / ``del T[k]`` /
    ``T.a = v``; any expression statement that is a call mentioning the name: ``T.update(..)``, ``register(T)``)"""
    for n in ast.walk(st):
        if isinstance(n, ast.Name) and n.id in names:
            if isinstance(n.ctx, (ast.Store, ast.Del)):
                return True
            c, p = n, getattr(n, "_parent", None)
            while isinstance(p, (ast.Subscript, ast.Attribute)) and p.value is c:
                if isinstance(p.ctx, (ast.Store, ast.Del)):
                    return True
                c, p = p, getattr(p, "_parent", None)
        elif isinstance(n, ast.Expr) and isinstance(n.value, ast.Call):
            if any(isinstance(x, ast.Name) and x.id in names for x in ast.walk(n.value)):
                return True
    return False


def _bound_names(st) -> set:
    out = set()
    for n in ast.walk(st):
        if isinstance(n, ast.Name) and isinstance(n.ctx, (ast.Store, ast.Del)):
            out.add(n.id)
    return out


class XInterp(Interp):
    def __init__(self, model, trusted_modules=None, externals=None, max_depth=40, max_steps=2_000_000):
        Interp.__init__(self, model, trusted_modules=trusted_modules, externals=externals, max_depth=max_depth, max_steps=max_steps)
        self.exc_text = lambda name: ""  # rule hook: message text of an exception of that class raised in the world
        self.exc_traceback = lambda: None  # rule hook: the ``__traceback__`` of a caught exception
        self.log: list = []  # (depth, rel, qualname, result) of interpreted repository calls, in completion order
        self.log_enabled = False
        self._modenv: dict = {}  # rel -> env of executed top-level statements
        self._moddone: dict = {}  # rel -> ids of executed statements
        self._modpoison: dict = {}  # (rel, name) -> message
        self._modbusy: set = set()
        self._writers: dict = {}
        self._handling: list = []

    # ------------------------------------------------------------------ module globals
    def _top_names(self, mod) -> set:
        k = ("names", mod.rel)
        if k not in self._writers:
            names = set()
            for st in mod.tree.body:
                if not isinstance(st, (ast.FunctionDef, ast.AsyncFunctionDef, ast.ClassDef, ast.Import, ast.ImportFrom)):
                    names |= _bound_names(st)
            self._writers[k] = names
        return self._writers[k]

    def _slice(self, mod, name):
        """top-level statements (source order) that the value of ``name`` depends on"""
        tops = self._top_names(mod)
        body = [st for st in mod.tree.body if not isinstance(st, (ast.FunctionDef, ast.AsyncFunctionDef, ast.ClassDef, ast.Import, ast.ImportFrom))]
        need, chosen = {name}, []
        changed = True
        while changed:
            changed = False
            for st in body:
                if any(st is c for c in chosen):
                    continue
                if _writes(st, need):
                    chosen.append(st)
                    changed = True
                    for n in ast.walk(st):
                        if isinstance(n, ast.Name) and n.id in tops and n.id not in need:
                            need.add(n.id)
        chosen.sort(key=lambda s: s.lineno)
        return chosen

    def modconst(self, mod, name, depth):
        key = (mod.rel, name)
        if key in self._modconst:
            return self._modconst[key]
        if key in self._modpoison:
            raise AnalysisError(self._modpoison[key])
        sl = self._slice(mod, name)
        simple = len(sl) == 1 and isinstance(sl[0], (ast.Assign, ast.AnnAssign)) and all(isinstance(t, ast.Name) for t in (sl[0].targets if isinstance(sl[0], ast.Assign) else [sl[0].target]))
        if simple and mod.rel not in self._modenv:
            return Interp.modconst(self, mod, name, depth)
        env = self._modenv.setdefault(mod.rel, {})
        done = self._moddone.setdefault(mod.rel, set())
        if (mod.rel, name) in self._modbusy:
            raise AnalysisError(f"pyint: module-level name {name} of {mod.rel} is read while it is being built (cyclic initialisation not modelled)")
        self._modbusy.add((mod.rel, name))
        try:
            for st in sl:
                if id(st) in done:
                    continue
                done.add(id(st))
                try:
                    self.stmt(st, env, mod, depth)
                except AnalysisError as e:
                    for n in _bound_names(st) | {x.id for x in ast.walk(st) if isinstance(x, ast.Name) and _writes(st, {x.id})}:
                        self._modpoison[(mod.rel, n)] = f"{mod.rel}: module-level statement `{norm(st)[:80]}` is outside the interpreter: {e}"
                        env.pop(n, None)
                except Raised as r:
                    raise AnalysisError(f"{mod.rel}: module-level statement `{norm(st)[:80]}` raises {r} in the interpreted model")
        finally:
            self._modbusy.discard((mod.rel, name))
        if key in self._modpoison:
            raise AnalysisError(self._modpoison[key])
        if name not in env:
            return Interp.modconst(self, mod, name, depth)
        for n, v in env.items():
            if not n.startswith("$"):
                self._modconst[(mod.rel, n)] = v
        return env[name]

    EXTRA_BUILTINS = {n: getattr(builtins, n) for n in ("format", "ascii", "bin", "oct", "pow", "slice", "memoryview", "complex", "object")}

    def name(self, ident, env, mod, depth, node):
        try:
            return Interp.name(self, ident, env, mod, depth, node)
        except AnalysisError as e:
            if ident in self.EXTRA_BUILTINS and "unbound name" in str(e):
                return self.EXTRA_BUILTINS[ident]
            raise

    def module_global(self, rel, name):
        """value of a module-level name (rule entry point)"""
        return self.name(name, {}, self.model.module(rel), 0, None)

    # ------------------------------------------------------------------ classmethods
    @staticmethod
    def _is_classmethod(node) -> bool:
        return any(isinstance(d, ast.Name) and d.id == "classmethod" for d in getattr(node, "decorator_list", []))

    def class_attr(self, cref, attr, depth):
        v = Interp.class_attr(self, cref, attr, depth)
        if isinstance(v, Func) and v.bound is None and self._is_classmethod(v.node):
            v = Func(v.mod, v.node, bound=cref)
        return v

    def _impl_method(self, rec, name):
        if isinstance(rec, Rec) and not isinstance(rec, DictRec) and rec._impl is not None:
            return self.model.method(rec._impl[0], rec._impl[1], name)
        return None

    def _external_bases(self, rec) -> set:
        return {last_attr(b) for _, cc in self.model.mro(*rec._impl) for b in cc.bases}

    def getattr(self, base, attr, node, depth):
        if isinstance(base, Rec) and not isinstance(base, DictRec) and base._impl is not None and attr not in base.__dict__:
            r = self.model.method(base._impl[0], base._impl[1], attr)
            if r is not None and self._is_classmethod(r[1]):
                return Func(r[0], r[1], bound=ClassRef(self.model.module(base._impl[0]), self.model.cls(*base._impl)))
            if r is None and attr in ("get", "keys", "items", "values") and self._impl_method(base, "__getitem__") and self._external_bases(base) & {"Mapping", "MutableMapping"}:
                return self._mapping_mixin(base, attr, depth)
        v = Interp.getattr(self, base, attr, node, depth)
        if isinstance(v, RaiseOnRead):
            raise Raised(v.name, v.msg)
        return v

    def _mapping_mixin(self, rec, attr, depth):
        def getitem(k):
            m = self._impl_method(rec, "__getitem__")
            return self.apply(Func(m[0], m[1], bound=rec), [k], {}, depth)

        def keys():
            return list(self.iterate(rec, None))

        if attr == "get":
            def get(k, default=None):
                try:
                    return getitem(k)
                except Raised as r:
                    if r.name == "KeyError":
                        return default
                    raise
            return abstract_ok(get)
        if attr == "keys":
            return abstract_ok(keys)
        if attr == "values":
            return abstract_ok(lambda: [getitem(k) for k in keys()])
        return abstract_ok(lambda: [(k, getitem(k)) for k in keys()])

    # ------------------------------------------------------------------ data model of bound records
    def ev(self, e, env, mod, depth):
        if isinstance(e, ast.Subscript) and isinstance(e.ctx, ast.Load):
            base = self.ev(e.value, env, mod, depth)
            m = self._impl_method(base, "__getitem__")
            if m is not None:
                idx = self.ev(e.slice, env, mod, depth)
                return self.apply(Func(m[0], m[1], bound=base), [idx], {}, depth, e)
            # the rest is pyint's Subscript case with the base already evaluated
            self.tick()
            if isinstance(base, tuple) and base and base[0] == "$typing":
                return ("$typing", base[1], self.elts(e.slice.elts if isinstance(e.slice, ast.Tuple) else [e.slice], env, mod, depth))
            idx = self.ev(e.slice, env, mod, depth)
            if isinstance(base, DictRec):
                for k, v in base._items.items():
                    if base._k(k) == base._k(idx):
                        return v
                raise Raised("KeyError")
            if isinstance(base, Rec):
                raise AnalysisError(f"pyint: subscript of record {base!r}: {norm(e)}")
            try:
                return base[idx]
            except (IndexError, KeyError, TypeError) as ex:
                raise Raised(type(ex).__name__)
        return Interp.ev(self, e, env, mod, depth)

    def cmp(self, op, a, b, node):
        if isinstance(op, (ast.In, ast.NotIn)) and isinstance(b, Rec) and not isinstance(b, DictRec) and b._impl is not None:
            m = self._impl_method(b, "__contains__")
            if m is not None:
                r = self.truthy(self.apply(Func(m[0], m[1], bound=b), [a], {}, 1, node))
            elif self._impl_method(b, "__getitem__") and self._external_bases(b) & {"Mapping", "MutableMapping"}:
                g = self._impl_method(b, "__getitem__")
                try:
                    self.apply(Func(g[0], g[1], bound=b), [a], {}, 1, node)
                    r = True
                except Raised as ex:
                    if ex.name != "KeyError":
                        raise
                    r = False
            elif self._impl_method(b, "__iter__"):
                r = a in self.iterate(b, node)
            else:
                return Interp.cmp(self, op, a, b, node)
            return r if isinstance(op, ast.In) else not r
        return Interp.cmp(self, op, a, b, node)

    def iterate(self, v, node):
        m = self._impl_method(v, "__iter__")
        if m is not None:
            return self.iterate(self.apply(Func(m[0], m[1], bound=v), [], {}, 1, node), node)
        return Interp.iterate(self, v, node)

    def truthy(self, v):
        if isinstance(v, Rec) and not isinstance(v, DictRec) and v._impl is not None:
            for meth in ("__bool__", "__len__"):
                m = self._impl_method(v, meth)
                if m is not None:
                    return bool(self.apply(Func(m[0], m[1], bound=v), [], {}, 1, None))
        return Interp.truthy(self, v)

    # ------------------------------------------------------------------ exceptions with a message
    def try_(self, st, env, mod, depth):
        try:
            try:
                self.block(st.body, env, mod, depth)
            except Raised as r:
                for h in st.handlers:
                    names = ["BaseException"] if h.type is None else [last_attr(e) for e in (h.type.elts if isinstance(h.type, ast.Tuple) else [h.type])]
                    if any(self.exc_isa(r.name, n, mod) for n in names):
                        if h.name:
                            env[h.name] = ExcStr(r.name, r.msg if r.msg else self.exc_text(r.name))
                            env[h.name].__traceback__ = self.exc_traceback()
                        prev = env.get("$handling")
                        env["$handling"] = r.name
                        self._handling.append(r)
                        try:
                            self.block(h.body, env, mod, depth)
                        finally:
                            self._handling.pop()
                            if prev is None:
                                env.pop("$handling", None)
                            else:
                                env["$handling"] = prev
                        break
                else:
                    raise
            else:
                self.block(st.orelse, env, mod, depth)
        finally:
            if st.finalbody:
                self.block(st.finalbody, env, mod, depth)

    def handled(self):
        """the exception being handled right now (innermost active ``except`` block), for a world's ``sys.exc_info``"""
        return self._handling[-1] if self._handling else None

    # ------------------------------------------------------------------ calls
    def native_call(self, f, args, kwargs, where):
        if f is len and len(args) == 1 and self._impl_method(args[0], "__len__"):
            m = self._impl_method(args[0], "__len__")
            return self.apply(Func(m[0], m[1], bound=args[0]), [], {}, 1, None)
        accepts = getattr(f, "_pyint_accepts_abstract", False) or getattr(getattr(f, "__self__", None), "_pyint_accepts_abstract", False)
        container = isinstance(getattr(f, "__self__", None), (dict, list, set, frozenset, tuple)) or f in (list, tuple, set, frozenset, dict, len, bool, any, all, zip, enumerate, reversed)
        if not accepts and not container and any(isinstance(a, Func) for a in list(args) + list(kwargs.values())):
            args = [self._callback(a) if isinstance(a, Func) else a for a in args]
            kwargs = {k: (self._callback(a) if isinstance(a, Func) else a) for k, a in kwargs.items()}
        return Interp.native_call(self, f, args, kwargs, where)

    def _callback(self, func):
        def call(*a, **k):
            return self.apply(func, list(a), k, 1, None)

        call._pyint_func = func  # (rules that look through functools.partial & co. find the repository function here)
        return call

    def call_func(self, f, args, kwargs, depth):
        if not self.log_enabled:
            return Interp.call_func(self, f, args, kwargs, depth)
        v = Interp.call_func(self, f, args, kwargs, depth)
        if not isinstance(v, Gen):
            self.log.append((depth, f.mod.rel, getattr(f.node, "_qual", getattr(f.node, "name", "<lambda>")), v))
        return v

    # ------------------------------------------------------------------ entry points
    def outcome(self, thunk):
        """('ok', value) | ('raise', exception class name, message)"""
        try:
            return ("ok", thunk())
        except Raised as r:
            return ("raise", r.name, r.msg)
        except RecursionError:
            raise AnalysisError("pyint: the analyser's recursion limit was reached")

    def call_value(self, f, *args, **kwargs):
        return self.apply(f, list(args), kwargs, 0)


class _FrozenTime(Stub):
    _what = "time"

    def time(self):
        return 1700000000.0

    def monotonic(self):
        return 1000.0

    perf_counter = monotonic

    def time_ns(self):
        return 1700000000 * 10**9

    def sleep(self, *a):
        return None


class _Dataclasses(Stub):
    """dataclasses.replace / asdict / astuple on abstract records built by pyint's dataclass instantiation"""

    _what = "dataclasses"

    @staticmethod
    def _fields(rec):
        return {k: v for k, v in rec.__dict__.items() if not k.startswith("_")}

    def replace(self, rec, **changes):
        if not isinstance(rec, Rec):
            raise AnalysisError("dataclasses.replace on a value that is not an interpreted record")
        out = Rec(rec._cls, _bases=rec._bases, _impl=rec._impl, _name=rec._name, **self._fields(rec))
        for k, v in changes.items():
            if k not in rec.__dict__:
                raise Raised("TypeError", f"unexpected field {k}")
            object.__setattr__(out, k, v)
        return out

    def asdict(self, rec):
        def conv(v):
            if isinstance(v, Rec):
                return {k: conv(x) for k, x in self._fields(v).items()}
            if isinstance(v, (list, tuple)):
                return type(v)(conv(x) for x in v)
            if isinstance(v, dict):
                return {k: conv(x) for k, x in v.items()}
            return v

        if not isinstance(rec, Rec):
            raise AnalysisError("dataclasses.asdict on a value that is not an interpreted record")
        return conv(rec)

    def is_dataclass(self, v):
        return isinstance(v, Rec)


def trusted_stdlib() -> dict:
    """pure standard-library modules interpreted code may use: they run natively on native values (never on abstract records); ``logging``
    is inert"""
    import base64
    import binascii
    import collections
    import copy
    import functools
    import ipaddress
    import itertools
    import json
    import math
    import operator
    import re
    import shlex
    import string
    import struct
    import textwrap
    import unicodedata
    import urllib.parse

    return {
        "logging": NullLog(), "re": re, "shlex": shlex, "itertools": itertools, "functools": functools, "operator": operator, "string": string, "textwrap": textwrap,
        "json": json, "urllib": urllib, "urllib.parse": urllib.parse, "struct": struct, "ipaddress": ipaddress, "base64": base64, "binascii": binascii, "math": math,
        "collections": collections, "unicodedata": unicodedata, "copy": copy, "time": _FrozenTime(), "dataclasses": _Dataclasses(),
    }
