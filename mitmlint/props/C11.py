"""C11 - intercepted flows are held until resumed, killed flows are never forwarded.

Decided (structural clauses):
  R11.1 the hook machinery blocks: ProxyConnectionHandler.handle_hook awaits flow.wait_for_resume() after the
        addons ran, and ConnectionHandler.hook_task reports HookCompleted only after handle_hook returned.
  R11.2 in every layer the message is sent after its hook, exactly once, and the payload is re-read from the
        flow/message object after the hook (so edits are forwarded), never the pre-hook local.
  R11.3 HTTP: between a message hook and the kill check nothing of the message is sent to its destination and
        no upstream connection is requested (explored on the extracted HttpStream model); the killed path of
        check_killed only tells the client and marks both directions errored.
  R11.4 every layer that fires a message hook consults the kill marker (flow.error / flow.live / killable)
        between hook and send.   (TCP, UDP, WebSocket, DNS responses do not: upstream limitation, known findings.)
Not decided: scheduling of other flows on the same connection (asyncio), real intercept/resume timing.
"""

from __future__ import annotations

import ast

from ..core import norm
from ..httpstream import HttpStreamSpec
from ..httpstream import init_env
from ..httpstream import REL
from ..layerx import explore
from ..model import calls_in
from ..model import call_name
from ..model import attr_chain
from ..model import last_attr
from ..model import walk_in_order
from ..paths import C
from ..paths import Engine
from ..paths import GenericSpec
from ..paths import State
from ..paths import traces_of
from ..selftest import Mutant
from .C03 import Lifecycle

PROP = "C11"
REG = {
    "strength": "partial",
    "technique": "path enumeration (await/hook/send order, control dependence on the kill marker) + exploration of the extracted HttpStream model",
    "claim": "hook completion waits for resume; every layer sends the post-hook message object exactly once after its hook; on every explored "
    "HttpStream transition nothing reaches the destination between a message hook and the kill check; sibling layers are cross-checked for a kill check.",
    "note": "Known findings: TCP/UDP/WebSocket/DNS-response layers and the streamed-request path do not consult the kill marker (flow.kill() is advertised for them).",
}

SRV = "mitmproxy/proxy/server.py"
MS = "mitmproxy/proxy/mode_servers.py"
TCP = "mitmproxy/proxy/layers/tcp.py"
UDP = "mitmproxy/proxy/layers/udp.py"
WS = "mitmproxy/proxy/layers/websocket.py"
DNS = "mitmproxy/proxy/layers/dns.py"

REQ_HOOKS = ("HttpRequestHeadersHook", "HttpRequestHook", "HttpConnectHook")
RESP_HOOKS = ("HttpResponseHeadersHook", "HttpResponseHook")


class KillOrder(Lifecycle):
    """R11.3 on top of the C03 environment automaton (same offers)."""

    def step(self, mon, ev, trace, env, report, exc=None):
        for i, e in enumerate(trace):
            if e[0] == "hook" and e[1] in REQ_HOOKS + RESP_HOOKS:
                dest = "server" if e[1] in REQ_HOOKS else "client"
                for f in trace[i + 1 :]:
                    if f[0] == "ck":
                        break
                    if f[0] == "hook" and f[1] in REQ_HOOKS + RESP_HOOKS:
                        break
                    if f[0] == "getconn" and dest == "server":
                        report(f"R11.3 {e[1]}: upstream connection requested before the kill check")
                    if f[0] == "send" and f[2] == dest and not f[1].endswith("ProtocolError"):
                        report(f"R11.3 {e[1]}: {f[1]} sent to the {dest} before the kill check")
        msgs = []
        out = Lifecycle.step(self, mon, ev, trace, env, msgs.append, exc)  # C03's own rules are not re-reported here
        return out


def _payload_names(expr):
    return [n for n in ast.walk(expr) if isinstance(n, ast.Name)]


def check(ctx):
    ctx.exhaustive = True
    ctx.bounds.append("loops unrolled once in path enumeration; the extracted HttpStream model is explored to a fix-point")
    ctx.rule("R11.1", "handle_hook awaits wait_for_resume; HookCompleted only after handle_hook returned")
    ctx.rule("R11.2", "message sent after its hook, once, payload re-read from the flow/message object")
    ctx.rule("R11.3", "HTTP: nothing reaches the destination between a message hook and check_killed; killed path shape")
    ctx.rule("R11.4", "every layer with a message hook consults the kill marker between hook and send")
    ctx.rule("R11.5", "Flow.kill never completes a pending hook while some layer forwards unconditionally after its hook (cooperating sites)")
    unchecked_layers = []
    m = ctx.model

    # ---- R11.1
    hh = ctx.func(MS, "ProxyConnectionHandler.handle_hook")
    tr, _ = traces_of(hh, GenericSpec(keep=lambda e: e[0] == "await", record_conds=False))
    ok = all(
        ("await", "self.master.addons.handle_lifecycle") in t and (
            ("await", "data.wait_for_resume") not in t or t.index(("await", "self.master.addons.handle_lifecycle")) < t.index(("await", "data.wait_for_resume"))
        )
        for t, how, s in tr
    ) and any(("await", "data.wait_for_resume") in t for t, how, s in tr)
    ctx.check(ok, "R11.1", (MS, "ProxyConnectionHandler.handle_hook", hh), "await addons; await data.wait_for_resume()", "hook completion no longer waits for the flow to be resumed",
              desc="handle_hook awaits wait_for_resume after the addons")
    # wait_for_resume must be guarded only by isinstance(data, Flow)
    waits = [n for n in walk_in_order(hh) if isinstance(n, ast.Await) and isinstance(n.value, ast.Call) and attr_chain(n.value.func).endswith("wait_for_resume")]
    ctx.require(len(waits) <= 1, "handle_hook: more than one wait_for_resume await (shape not modelled)")
    conds = []
    p = waits[0]._parent if waits else hh
    while p is not hh:
        if isinstance(p, ast.If):
            conds.append(norm(p.test))
        p = p._parent
    ctx.check(bool(waits) and all("isinstance" in c and "Flow" in c for c in conds), "R11.1", (MS, "ProxyConnectionHandler.handle_hook", hh), f"wait_for_resume guarded by {conds}",
              "waiting for resume is skipped under an extra condition", desc="wait guarded only by the Flow type test")
    ht = ctx.func(SRV, "ConnectionHandler.hook_task")
    tr, _ = traces_of(ht, GenericSpec(keep=lambda e: e[0] == "await" or (e[0] == "call" and e[1].endswith("HookCompleted"))))
    ok = all((("call", "events.HookCompleted") not in t) or (("await", "self.handle_hook") in t and t.index(("await", "self.handle_hook")) < t.index(("call", "events.HookCompleted"))) for t, how, s in tr)
    ok = ok and any(("call", "events.HookCompleted") in t for t, how, s in tr)
    ctx.check(ok, "R11.1", (SRV, "ConnectionHandler.hook_task", ht), "await handle_hook; HookCompleted", "the layer is resumed before the hook (and a pending intercept) finished",
              desc="HookCompleted after handle_hook")
    fw = ctx.func("mitmproxy/flow.py", "Flow.wait_for_resume")
    ok = any(isinstance(n, ast.Await) and "_resume_event.wait" in norm(n) for n in walk_in_order(fw)) and any(
        isinstance(n, ast.If) and norm(n.test) == "not self.intercepted" and isinstance(n.body[0], ast.Return) for n in walk_in_order(fw))
    ctx.check(ok, "R11.1", ("mitmproxy/flow.py", "Flow.wait_for_resume", fw), "if not intercepted: return; await _resume_event.wait()", "an intercepted flow is not held", desc="wait_for_resume blocks while intercepted")
    ctx.expect_instances("R11.1", 4)

    # ---- R11.2 / R11.4 for the message layers
    layers = [
        (TCP, "TCPLayer.relay_messages", "TcpMessageHook", "SendData", "TCP"),
        (UDP, "UDPLayer.relay_messages", "UdpMessageHook", "SendData", "UDP"),
        (WS, "WebsocketLayer.relay_messages", "WebsocketMessageHook", "send2", "WebSocket"),
        (DNS, "DNSLayer.handle_request", "DnsRequestHook", "SendData", "DNS request"),
        (DNS, "DNSLayer.handle_response", "DnsResponseHook", "SendData", "DNS response"),
    ]
    for rel, qual, hook, sendname, label in layers:
        fn = ctx.func(rel, qual)
        where = (rel, qual, fn)
        hook_stmts = [n for n in walk_in_order(fn) if isinstance(n, ast.Expr) and isinstance(n.value, ast.Yield) and isinstance(n.value.value, ast.Call) and last_attr(n.value.value.func) == hook]
        ctx.require(len(hook_stmts) == 1, f"{qual}: expected exactly one {hook} yield, found {len(hook_stmts)}")
        hs = hook_stmts[0]

        def keep(e, hook=hook, sendname=sendname):
            return (e[0] == "yield" and e[1] == hook) or (e[0] == "call" and (e[1].endswith("." + sendname) or e[1] == sendname)) or e[0] == "cond"

        spec = GenericSpec(keep=keep, record_conds=True, unroll=1)
        tr, eng = traces_of(fn, spec)
        ctx.paths += len(tr)
        n_with_hook = 0
        kill_checked = True
        for t, how, s in tr:
            idx = [i for i, e in enumerate(t) if e == ("yield", hook)]
            if not idx:
                continue
            n_with_hook += 1
            after = t[idx[0] + 1 :]
            sends_after = [e for e in after if e[0] == "call" and e[1].endswith(sendname)]
            sends_before = [e for e in t[: idx[0]] if e[0] == "call" and e[1].endswith(sendname)]
            if sends_before:
                ctx.fail("R11.2", where, f"{sendname} before {hook}", "the message is sent before its hook ran (cannot be held or edited)")
            if label in ("TCP", "UDP") and len(sends_after) != 1:
                ctx.fail("R11.2", where, f"{len(sends_after)} sends after {hook}", "a relayed message must be forwarded exactly once after its hook")
            if sends_after:
                conds = [e for e in after[: after.index(sends_after[0])] if e[0] == "cond"]
                if not any(("error" in c[1] or "live" in c[1] or "kill" in c[1].lower()) for c in conds):
                    kill_checked = False
        ctx.require(n_with_hook >= 1, f"{qual}: no path through {hook}")
        # payload: re-read after the hook
        sends = []
        for n in walk_in_order(fn):
            if isinstance(n, ast.Call) and last_attr(n.func) == sendname and n.lineno > hs.lineno:
                # same branch as the hook (shares the hook's enclosing block chain)?
                sends.append(n)
        # restrict to sends in the block (or nested blocks) that follow the hook statement
        par = hs._parent
        body = None
        for fname in ("body", "orelse", "finalbody"):
            b = getattr(par, fname, None)
            if isinstance(b, list) and hs in b:
                body = b[b.index(hs) + 1 :]
        ctx.require(body is not None, f"{qual}: cannot locate the statements after {hook}")
        follow = [n for st in body for n in walk_in_order(st) if isinstance(n, ast.Call) and last_attr(n.func) == sendname]
        if not follow:
            ctx.fail("R11.2", where, f"no {sendname} after {hook}", "the message is not sent after its hook in the hook's block (sent before it, or never)")
        params = {x.arg for x in fn.args.args}

        def derive_problem(expr, depth=0):
            """None if every value in ``expr`` is read from the flow/message object after the hook."""
            if depth > 4:
                return "payload derivation too deep to follow"
            for nm in {n.id for n in _payload_names(expr)} - {"self", "flow", "bytes", "len", "str", "pack_message", "response_codes"}:
                if nm == "event":
                    return "payload reads the received event, not the message object the hook may have edited"
                if nm in ("fragmentizer",):
                    continue  # re-fragmentation helper: carries fragment lengths, the content is passed at call time
                defs = [a_ for a_ in walk_in_order(fn) if isinstance(a_, (ast.Assign, ast.For, ast.AnnAssign))
                        and any(isinstance(t, ast.Name) and t.id == nm for t in ast.walk(a_.targets[0] if isinstance(a_, ast.Assign) else a_.target))]
                if not defs:
                    if nm in params:
                        return f"payload uses parameter `{nm}` as received, not the flow's (possibly edited) message"
                    continue
                after_hook = [a_ for a_ in defs if a_.lineno > hs.lineno]
                if after_hook:
                    for a_ in after_hook:
                        src = a_.iter if isinstance(a_, ast.For) else a_.value
                        if src is not None:
                            pr = derive_problem(src, depth + 1)
                            if pr:
                                return pr
                    continue
                is_obj = all(isinstance(a_, ast.Assign) and isinstance(a_.value, ast.Call) and last_attr(a_.value.func).endswith("Message") for a_ in defs)
                attr_read = any(isinstance(x, ast.Attribute) and isinstance(x.value, ast.Name) and x.value.id == nm for x in ast.walk(expr))
                if not (is_obj and attr_read):
                    return f"payload uses local `{nm}` computed before the hook"
            return None

        for snd in follow:
            payload = snd.args[-1] if snd.args else None
            ctx.require(payload is not None, f"{qual}: {sendname} without payload")
            bad = derive_problem(payload)
            ctx.check(bad is None, "R11.2", where, f"{sendname}({norm(payload)}) after {hook}", bad or "", desc=f"{label}: post-hook payload {norm(payload)}")
        # locals assigned after the hook and used as payload must derive from flow/message
        for st in body:
            for a in walk_in_order(st):
                if isinstance(a, ast.Assign) and isinstance(a.targets[0], ast.Name) and a.targets[0].id == "packed":
                    srcs = {attr_chain(x) for x in ast.walk(a.value) if isinstance(x, ast.Attribute)}
                    ctx.check(any(s.startswith("flow.request") or s.startswith("flow.response") or s == "servfail" for s in srcs) or "servfail" in norm(a.value), "R11.2", where, norm(a),
                              "the packed DNS message is not built from the flow's (possibly edited) message", desc=f"{label}: packed from flow")
        ctx.check(kill_checked, "R11.4", where, f"{hook} -> {sendname}", f"{label}: no test of flow.error / flow.live between the hook and the send, so flow.kill() during the hook is ignored and the message is forwarded",
                  desc=f"{label}: kill marker consulted")
        if not kill_checked:
            unchecked_layers.append(label)
    ctx.expect_instances("R11.2", 5)
    ctx.expect_instances("R11.4", 5)

    # ---- R11.5 kill() must not release a held hook while layers forward unconditionally after their hook
    # Cooperating sites: the layers listed in R11.4's findings (F-C11) send the message as soon as their hook completes, without
    # looking at the kill marker.  For those layers "killed flows are never forwarded" holds today only because Flow.kill() leaves
    # the pending hook of an intercepted flow blocked (it clears `intercepted` but never sets the resume event).  If kill() starts
    # to complete the hook (calls resume() / sets the event), the held message of every such layer is forwarded on kill.
    FLOW = "mitmproxy/flow.py"
    kill = ctx.func(FLOW, "Flow.kill")

    def releases(fn, seen):
        for c in calls_in(fn):
            name = call_name(c)
            if name.endswith("_resume_event.set"):
                return c
            if name.startswith("self.") and name.count(".") == 1 and m.has(FLOW, "Flow." + name[5:]) and name[5:] not in seen:
                seen.add(name[5:])
                d = m.func(FLOW, "Flow." + name[5:])
                if isinstance(d, (ast.FunctionDef, ast.AsyncFunctionDef)):
                    r = releases(d, seen)
                    if r is not None:
                        return c
        return None

    ctx.require(releases(ctx.func(FLOW, "Flow.resume"), {"resume"}) is not None, "Flow.resume no longer sets the resume event (R11.5 premise changed)")
    rel = releases(kill, {"kill"})
    ctx.check(rel is None or not unchecked_layers, "R11.5", (FLOW, "Flow.kill", rel if rel is not None else kill), "Flow.kill completes a pending (intercepted) hook",
              f"Flow.kill() releases the hook an intercepted flow is held in (`{norm(rel) if rel is not None else ''}`), but {', '.join(unchecked_layers)} forward the held message as soon as their hook "
              "completes without consulting the kill marker: killing an intercepted message sends it to its destination",
              desc=f"Flow.kill leaves a held hook blocked (layers without kill check: {len(unchecked_layers)})")
    ctx.expect_instances("R11.5", 1)

    # ---- R11.3 HTTP
    spec = HttpStreamSpec(m)
    entry = ctx.func(REL, "HttpStream._handle_event")
    res = explore(spec, entry, init_env(), KillOrder())
    ctx.paths += res["transitions"]
    ctx.require(res["states"] >= 40, "HttpStream exploration collapsed")
    ctx.note(f"HttpStream model: {res['states']} states, {res['transitions']} transitions")
    seen = set()
    for v in res["violations"]:
        msg = v["message"]
        if not msg.startswith("R11.3") or msg in seen:
            continue
        seen.add(msg)
        last_ev, last_tr = v["history"][-1]
        ctx.fail("R11.3", (REL, "HttpStream", entry), msg[6:], f"reachable on event {last_ev}: {[e for e in last_tr if e[0] in ('hook', 'send', 'ck', 'getconn')]}", history=v["history"])
    if not seen:
        ctx.ok("R11.3", f"{res['transitions']} transitions: nothing reaches the destination between a message hook and the kill check")
    else:
        ctx.instance("R11.3", f"{res['transitions']} transitions explored")
    # killed path shape
    ck = ctx.func(REL, "HttpStream.check_killed")
    for flag in (True, False):
        eng = Engine(HttpStreamSpec(m))
        finals = eng.finals(ck, State((), init_env()), {"emit_error_hook": C(flag)})
        killed = [f for f in finals if f.get("$ret") == C(True)]
        ctx.require(killed, "check_killed has no killed path")
        for f in killed:
            sends = [e for e in f.trace if e[0] == "send"]
            sets = [e for e in f.trace if e[0] == "set"]
            hooks = [e[1] for e in f.trace if e[0] == "hook"]
            good = (
                sends == [("send", "ResponseProtocolError", "client")]
                and ("set", "self.client_state", "self.state_errored") in sets
                and ("set", "self.server_state", "self.state_errored") in sets
                and ("live", False) in f.trace
                and hooks == (["HttpErrorHook"] if flag else [])
            )
            ctx.check(good, "R11.3", (REL, "HttpStream.check_killed", ck), f"killed path (emit_error_hook={flag})",
                      f"killed path must only tell the client, mark both directions errored and end the flow; got sends={sends} sets={sets} hooks={hooks}", desc=f"killed path shape emit={flag}")
        alive = [f for f in finals if f.get("$ret") == C(False)]
        ctx.check(bool(alive) and all(not [e for e in f.trace if e[0] in ("send", "hook", "set")] for f in alive), "R11.3", (REL, "HttpStream.check_killed", ck), f"not-killed path (emit_error_hook={flag})",
                  "the not-killed path has side effects", desc=f"not-killed path is silent emit={flag}")
    ctx.expect_instances("R11.3", 5)


I = REL
MUTANTS = [
    Mutant("kill-resumes-held-hook", "mitmproxy/flow.py", "        self.error = Error(Error.KILLED_MESSAGE)\n        self.intercepted = False\n", "        self.error = Error(Error.KILLED_MESSAGE)\n        self.resume()\n", "R11.5"),
    Mutant("no-wait-for-resume", MS, "            if isinstance(data, flow.Flow):\n                await data.wait_for_resume()  # pragma: no cover\n", "            pass\n", "R11.1"),
    Mutant("hookcompleted-before-hook", SRV, "        await self.handle_hook(hook)\n        if hook.blocking:\n            await self.server_event(events.HookCompleted(hook))\n",
           "        if hook.blocking:\n            await self.server_event(events.HookCompleted(hook))\n        await self.handle_hook(hook)\n", "R11.1"),
    Mutant("wait-ignores-intercept", "mitmproxy/flow.py", "        if not self.intercepted:\n            return\n        if self._resume_event is None:", "        if self._resume_event is None:\n            return\n        if self._resume_event is None:", "R11.1"),
    Mutant("tcp-send-prehook-data", TCP, "yield commands.SendData(send_to, tcp_message.content)", "yield commands.SendData(send_to, event.data)", "R11.2"),
    Mutant("udp-send-before-hook", UDP, "                yield UdpMessageHook(self.flow)\n                yield commands.SendData(send_to, udp_message.content)\n",
           "                yield commands.SendData(send_to, udp_message.content)\n                yield UdpMessageHook(self.flow)\n", "R11.2"),
    Mutant("ws-fragment-original-content", WS, "for msg in fragmentizer(message.content):", "for msg in fragmentizer(content):", "R11.2"),
    Mutant("dns-pack-original-msg", DNS, "            packed = pack_message(flow.response, flow.client_conn.transport_protocol)", "            packed = pack_message(msg, flow.client_conn.transport_protocol)", "R11.2"),
    Mutant("http-request-no-kill-check", I, "            yield HttpRequestHook(self.flow)\n            if (yield from self.check_killed(True)):\n                return\n            elif self.flow.response:",
           "            yield HttpRequestHook(self.flow)\n            if self.flow.response:", "R11.3"),
    Mutant("http-response-send-before-kill-check", I, "        yield HttpResponseHook(self.flow)\n        self.server_state = self.state_done\n        if (yield from self.check_killed(False)):\n            return\n\n        if not already_streamed:\n            content = self.flow.response.raw_content\n            done_after_headers = not (content or self.flow.response.trailers)\n            yield SendHttp(\n                ResponseHeaders(self.stream_id, self.flow.response, done_after_headers),\n                self.context.client,\n            )\n",
           "        yield HttpResponseHook(self.flow)\n        self.server_state = self.state_done\n        if not already_streamed:\n            content = self.flow.response.raw_content\n            done_after_headers = not (content or self.flow.response.trailers)\n            yield SendHttp(\n                ResponseHeaders(self.stream_id, self.flow.response, done_after_headers),\n                self.context.client,\n            )\n        if (yield from self.check_killed(False)):\n            return\n\n        if not already_streamed:\n", "R11.3"),
    Mutant("killed-still-forwards-to-server", I, "            self.flow.live = False\n            self.client_state = self.server_state = self.state_errored\n            return True\n        return False\n\n    def handle_protocol_error(",
           "            self.flow.live = False\n            self.client_state = self.state_errored\n            return True\n        return False\n\n    def handle_protocol_error(", "R11.3"),
    Mutant("dns-request-ignores-kill", DNS, "        elif flow.error:\n            yield from self.handle_error(flow, flow.error.msg)\n        elif not self.context.server.address:", "        elif not self.context.server.address:", "R11.4"),
]
