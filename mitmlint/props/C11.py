"""C11 - intercepted flows are held until resumed, killed flows are never forwarded.

Decided (all clauses on path *semantics*: functions are executed abstractly with structural values - where a datum came from and
whether it was read before or after the hook - and helpers are inlined by value, so local names, statement shape and extraction
do not matter; see "value-based path semantics" below):
  R11.1 the hook machinery blocks: on every path of ProxyConnectionHandler.handle_hook on which the hook's data is a Flow,
        <data>.wait_for_resume() is awaited after the addons ran; ConnectionHandler.hook_task hands a HookCompleted event to the
        layer only after handle_hook was awaited; Flow.wait_for_resume(), while `intercepted`, awaits the flow's resume event on
        every returning path.
  R11.2 in every layer the message is sent after its hook (TCP/UDP: exactly once), and the payload is read from the flow / from a
        message object that was handed to the flow, *after* the hook (so edits are forwarded) - never data as received (event,
        parameter, an object the hook never saw) and never a snapshot taken before the hook.
  R11.3 HTTP: between a message hook and the kill check nothing of the message is sent to its destination and
        no upstream connection is requested (explored on the extracted HttpStream model); the killed path of
        check_killed only tells the client and marks both directions errored.
  R11.4 every layer that fires a message hook reads the kill marker (<flow>.error / .live / .killable, after the hook, in a branch
        condition or in the result of an inlined helper) between hook and send.
        (TCP, UDP, WebSocket, DNS responses do not: upstream limitation, known findings.)
  R11.5 with a waiter present, Flow.resume() sets the very event wait_for_resume() blocks on (on every path), and Flow.kill() sets it
        on no path while some layer forwards unconditionally after its hook (cooperating sites).
Not decided: scheduling of other flows on the same connection (asyncio), real intercept/resume timing.
"""

from __future__ import annotations

import ast

from ..core import AnalysisError
from ..httpstream import HttpStreamSpec
from ..httpstream import init_env
from ..httpstream import REL
from ..layerx import explore
from ..model import attr_chain
from ..model import eval_order
from ..model import last_attr
from ..paths import C
from ..paths import class_names
from ..paths import Engine
from ..paths import Spec
from ..paths import State
from ..paths import traces_of
from ..paths import UNKNOWN
from ..selftest import Mutant
from .C03 import Lifecycle

PROP = "C11"
REG = {
    "strength": "partial",
    "technique": "path enumeration (await/hook/send order, control dependence on the kill marker) + exploration of the extracted HttpStream model",
    "claim": "hook completion waits for resume; every layer sends the post-hook message object exactly once after its hook; on every explored "
    "HttpStream transition nothing reaches the destination between a message hook and the kill check; sibling layers are cross-checked for a kill check.",
    "note": "Known findings: TCP/UDP/WebSocket/DNS-response layers and the streamed-request path do not consult the kill marker (flow.kill() is advertised for them).",
}

SRV = "mitmproxy/proxy/server.py"
MS = "mitmproxy/proxy/mode_servers.py"
TCP = "mitmproxy/proxy/layers/tcp.py"
UDP = "mitmproxy/proxy/layers/udp.py"
WS = "mitmproxy/proxy/layers/websocket.py"
DNS = "mitmproxy/proxy/layers/dns.py"

REQ_HOOKS = ("HttpRequestHeadersHook", "HttpRequestHook", "HttpConnectHook")
RESP_HOOKS = ("HttpResponseHeadersHook", "HttpResponseHook")


class KillOrder(Lifecycle):
    """R11.3 on top of the C03 environment automaton (same offers)."""

    def step(self, mon, ev, trace, env, report, exc=None):
        for i, e in enumerate(trace):
            if e[0] == "hook" and e[1] in REQ_HOOKS + RESP_HOOKS:
                dest = "server" if e[1] in REQ_HOOKS else "client"
                for f in trace[i + 1 :]:
                    if f[0] == "ck":
                        break
                    if f[0] == "hook" and f[1] in REQ_HOOKS + RESP_HOOKS:
                        break
                    if f[0] == "getconn" and dest == "server":
                        report(f"R11.3 {e[1]}: upstream connection requested before the kill check")
                    if f[0] == "send" and f[2] == dest and not f[1].endswith("ProtocolError"):
                        report(f"R11.3 {e[1]}: {f[1]} sent to the {dest} before the kill check")
        msgs = []
        out = Lifecycle.step(self, mon, ev, trace, env, msgs.append, exc)  # C03's own rules are not re-reported here
        return out


# ---------------------------------------------------------------------------------------------------
# value-based path semantics (shared by R11.1, R11.2, R11.4, R11.5)
#
# The rules below never compare source text or local names.  Every function is executed abstractly by the path engine with
# *structural values*: a value says where a datum came from (which parameter / attribute read / constructor / call) and - for
# attribute reads - whether the read happened before or after the message hook of the layer.  Helper methods (`self.f()`,
# `Class.f()`, `cls.f()`, module-level `f()`), also static ones, are inlined with their arguments bound by value, so a rule sees the
# same events whether a step is written in place or extracted, and whatever the locals are called.
#
#   C(k)                          constant                     ("self",)            the instance
#   ("param", n)                  entry value of parameter n   ("glob", n)          module-level name
#   ("attr", base, name, epoch)   attribute read; epoch = None for direct attributes of self (stable references), otherwise
#                                 False / True = read before / after the layer's message hook fired on this path
#   ("new", Cls, site, args, kw)  object constructed here      ("call", f, args, kw) result of any other call
#   ("idx", base, i) ("elem", it) subscript / element of an iterable (loop variable, unpacking)
#   ("bool", ...)                 comparison / isinstance / not: carries no payload, only the reads it made
#   ("op", ...) ("tuple", ...)    anything else: derived from its operands
#   ("nn", tag)                   an opaque non-None object handed in by a rule (scenario value)
#   ("ext",)                      result of a yield / await (reply of the environment)

KILL_ATTRS = ("error", "live", "killable")
_BOOL_CALLS = ("isinstance", "callable", "bool", "hasattr", "issubclass")


def _is_classname(name: str) -> bool:
    n = name.lstrip("_")
    return bool(n) and n[0].isupper() and not n.isupper()


def _loop_binding(node, name):
    """innermost enclosing `for` statement (of the same function) whose target binds ``name`` and whose body contains ``node``"""
    child, n = node, getattr(node, "_parent", None)
    while n is not None and not isinstance(n, (ast.FunctionDef, ast.AsyncFunctionDef, ast.Lambda)):
        if isinstance(n, (ast.For, ast.AsyncFor)) and any(child is b for b in n.body):
            if any(isinstance(x, ast.Name) and x.id == name for x in ast.walk(n.target)):
                return n
        child, n = n, getattr(n, "_parent", None)
    return None


_WALRUS = {}


def _walrus_binding(node, name):
    """the only `(name := value)` of the enclosing function.  Only consulted for a name the path has not bound by a statement (every
    assignment / loop / with / except binding executed on the path is recorded in the state), so on such a path the walrus - nested in a
    condition, where the engine does not bind it - is what bound the name, even if other paths rebind it (`if (x := self.e) is None: x = self.e = E()`)"""
    fn = getattr(node, "_parent", None)
    while fn is not None and not isinstance(fn, (ast.FunctionDef, ast.AsyncFunctionDef)):
        fn = getattr(fn, "_parent", None)
    if fn is None:
        return None
    tab = _WALRUS.get(id(fn))
    if tab is None or tab[0] is not fn:
        found, params = {}, set()
        for n in ast.walk(fn):
            if isinstance(n, ast.NamedExpr):
                found.setdefault(n.target.id, []).append(n)
            elif isinstance(n, ast.arg):
                params.add(n.arg)  # parameters are bound at entry
        tab = (fn, {k: v[0] for k, v in found.items() if len(v) == 1 and k not in params})
        _WALRUS[id(fn)] = tab
    return tab[1].get(name)


def subvalues(v):
    """every structural value nested in ``v`` (including v)"""
    todo = [v]
    while todo:
        x = todo.pop()
        if not isinstance(x, tuple) or not x:
            continue
        if isinstance(x[0], str):
            yield x
        for y in x[1:] if isinstance(x[0], str) else x:
            if isinstance(y, tuple):
                todo.append(y)


class VSpec(Spec):
    """Path-engine specialisation with structural values (see above)."""

    unroll = 1
    max_depth = 4
    record_conds = False

    def __init__(self, model, rel, cls, entry, tracked=(), no_inline=(), may_inline=None):
        self.m, self.rel, self.cls, self.entry = model, rel, cls, entry
        self.tracked = tuple(tracked)
        self.no_inline = set(no_inline)
        self._may_inline = may_inline
        self._fdepth = {id(entry): 0}  # function -> frame depth of its (only) active activation
        self._stack = {0: id(entry)}
        self._last = 0
        self._busy = set()
        a = entry.args
        self.params0 = {x.arg for x in a.posonlyargs + a.args + a.kwonlyargs} | ({a.vararg.arg} if a.vararg else set()) | ({a.kwarg.arg} if a.kwarg else set())
        try:
            self._class_names = {c.name for _, c in model.mro(rel, cls)} if cls else set()
        except AnalysisError:
            self._class_names = {cls}

    # ---- frames
    def depth_of(self, node) -> int:
        n = node
        while n is not None:
            if isinstance(n, (ast.FunctionDef, ast.AsyncFunctionDef)) and id(n) in self._fdepth:
                return self._fdepth[id(n)]
            n = getattr(n, "_parent", None)
        return self._last  # synthesised node (match pattern rewritten as a condition): evaluated in the frame used last

    def hooked(self, st) -> bool:
        return st.get("$hk") == C(True)

    # ---- values
    def value(self, expr, st, depth):
        self._last = depth
        V = lambda e: self.value(e, st, depth)  # noqa: E731
        if expr is None:
            return C(None)
        if isinstance(expr, ast.Constant):
            return C(expr.value)
        if isinstance(expr, ast.Starred):
            return ("elem", V(expr.value))
        if Spec._bool_typed(expr) and not isinstance(expr, ast.Constant):
            t = self.truth(expr, st, depth)  # decided by the scenario (e.g. `is_flow = isinstance(data, Flow)`): a constant
            if t is not None:
                return C(t)
        if isinstance(expr, ast.Name):
            k = f"{depth}:{expr.id}"
            v = st.get(k, None)
            if v is not None and v != UNKNOWN:
                return v
            loop = _loop_binding(expr, expr.id)
            if loop is not None:
                return ("elem", V(loop.iter))
            if v is not None:
                return UNKNOWN
            ne = _walrus_binding(expr, expr.id)
            if ne is not None and id(ne) not in self._busy:
                # `(x := e)` nested inside a condition is not bound by the engine: a single-assignment temporary, evaluated where it is used
                self._busy.add(id(ne))
                try:
                    return V(ne.value)
                finally:
                    self._busy.discard(id(ne))
            if expr.id in ("self", "cls"):
                return ("self",)
            if depth == 0 and expr.id in self.params0:
                return ("param", expr.id)
            return ("glob", expr.id)
        if isinstance(expr, ast.Attribute):
            ch = attr_chain(expr)
            if ch and ch in self.tracked and st.has(ch):
                return st.get(ch)
            base = V(expr.value)
            return ("attr", base, expr.attr, None if base == ("self",) else self.hooked(st))
        if isinstance(expr, ast.Call):
            args = tuple(V(a) for a in expr.args)
            kws = tuple((k.arg or "**", V(k.value)) for k in expr.keywords)
            name = last_attr(expr.func)
            if isinstance(expr.func, ast.Name) and name in _BOOL_CALLS:
                return ("bool",) + args
            if _is_classname(name):
                return ("new", name, (expr.lineno, expr.col_offset), args, kws)
            return ("call", V(expr.func), args, kws)
        if isinstance(expr, ast.Compare):
            return ("bool", V(expr.left)) + tuple(V(c) for c in expr.comparators)
        if isinstance(expr, ast.UnaryOp) and isinstance(expr.op, ast.Not):
            return ("bool", V(expr.operand))
        if isinstance(expr, ast.BoolOp):
            vals = tuple(V(x) for x in expr.values)
            return (("bool",) if all(Spec._bool_typed(x) for x in expr.values) else ("op",)) + vals
        if isinstance(expr, ast.IfExp):
            return ("op", ("bool", V(expr.test)), V(expr.body), V(expr.orelse))
        if isinstance(expr, ast.Subscript):
            return ("idx", V(expr.value), V(expr.slice))
        if isinstance(expr, ast.NamedExpr):
            return V(expr.value)
        if isinstance(expr, (ast.Yield, ast.YieldFrom, ast.Await, ast.Lambda)):
            return ("ext",)
        if isinstance(expr, (ast.Tuple, ast.List, ast.Set)):
            return ("tuple",) + tuple(V(e.value if isinstance(e, ast.Starred) else e) for e in expr.elts)
        if isinstance(expr, (ast.ListComp, ast.SetComp, ast.GeneratorExp)):
            return ("op", V(expr.elt)) + tuple(V(g.iter) for g in expr.generators)
        if isinstance(expr, ast.DictComp):
            return ("op", V(expr.key), V(expr.value)) + tuple(V(g.iter) for g in expr.generators)
        return ("op",) + tuple(V(c) for c in ast.iter_child_nodes(expr) if isinstance(c, ast.expr))

    # ---- effects
    def bind(self, target, value_expr, st, depth, value=None):
        self._last = depth
        v = value if value is not None else self.value(value_expr, st, depth)
        if isinstance(target, ast.Starred):
            target = target.value
        if isinstance(target, ast.Name):
            return st.set(f"{depth}:{target.id}", v)
        if isinstance(target, (ast.Tuple, ast.List)):
            exact = isinstance(v, tuple) and v and v[0] == "tuple" and len(v) - 1 == len(target.elts) and not any(isinstance(e, ast.Starred) for e in target.elts)
            for i, e in enumerate(target.elts):
                st = self.bind(e, None, st, depth, value=v[1 + i] if exact else (UNKNOWN if v == UNKNOWN else ("elem", v)))
            return st
        ch = attr_chain(target)
        if ch and ch in self.tracked:
            return st.set(ch, v)
        return st

    def effect(self, stmt, st, depth):
        self._last = depth
        if isinstance(stmt, ast.AugAssign) and isinstance(stmt.target, ast.Name):
            st = st.set(f"{depth}:{stmt.target.id}", ("op", self.value(stmt.target, st, depth), self.value(stmt.value, st, depth)))
        else:
            st = Spec.effect(self, stmt, st, depth)
        return self.after(stmt, st, depth)

    def after(self, stmt, st, depth):
        return st

    # ---- decisions on scenario values
    def decide_extra(self, cond, st, depth):
        if isinstance(cond, (ast.Name, ast.Attribute)):
            v = self.value(cond, st, depth)
            if v[0] == "nn":
                return True
        if isinstance(cond, ast.Compare) and len(cond.ops) == 1 and isinstance(cond.ops[0], (ast.Is, ast.IsNot, ast.Eq, ast.NotEq)):
            a, b = self.value(cond.left, st, depth), self.value(cond.comparators[0], st, depth)
            if (a[0] == "nn" and b == C(None)) or (b[0] == "nn" and a == C(None)):
                return isinstance(cond.ops[0], (ast.IsNot, ast.NotEq))
        return None

    # ---- inlining by resolution through the model (value-bound arguments)
    def resolve(self, call):
        f = call.func
        if isinstance(f, ast.Attribute) and isinstance(f.value, ast.Name) and self.cls:
            if f.value.id in ("self", "cls") or f.value.id in self._class_names:
                r = self.m.method(self.rel, self.cls, f.attr)
                return r[1] if r else None
        if isinstance(f, ast.Name):
            d = self.m.module(self.rel).get(f.id)
            if isinstance(d, (ast.FunctionDef, ast.AsyncFunctionDef)):
                return d
        return None

    def inline(self, call, st, depth):
        self._last = depth
        fn = self.resolve(call)
        if fn is None or fn.name in self.no_inline or depth + 1 > self.max_depth:
            return None
        if any(self._stack.get(i) == id(fn) for i in range(depth + 1)):
            return None  # recursion: the call stays opaque
        if self._may_inline is not None and not self._may_inline(fn):
            return None
        self._fdepth[id(fn)] = depth + 1
        self._stack[depth + 1] = id(fn)
        return fn


def returning(traces):
    return [t for t, how, s in traces if how == "return"]


# ---- R11.1: the hook machinery --------------------------------------------------------------------


class HookHandlerSpec(VSpec):
    """handle_hook: ('addons',) when the addons are awaited, ('wait', on_hook_data) when <x>.wait_for_resume() is awaited,
    ('waitx',) for a wait_for_resume call that is not awaited directly.  `isinstance(<hook data>, ...Flow)` is decided by the scenario."""

    def __init__(self, *a, data_is_flow=True, **kw):
        VSpec.__init__(self, *a, **kw)
        self.data_is_flow = data_is_flow
        ps = [x.arg for x in self.entry.args.posonlyargs + self.entry.args.args if x.arg not in ("self", "cls")]
        self.hook_param = ps[0] if ps else None

    def is_hook_data(self, v) -> bool:
        """taken out of `<hook parameter>.args()`: an element / item of it, next(iter(..)), ..."""
        return any(c[0] == "call" and c[1][0] == "attr" and c[1][1] == ("param", self.hook_param) and c[1][2] == "args" for c in subvalues(v))

    def events(self, node, st):
        depth = self.depth_of(node)
        out = []
        for n in eval_order(node):
            if isinstance(n, ast.Await) and isinstance(n.value, ast.Call):
                f = n.value.func
                if last_attr(f) == "handle_lifecycle":
                    out.append(("addons",))
                elif isinstance(f, ast.Attribute) and f.attr == "wait_for_resume":
                    out.append(("wait", self.is_hook_data(self.value(f.value, st, depth))))
            elif isinstance(n, ast.Call) and isinstance(n.func, ast.Attribute) and n.func.attr == "wait_for_resume" and not isinstance(getattr(n, "_parent", None), ast.Await):
                out.append(("waitx",))
        return out

    def is_the_flow(self, v) -> bool:
        """the value *is* the hook's datum (an element of `hook.args()`), not something computed from it"""
        while v[0] in ("elem", "idx"):
            v = v[1]
        return v[0] == "call" and v[1][0] == "attr" and v[1][1] == ("param", self.hook_param) and v[1][2] == "args"

    def decide_extra(self, cond, st, depth):
        if isinstance(cond, ast.Call) and isinstance(cond.func, ast.Name) and cond.func.id == "isinstance" and len(cond.args) == 2:
            if self.is_hook_data(self.value(cond.args[0], st, depth)):
                names = class_names(cond.args[1])
                if "Flow" in names:
                    return True if self.data_is_flow else (False if names == ["Flow"] else None)
        if self.data_is_flow:
            # in the scenario the hook's datum is a Flow object: it is not None and (Flow defines neither __bool__ nor __len__) truthy, so a
            # type test kept in a temporary (`held = data if isinstance(data, Flow) else None; ...; if held is not None:`) stays decided
            if isinstance(cond, (ast.Name, ast.Attribute)) and self.is_the_flow(self.value(cond, st, depth)):
                return True
            if isinstance(cond, ast.Compare) and len(cond.ops) == 1 and isinstance(cond.ops[0], (ast.Is, ast.IsNot, ast.Eq, ast.NotEq)):
                a, b = self.value(cond.left, st, depth), self.value(cond.comparators[0], st, depth)
                if (self.is_the_flow(a) and b == C(None)) or (self.is_the_flow(b) and a == C(None)):
                    return isinstance(cond.ops[0], (ast.IsNot, ast.NotEq))
        return VSpec.decide_extra(self, cond, st, depth)


class HookTaskSpec(VSpec):
    """hook_task: ('hh',) when handle_hook is awaited, ('done',) when a HookCompleted object is handed to some call (delivered to the layer)."""

    def events(self, node, st):
        depth = self.depth_of(node)
        out = []
        for n in eval_order(node):
            if isinstance(n, ast.Await) and isinstance(n.value, ast.Call) and last_attr(n.value.func) == "handle_hook":
                out.append(("hh",))
            elif isinstance(n, ast.Call) and not _is_classname(last_attr(n.func)):
                vals = [self.value(a, st, depth) for a in n.args] + [self.value(k.value, st, depth) for k in n.keywords]
                if any(x[0] == "new" and x[1] == "HookCompleted" for v in vals for x in subvalues(v)):
                    out.append(("done",))
        return out


class ResumeEventSpec(VSpec):
    """Flow.wait_for_resume / resume / kill: ('evwait', receiver) for `await <receiver>.wait()`, ('evset', receiver) for `<receiver>.set()`."""

    def events(self, node, st):
        depth = self.depth_of(node)
        out = []
        for n in eval_order(node):
            if isinstance(n, ast.Await) and isinstance(n.value, ast.Call) and isinstance(n.value.func, ast.Attribute) and n.value.func.attr == "wait" and not n.value.args:
                out.append(("evwait", self.value(n.value.func.value, st, depth)))
            elif isinstance(n, ast.Call) and isinstance(n.func, ast.Attribute) and n.func.attr == "set" and not n.args:
                out.append(("evset", self.value(n.func.value, st, depth)))
        if isinstance(node, (ast.Assign, ast.AnnAssign)) and node.value is not None:
            for t in node.targets if isinstance(node, ast.Assign) else [node.target]:
                if isinstance(t, ast.Attribute) and isinstance(t.value, ast.Name) and t.value.id == "self":
                    out.append(("store", t.attr, self.value(node.value, st, depth)))
        return out


# ---- R11.2 / R11.4: message layers ------------------------------------------------------------------


class MessageLayerSpec(VSpec):
    """Events of one message layer:
      ('hook', Hook, flow value)   the layer's message hook is yielded (from here on attribute reads have epoch True)
      ('send', line, payload)      a SendData command is yielded (directly, through a temporary, or built by a sender method such as send2)
      ('att', callee, args)        a locally constructed object is handed to a call / stored into an attribute (it may become reachable from the flow)
      ('kread', attr)              after the hook, a branch condition (or the return value of an inlined helper) read <flow>.error / .live / .killable
    """

    def __init__(self, model, rel, cls, entry, hook):
        VSpec.__init__(self, model, rel, cls, entry, may_inline=self._same_stage)
        self.hook = hook
        # sender methods: non-generator methods of this module that build a SendData command from their arguments and return it (send2)
        self.senders = set()
        for q, d in model.module(rel).defs().items():
            if isinstance(d, ast.FunctionDef) and "." in q:
                nodes = list(ast.walk(d))
                if any(isinstance(n, ast.Call) and last_attr(n.func) == "SendData" for n in nodes) and not any(isinstance(n, (ast.Yield, ast.YieldFrom)) for n in nodes) \
                        and any(isinstance(n, ast.Return) and n.value is not None for n in nodes):
                    self.senders.add(d.name)
        self._stage_cache = {}

    def _same_stage(self, fn, seen=None) -> bool:
        """a helper belongs to this hook's stage unless it (transitively) fires a different hook (= another stage with its own obligations)"""
        if id(fn) in self._stage_cache:
            return self._stage_cache[id(fn)]
        seen = seen or set()
        seen.add(id(fn))
        ok = True
        for n in ast.walk(fn):
            if isinstance(n, ast.Yield) and isinstance(n.value, ast.Call):
                nm = last_attr(n.value.func)
                if nm.endswith("Hook") and nm != self.hook:
                    ok = False
            elif isinstance(n, ast.Call):
                g = self.resolve(n)
                if g is not None and id(g) not in seen and not self._same_stage(g, seen):
                    ok = False
        self._stage_cache[id(fn)] = ok
        return ok

    def send_payload(self, v):
        if v[0] == "new" and v[1] == "SendData":
            kw = dict(v[4])
            if "data" in kw:
                return kw["data"]
            return v[3][-1] if v[3] else None
        if v[0] == "call" and v[1][0] == "attr" and v[1][2] in self.senders:
            return ("tuple",) + v[2] + tuple(x for _, x in v[3])
        return None

    def events(self, node, st):
        depth = self.depth_of(node)
        out = []
        for n in eval_order(node):
            if isinstance(n, ast.Yield) and n.value is not None:
                v = self.value(n.value, st, depth)
                if v[0] == "new" and v[1] == self.hook:
                    arg = v[3][0] if v[3] else (v[4][0][1] if v[4] else UNKNOWN)
                    out.append(("hook", self.hook, arg))
                else:
                    p = self.send_payload(v)
                    if p is not None:
                        out.append(("send", n.lineno, p))
            elif isinstance(n, ast.Call) and not _is_classname(last_attr(n.func)) and (n.args or n.keywords):
                args = tuple(self.value(a.value if isinstance(a, ast.Starred) else a, st, depth) for a in n.args) + tuple(self.value(k.value, st, depth) for k in n.keywords)
                if any(x[0] == "new" for a in args for x in subvalues(a)):
                    out.append(("att", self.value(n.func, st, depth), args))
        if isinstance(node, (ast.Assign, ast.AnnAssign, ast.AugAssign)) and node.value is not None:
            tg = node.targets if isinstance(node, ast.Assign) else [node.target]
            stores = [t for t in tg if isinstance(t, (ast.Attribute, ast.Subscript))]
            if stores:
                v = self.value(node.value, st, depth)
                if any(x[0] == "new" for x in subvalues(v)):
                    for t in stores:
                        out.append(("att", self.value(t if isinstance(node, ast.AugAssign) else t.value, st, depth), (v,)))
        if self.hooked(st) and (isinstance(node, ast.expr) or (isinstance(node, ast.Return) and depth > 0 and node.value is not None)):
            F = st.get("$F")
            v = self.value(node if isinstance(node, ast.expr) else node.value, st, depth)
            for x in subvalues(v):
                if x[0] == "attr" and x[2] in KILL_ATTRS and x[3] is True and x[1] == F:
                    out.append(("kread", x[2]))
        return out

    def after(self, stmt, st, depth):
        for n in ast.walk(stmt):
            if isinstance(n, ast.Yield) and n.value is not None:
                v = self.value(n.value, st, depth)
                if v[0] == "new" and v[1] == self.hook:
                    arg = v[3][0] if v[3] else (v[4][0][1] if v[4] else UNKNOWN)
                    st = st.set("$hk", C(True)).set("$F", arg)
        return st


def rooted_at(v, F) -> bool:
    """is ``v`` the flow object F or something reached from it (attribute, item, element, result of a method called on it)?"""
    while True:
        if v == F:
            return True
        if v[0] in ("attr", "idx", "elem"):
            v = v[1]
        elif v[0] == "call":
            v = v[1]
        else:
            return False


def attached_objects(trace, F) -> set:
    """construction sites of the local objects that were handed to the flow (appended to / stored in something reached from F, or passed to
    a call together with F): the objects a hook can see and edit"""
    out = set()
    for e in trace:
        if e[0] != "att":
            continue
        _, callee, args = e
        if rooted_at(callee, F) or any(rooted_at(a, F) for a in args if a[0] != "new"):
            for a in args:
                for x in subvalues(a):
                    if x[0] == "new":
                        out.add(x[2])
    return out


def provenance(v, F, attached) -> set:
    """{'post','pre','raw'}: read from the flow / an attached message object after the hook; read (from the flow, a message object or the
    layer's own state) before the hook; derived from data as received (a parameter, the event, an object the hook never saw)."""

    def mutable(b):
        if rooted_at(b, F):
            return True
        while b[0] in ("idx", "elem", "attr"):
            b = b[1]
        return b[0] == "new" and b[2] in attached

    def tags(x):
        if not isinstance(x, tuple) or not x or not isinstance(x[0], str):
            return set()
        k = x[0]
        if x == F:
            return {"post"}
        if k == "param":
            return {"raw"}
        if k == "attr":
            if mutable(x[1]):
                return {"post"} if x[3] else {"pre"}
            # state of the layer / a connection wrapper: a snapshot taken before the hook is pre-hook data (e.g. the buffered frames)
            return tags(x[1]) | ({"pre"} if x[3] is False else set())
        if k == "new":
            if x[2] in attached:
                return {"post"}
            return set().union(*[tags(a) for a in x[3]], *[tags(a) for _, a in x[4]]) if (x[3] or x[4]) else set()
        if k == "call":
            out = set() if x[1][0] == "new" else tags(x[1])  # calling a local helper object: the result is derived from the arguments
            for a in x[2]:
                out |= tags(a)
            for _, a in x[3]:
                out |= tags(a)
            return out
        if k in ("bool", "c", "glob", "self", "ext", "nn", "u"):
            return set()
        out = set()
        for a in x[1:]:
            out |= tags(a)
        return out

    return tags(v)


def check(ctx):
    ctx.exhaustive = True
    ctx.bounds.append("loops unrolled once in path enumeration; the extracted HttpStream model is explored to a fix-point")
    ctx.rule("R11.1", "handle_hook awaits wait_for_resume; HookCompleted only after handle_hook returned")
    ctx.rule("R11.2", "message sent after its hook, once, payload re-read from the flow/message object")
    ctx.rule("R11.3", "HTTP: nothing reaches the destination between a message hook and check_killed; killed path shape")
    ctx.rule("R11.4", "every layer with a message hook consults the kill marker between hook and send")
    ctx.rule("R11.5", "Flow.resume sets the event a held hook waits on; Flow.kill never completes a pending hook while some layer forwards unconditionally after its hook (cooperating sites)")
    unchecked_layers = []
    m = ctx.model

    # ---- R11.1
    HHQ = "ProxyConnectionHandler.handle_hook"
    hh = ctx.func(MS, HHQ)
    spec = HookHandlerSpec(m, MS, "ProxyConnectionHandler", hh, data_is_flow=True)
    tr, _ = traces_of(hh, spec)
    ctx.paths += len(tr)
    paths = returning(tr)
    ctx.require(not any(("waitx",) in t for t, _, _ in tr), "handle_hook: wait_for_resume() is called but not awaited directly (shape not modelled)")
    ctx.require(any(("addons",) in t for t in paths), "handle_hook: no path awaits addons.handle_lifecycle (anchor moved)")

    def held(t):
        """the flow's wait_for_resume() is awaited after the (last) run of the addons"""
        last = max(i for i, e in enumerate(t) if e == ("addons",))
        return ("wait", True) in t[last + 1 :]

    with_addons = [t for t in paths if ("addons",) in t]
    ctx.check(any(held(t) for t in with_addons), "R11.1", (MS, HHQ, hh), "await addons; await data.wait_for_resume()", "hook completion no longer waits for the flow to be resumed",
              desc="handle_hook awaits wait_for_resume after the addons")
    ctx.check(all(held(t) for t in with_addons), "R11.1", (MS, HHQ, hh), "wait_for_resume on every path of a Flow hook",
              "waiting for resume is skipped under an extra condition: some path on which the hook data is a Flow completes the hook without awaiting data.wait_for_resume() after the addons ran",
              desc="wait guarded only by the Flow type test")
    ht = ctx.func(SRV, "ConnectionHandler.hook_task")
    tr, _ = traces_of(ht, HookTaskSpec(m, SRV, "ConnectionHandler", ht, no_inline=("handle_hook", "server_event")))
    ctx.paths += len(tr)
    ok = all(("done",) not in t or (("hh",) in t and t.index(("hh",)) < t.index(("done",))) for t, how, s in tr)
    ok = ok and any(("done",) in t for t, how, s in tr)
    ctx.check(ok, "R11.1", (SRV, "ConnectionHandler.hook_task", ht), "await handle_hook; HookCompleted", "the layer is resumed before the hook (and a pending intercept) finished",
              desc="HookCompleted after handle_hook")
    FLOW = "mitmproxy/flow.py"
    fw = ctx.func(FLOW, "Flow.wait_for_resume")
    tr, _ = traces_of(fw, ResumeEventSpec(m, FLOW, "Flow", fw, tracked=("self.intercepted",)), init_env={"self.intercepted": C(True)})
    paths = returning(tr)
    ctx.require(paths, "Flow.wait_for_resume: no returning path")
    waited = set()
    for t in paths:
        stored = {e[2]: ("attr", ("self",), e[1], None) for e in t if e[0] == "store"}  # `ev = self.x = Event()`: the object is the attribute
        waited |= {stored.get(e[1], e[1]) for e in t if e[0] == "evwait"}
    ok = bool(waited) and all(any(e[0] == "evwait" for e in t) for t in paths)
    ctx.check(ok, "R11.1", (FLOW, "Flow.wait_for_resume", fw), "if not intercepted: return; await _resume_event.wait()",
              "an intercepted flow is not held: some path of wait_for_resume() returns while the flow is intercepted without awaiting the resume event", desc="wait_for_resume blocks while intercepted")
    ctx.expect_instances("R11.1", 4)
    ev_attr = None
    if ok:
        ctx.require(len(waited) == 1 and next(iter(waited))[:2] == ("attr", ("self",)), f"Flow.wait_for_resume waits on {sorted(map(str, waited))}: not a single event attribute of the flow (shape not modelled)")
        ev_attr = next(iter(waited))[2]

    # ---- R11.2 / R11.4 for the message layers
    layers = [
        (TCP, "TCPLayer.relay_messages", "TcpMessageHook", "SendData", "TCP"),
        (UDP, "UDPLayer.relay_messages", "UdpMessageHook", "SendData", "UDP"),
        (WS, "WebsocketLayer.relay_messages", "WebsocketMessageHook", "send2", "WebSocket"),
        (DNS, "DNSLayer.handle_request", "DnsRequestHook", "SendData", "DNS request"),
        (DNS, "DNSLayer.handle_response", "DnsResponseHook", "SendData", "DNS response"),
    ]
    for rel, qual, hook, sendname, label in layers:
        fn = ctx.func(rel, qual)
        where = (rel, qual, fn)
        spec = MessageLayerSpec(m, rel, qual.split(".")[0], fn, hook)
        tr, eng = traces_of(fn, spec)
        ctx.paths += len(tr)
        n_with_hook = 0
        n_sent = 0
        kill_checked = True
        order_problem = None
        payloads = {}  # line of the send -> (set of problems, some payload seen)
        for t, how, s in tr:
            idx = [i for i, e in enumerate(t) if e[0] == "hook"]
            if not idx:
                continue
            n_with_hook += 1
            F = t[idx[0]][2]
            ctx.require(F != UNKNOWN and F[0] in ("attr", "param", "new", "call", "idx", "elem"), f"{qual}: cannot identify the flow object handed to {hook}")
            after = t[idx[0] + 1 :]
            sends_after = [e for e in after if e[0] == "send"]
            if any(e[0] == "send" for e in t[: idx[0]]):
                order_problem = (f"{sendname} before {hook}", "the message is sent before its hook ran (cannot be held or edited)")
            if label in ("TCP", "UDP") and len(sends_after) != 1 and how == "return":
                order_problem = order_problem or (f"{len(sends_after)} sends after {hook}", "a relayed message must be forwarded exactly once after its hook")
            if not sends_after:
                continue
            n_sent += 1
            if not any(e[0] == "kread" for e in after[: after.index(sends_after[0])]):
                kill_checked = False
            attached = attached_objects(t, F)
            for e in sends_after:
                tags = provenance(e[2], F, attached)
                probs = payloads.setdefault(e[1], set())
                if "raw" in tags:
                    probs.add("payload uses data as it was received (a parameter / the event / an object the hook never saw), not the flow's (possibly edited) message")
                if "pre" in tags:
                    probs.add("payload was read from the flow / message object before the hook ran, so edits made by the hook are not forwarded")
                if "post" not in tags and not probs:
                    probs.add("payload is not read from the flow / message object after the hook (computed before the hook or never derived from the message)")
        ctx.require(n_with_hook >= 1, f"{qual}: no path through {hook} (hook moved out of reach of this entry point)")
        if order_problem:
            ctx.fail("R11.2", where, *order_problem)
        elif not n_sent:
            ctx.fail("R11.2", where, f"no {sendname} after {hook}", "the message is not sent after its hook (sent before it, or never)")
        for line in sorted(payloads):
            probs = payloads[line]
            ctx.check(not probs, "R11.2", (rel, qual, line), f"{sendname} payload after {hook}", "; ".join(sorted(probs)), desc=f"{label}: post-hook payload of the send at line {line} is re-read from the flow")
        ctx.check(kill_checked, "R11.4", where, f"{hook} -> {sendname}", f"{label}: no test of flow.error / flow.live between the hook and the send, so flow.kill() during the hook is ignored and the message is forwarded",
                  desc=f"{label}: kill marker consulted")
        if not kill_checked:
            unchecked_layers.append(label)
    ctx.expect_instances("R11.2", 5)
    ctx.expect_instances("R11.4", 5)

    # ---- R11.5 kill() must not release a held hook while layers forward unconditionally after their hook
    # Cooperating sites: the layers listed in R11.4's findings (F-C11) send the message as soon as their hook completes, without
    # looking at the kill marker.  For those layers "killed flows are never forwarded" holds today only because Flow.kill() leaves
    # the pending hook of an intercepted flow blocked (it clears `intercepted` but never sets the resume event).  If kill() starts
    # to complete the hook (calls resume() / sets the event), the held message of every such layer is forwarded on kill.
    # Scenario for both functions: the flow is intercepted and somebody waits on the resume event (it exists).
    kill = ctx.func(FLOW, "Flow.kill")
    resume = ctx.func(FLOW, "Flow.resume")
    if ev_attr is not None:
        EVENT = ("nn", "resume-event")
        scen = {"self.intercepted": C(True), f"self.{ev_attr}": EVENT}

        def releasing(fn):
            tr, _ = traces_of(fn, ResumeEventSpec(m, FLOW, "Flow", fn, tracked=tuple(scen)), init_env=dict(scen))
            paths = returning(tr)
            return paths, [t for t in paths if ("evset", EVENT) in t]

        paths, rel_paths = releasing(resume)
        ctx.require(paths, "Flow.resume: no returning path")
        ctx.check(len(rel_paths) == len(paths), "R11.5", (FLOW, "Flow.resume", resume), "Flow.resume sets the resume event",
                  "resume() of an intercepted flow does not (on every path) set the event wait_for_resume() is blocked on: the held message is never forwarded", desc="Flow.resume releases the held hook")
        paths, rel_paths = releasing(kill)
        ctx.check(not rel_paths or not unchecked_layers, "R11.5", (FLOW, "Flow.kill", kill), "Flow.kill completes a pending (intercepted) hook",
                  f"Flow.kill() releases the hook an intercepted flow is held in (it sets the resume event `{ev_attr}`, directly or through a helper), but {', '.join(unchecked_layers)} forward the held message as soon as their hook "
                  "completes without consulting the kill marker: killing an intercepted message sends it to its destination",
                  desc=f"Flow.kill leaves a held hook blocked (layers without kill check: {len(unchecked_layers)})")
        ctx.expect_instances("R11.5", 2)

    # ---- R11.3 HTTP
    spec = HttpStreamSpec(m)
    entry = ctx.func(REL, "HttpStream._handle_event")
    res = explore(spec, entry, init_env(), KillOrder())
    ctx.paths += res["transitions"]
    ctx.require(res["states"] >= 40, "HttpStream exploration collapsed")
    ctx.note(f"HttpStream model: {res['states']} states, {res['transitions']} transitions")
    seen = set()
    for v in res["violations"]:
        msg = v["message"]
        if not msg.startswith("R11.3") or msg in seen:
            continue
        seen.add(msg)
        last_ev, last_tr = v["history"][-1]
        ctx.fail("R11.3", (REL, "HttpStream", entry), msg[6:], f"reachable on event {last_ev}: {[e for e in last_tr if e[0] in ('hook', 'send', 'ck', 'getconn')]}", history=v["history"])
    if not seen:
        ctx.ok("R11.3", f"{res['transitions']} transitions: nothing reaches the destination between a message hook and the kill check")
    else:
        ctx.instance("R11.3", f"{res['transitions']} transitions explored")
    # killed path shape
    ck = ctx.func(REL, "HttpStream.check_killed")
    for flag in (True, False):
        eng = Engine(HttpStreamSpec(m))
        finals = eng.finals(ck, State((), init_env()), {"emit_error_hook": C(flag)})
        killed = [f for f in finals if f.get("$ret") == C(True)]
        ctx.require(killed, "check_killed has no killed path")
        for f in killed:
            sends = [e for e in f.trace if e[0] == "send"]
            sets = [e for e in f.trace if e[0] == "set"]
            hooks = [e[1] for e in f.trace if e[0] == "hook"]
            good = (
                sends == [("send", "ResponseProtocolError", "client")]
                and ("set", "self.client_state", "self.state_errored") in sets
                and ("set", "self.server_state", "self.state_errored") in sets
                and ("live", False) in f.trace
                and hooks == (["HttpErrorHook"] if flag else [])
            )
            ctx.check(good, "R11.3", (REL, "HttpStream.check_killed", ck), f"killed path (emit_error_hook={flag})",
                      f"killed path must only tell the client, mark both directions errored and end the flow; got sends={sends} sets={sets} hooks={hooks}", desc=f"killed path shape emit={flag}")
        alive = [f for f in finals if f.get("$ret") == C(False)]
        ctx.check(bool(alive) and all(not [e for e in f.trace if e[0] in ("send", "hook", "set")] for f in alive), "R11.3", (REL, "HttpStream.check_killed", ck), f"not-killed path (emit_error_hook={flag})",
                  "the not-killed path has side effects", desc=f"not-killed path is silent emit={flag}")
    ctx.expect_instances("R11.3", 5)


I = REL
MUTANTS = [
    Mutant("kill-resumes-held-hook", "mitmproxy/flow.py", "        self.error = Error(Error.KILLED_MESSAGE)\n        self.intercepted = False\n", "        self.error = Error(Error.KILLED_MESSAGE)\n        self.resume()\n", "R11.5"),
    Mutant("no-wait-for-resume", MS, "            if isinstance(data, flow.Flow):\n                await data.wait_for_resume()  # pragma: no cover\n", "            pass\n", "R11.1"),
    Mutant("hookcompleted-before-hook", SRV, "        await self.handle_hook(hook)\n        if hook.blocking:\n            await self.server_event(events.HookCompleted(hook))\n",
           "        if hook.blocking:\n            await self.server_event(events.HookCompleted(hook))\n        await self.handle_hook(hook)\n", "R11.1"),
    Mutant("wait-ignores-intercept", "mitmproxy/flow.py", "        if not self.intercepted:\n            return\n        if self._resume_event is None:", "        if self._resume_event is None:\n            return\n        if self._resume_event is None:", "R11.1"),
    Mutant("tcp-send-prehook-data", TCP, "yield commands.SendData(send_to, tcp_message.content)", "yield commands.SendData(send_to, event.data)", "R11.2"),
    Mutant("udp-send-before-hook", UDP, "                yield UdpMessageHook(self.flow)\n                yield commands.SendData(send_to, udp_message.content)\n",
           "                yield commands.SendData(send_to, udp_message.content)\n                yield UdpMessageHook(self.flow)\n", "R11.2"),
    Mutant("ws-fragment-original-content", WS, "for msg in fragmentizer(message.content):", "for msg in fragmentizer(content):", "R11.2"),
    Mutant("dns-pack-original-msg", DNS, "            packed = pack_message(flow.response, flow.client_conn.transport_protocol)", "            packed = pack_message(msg, flow.client_conn.transport_protocol)", "R11.2"),
    Mutant("http-request-no-kill-check", I, "            yield HttpRequestHook(self.flow)\n            if (yield from self.check_killed(True)):\n                return\n            elif self.flow.response:",
           "            yield HttpRequestHook(self.flow)\n            if self.flow.response:", "R11.3"),
    Mutant("http-response-send-before-kill-check", I, "        yield HttpResponseHook(self.flow)\n        self.server_state = self.state_done\n        if (yield from self.check_killed(False)):\n            return\n\n        if not already_streamed:\n            content = self.flow.response.raw_content\n            done_after_headers = not (content or self.flow.response.trailers)\n            yield SendHttp(\n                ResponseHeaders(self.stream_id, self.flow.response, done_after_headers),\n                self.context.client,\n            )\n",
           "        yield HttpResponseHook(self.flow)\n        self.server_state = self.state_done\n        if not already_streamed:\n            content = self.flow.response.raw_content\n            done_after_headers = not (content or self.flow.response.trailers)\n            yield SendHttp(\n                ResponseHeaders(self.stream_id, self.flow.response, done_after_headers),\n                self.context.client,\n            )\n        if (yield from self.check_killed(False)):\n            return\n\n        if not already_streamed:\n", "R11.3"),
    Mutant("killed-still-forwards-to-server", I, "            self.flow.live = False\n            self.client_state = self.server_state = self.state_errored\n            return True\n        return False\n\n    def handle_protocol_error(",
           "            self.flow.live = False\n            self.client_state = self.state_errored\n            return True\n        return False\n\n    def handle_protocol_error(", "R11.3"),
    Mutant("resume-forgets-event", "mitmproxy/flow.py", "            self._resume_event.set()\n", "            pass\n", "R11.5"),
    Mutant("handle-hook-extra-condition", MS, "            if isinstance(data, flow.Flow):\n", "            if isinstance(data, flow.Flow) and data.live:\n", "R11.1"),
    Mutant("hookcompleted-built-and-sent-early", SRV, "        await self.handle_hook(hook)\n        if hook.blocking:\n            await self.server_event(events.HookCompleted(hook))\n",
           "        completed = events.HookCompleted(hook)\n        if hook.blocking:\n            await self.server_event(completed)\n        await self.handle_hook(hook)\n", "R11.1"),
    Mutant("tcp-payload-read-before-hook", TCP, "                yield TcpMessageHook(self.flow)\n                yield commands.SendData(send_to, tcp_message.content)\n",
           "                payload = tcp_message.content\n                yield TcpMessageHook(self.flow)\n                yield commands.SendData(send_to, payload)\n", "R11.2"),
    Mutant("udp-message-never-shown-to-hook", UDP, "                self.flow.messages.append(udp_message)\n", "", "R11.2"),
    Mutant("dns-request-ignores-kill", DNS, "        elif flow.error:\n            yield from self.handle_error(flow, flow.error.msg)\n        elif not self.context.server.address:", "        elif not self.context.server.address:", "R11.4"),
]
