"""Shared helpers for batch A (C02 C04 C05 C06 C08): an atom-driven Spec for the path engine plus small AST utilities.

``ASpec`` lets a rule
  * label statements / conditions with its own alphabet (``label(node, st, spec) -> [event]``),
  * map leaf conditions to *named atoms* (``atom(expr, st, spec) -> (name, polarity) | None``) whose truth is taken from a
    scenario (``scenario[name]`` True/False) or, when absent, forked both ways; every decided/forked atom is recorded in
    the trace as ('cond', name, value),
  * give abstract values to expressions (``val(expr, st, spec) -> value | None``),
  * declare implicit exception edges (``raises(stmt, st, spec) -> [ExcName]``) - a ('caught', ExcName) event is emitted
    when such an exception reaches a handler.
Nothing here imports or executes repository code.
"""

from __future__ import annotations

import ast
from types import SimpleNamespace

from ..core import AnalysisError
from ..core import norm
from ..model import attr_chain
from ..model import eval_order
from ..model import last_attr
from ..model import walk_in_order
from ..paths import C
from ..paths import Engine
from ..paths import is_const
from ..paths import R
from ..paths import Spec
from ..paths import State
from ..paths import UNKNOWN


class ASpec(Spec):
    record_conds = True

    def __init__(self, label=None, atom=None, scenario=None, val=None, raises=None, resolver=None, unroll=1, tracked=(), max_depth=3,
                 keep_other_conds=False, loop_events=False):
        self._label = label
        self._atom = atom
        self.scenario = dict(scenario or {})
        self._val = val
        self._raises = raises
        self._resolver = resolver
        self.unroll = unroll
        self.tracked = tuple(tracked)
        self.max_depth = max_depth
        self.keep_other_conds = keep_other_conds
        self.loop_events = loop_events
        self.problems: list[str] = []

    # ---- labelling
    def events(self, node, st):
        return list(self._label(node, st, self)) if self._label else []

    def cond_event(self, expr, value, st):
        a = self._atom(expr, st, self) if self._atom else None
        if a is not None:
            return ("cond", a[0], value if a[1] else (not value))
        if self.keep_other_conds:
            return ("cond?", norm(expr), value)
        return None

    def loop_event(self, node, entered, st):
        if self.loop_events:
            return ("loop", norm(node.iter), entered)
        return None

    def handler_event(self, h, ename, st):
        return ("caught", ename)

    # ---- values
    def value(self, expr, st, depth):
        if self._val is not None and expr is not None:
            v = self._val(expr, st, self)
            if v is not None:
                return v
        return Spec.value(self, expr, st, depth)

    def truth(self, expr, st, depth):
        # short-circuit aware three-valued evaluation (same results as Spec.truth, but leaves after a definite
        # short-circuit are not evaluated - atoms may record that they were looked at)
        if isinstance(expr, ast.BoolOp):
            is_and = isinstance(expr.op, ast.And)
            unknown = False
            for v in expr.values:
                t = self.truth(v, st, depth)
                if t is None:
                    unknown = True
                elif t is (not is_and):
                    return not is_and
            return None if unknown else is_and
        return Spec.truth(self, expr, st, depth)

    def decide_leaf(self, cond, st, depth):
        a = self._atom(cond, st, self) if self._atom else None
        if a is not None:
            name, pol = a
            if name in self.scenario:
                v = self.scenario[name]
                if v is None:
                    return None
                return v if pol else (not v)
            return None
        return Spec.decide_leaf(self, cond, st, depth)

    # ---- inlining / exceptions
    def inline(self, call, st, depth):
        return self._resolver(call) if self._resolver else None

    def raises_into(self, stmt, handler_names, st):
        if self._raises is None:
            return []
        out = []
        for e in self._raises(stmt, st, self):
            if any(self.isa(e, h) for h in handler_names):
                out.append(e)
        return out

    # frame depth of the statement being evaluated; only maintained by DepthEngine (run_block(depth_aware=True)), 0 otherwise
    _depth = 0

    def v(self, expr, st):
        return self.value(expr, st, self._depth)


class DepthEngine(Engine):
    """Engine that tells the spec the frame depth of the statement / condition it is evaluating (``spec._depth``), so that
    ``ASpec.v`` resolves local names inside inlined helpers in the helper's frame (labels and atoms do not receive the depth)."""

    def stmt(self, node, states, depth):
        old = getattr(self.spec, "_depth", 0)
        self.spec._depth = depth
        try:
            return Engine.stmt(self, node, states, depth)
        finally:
            self.spec._depth = old

    def cond(self, expr, states, depth):
        old = getattr(self.spec, "_depth", 0)
        self.spec._depth = depth
        try:
            return Engine.cond(self, expr, states, depth)
        finally:
            self.spec._depth = old


def run_block(stmts, spec, bindings=None, init_env=None, depth_aware=False):
    """Terminal (trace, how, state) triples of a statement list (treated as a function body)."""
    eng = DepthEngine(spec) if depth_aware else Engine(spec)
    fn = SimpleNamespace(body=list(stmts))
    o = eng.run(fn, State((), dict(init_env or {})), bindings)
    out = []
    for s in o.ret:
        out.append((s.trace, "return", s))
    for s in o.exc:
        e = s.get("$exc")
        out.append((s.trace, "raise:" + (e[1] if is_const(e) else "?"), s))
    return out, eng


def params_of(fn) -> list[str]:
    ps = [a.arg for a in fn.args.posonlyargs + fn.args.args]
    if ps and ps[0] in ("self", "cls"):
        ps = ps[1:]
    return ps + [a.arg for a in fn.args.kwonlyargs]


def param_bindings(fn) -> dict:
    return {p: ("param", p) for p in params_of(fn)}


def is_self_call(call, name: str) -> bool:
    """``self.<name>(...)`` (name may be written with its private double underscore)."""
    f = call.func
    return isinstance(call, ast.Call) and isinstance(f, ast.Attribute) and isinstance(f.value, ast.Name) and f.value.id == "self" and f.attr == name


def method_call_on(call, chain: str) -> str:
    """'append' for ``<chain>.append(...)``, '' otherwise."""
    if isinstance(call, ast.Call) and isinstance(call.func, ast.Attribute) and attr_chain(call.func.value) == chain:
        return call.func.attr
    return ""


def isinstance_of(expr):
    """(subject_expr, [class last names]) for ``isinstance(x, A)`` / ``isinstance(x, (A, B))``; else None."""
    if isinstance(expr, ast.Call) and isinstance(expr.func, ast.Name) and expr.func.id == "isinstance" and len(expr.args) == 2:
        t = expr.args[1]
        names = [last_attr(e) for e in t.elts] if isinstance(t, ast.Tuple) else [last_attr(t)]
        return expr.args[0], names
    return None


def truthiness_atom(expr, chain: str):
    """polarity of a leaf testing truthiness / None-ness of ``chain``: `chain`, `chain is not None` -> True;
    `chain is None` -> False; `len(chain)`, `len(chain) > 0`, `len(chain) != 0` -> True; `len(chain) == 0` -> False; else None."""
    if attr_chain(expr) == chain:
        return True
    if isinstance(expr, ast.Call) and isinstance(expr.func, ast.Name) and expr.func.id in ("len", "bool") and len(expr.args) == 1 and attr_chain(expr.args[0]) == chain:
        return True
    if isinstance(expr, ast.Compare) and len(expr.ops) == 1:
        l, r, op = expr.left, expr.comparators[0], expr.ops[0]
        if attr_chain(l) == chain and isinstance(r, ast.Constant) and r.value is None:
            if isinstance(op, ast.IsNot) or isinstance(op, ast.NotEq):
                return True
            if isinstance(op, ast.Is) or isinstance(op, ast.Eq):
                return False
        if isinstance(l, ast.Call) and isinstance(l.func, ast.Name) and l.func.id == "len" and len(l.args) == 1 and attr_chain(l.args[0]) == chain and isinstance(r, ast.Constant) and r.value == 0:
            if isinstance(op, (ast.Gt, ast.NotEq)):
                return True
            if isinstance(op, ast.Eq):
                return False
    return None


def isinstance_names(expr):
    """Like ``isinstance_of`` but also understands ``isinstance(x, A | B)`` and nested tuples: (subject_expr, [class last names]) or None."""
    if isinstance(expr, ast.Call) and isinstance(expr.func, ast.Name) and expr.func.id == "isinstance" and len(expr.args) == 2 and not expr.keywords:
        def names(t):
            if isinstance(t, ast.Tuple):
                return [n for e in t.elts for n in names(e)]
            if isinstance(t, ast.BinOp) and isinstance(t.op, ast.BitOr):
                return names(t.left) + names(t.right)
            n = last_attr(t)
            return [n] if n else ["?"]
        return expr.args[0], names(expr.args[1])
    return None


def truthiness_of(expr, pred):
    """Value-based variant of ``truthiness_atom``: polarity of a leaf testing truthiness / None-ness / emptiness of the object for which
    ``pred(node)`` holds (`x`, `bool(x)`, `len(x)`, `x is not None`, `x != None`, `len(x) > 0`, `len(x) != 0`, `len(x) >= 1`,
    `0 < len(x)` -> True; `x is None`, `x == None`, `len(x) == 0`, `len(x) < 1`, `0 == len(x)` -> False; anything else None)."""
    def is_len(e):
        return isinstance(e, ast.Call) and isinstance(e.func, ast.Name) and e.func.id == "len" and len(e.args) == 1 and not e.keywords and pred(e.args[0])

    if pred(expr):
        return True
    if isinstance(expr, ast.Call) and isinstance(expr.func, ast.Name) and expr.func.id == "bool" and len(expr.args) == 1 and not expr.keywords:
        return truthiness_of(expr.args[0], pred)
    if is_len(expr):
        return True
    if isinstance(expr, ast.Compare) and len(expr.ops) == 1:
        l, r, op = expr.left, expr.comparators[0], expr.ops[0]
        if pred(l) and isinstance(r, ast.Constant) and r.value is None:
            if isinstance(op, (ast.IsNot, ast.NotEq)):
                return True
            if isinstance(op, (ast.Is, ast.Eq)):
                return False
        if isinstance(l, ast.Constant) and is_len(r):  # constant on the left: mirror the comparison
            mirror = {ast.Lt: ast.Gt, ast.Gt: ast.Lt, ast.LtE: ast.GtE, ast.GtE: ast.LtE, ast.Eq: ast.Eq, ast.NotEq: ast.NotEq}
            m = mirror.get(type(op))
            if m is None:
                return None
            l, r, op = r, l, m()
        if is_len(l) and isinstance(r, ast.Constant) and type(r.value) is int:
            if r.value == 0:
                if isinstance(op, (ast.Gt, ast.NotEq)):
                    return True
                if isinstance(op, (ast.Eq, ast.LtE)):
                    return False
            if r.value == 1:
                if isinstance(op, ast.GtE):
                    return True
                if isinstance(op, ast.Lt):
                    return False
    return None


def method_on(call, is_subject) -> str:
    """'append' for ``<subject>.append(...)`` where ``is_subject(receiver_expr)`` holds, '' otherwise."""
    if isinstance(call, ast.Call) and isinstance(call.func, ast.Attribute) and is_subject(call.func.value):
        return call.func.attr
    return ""


def compare_pair(expr, ops):
    """(left, right, op) for a single-operator Compare whose operator is an instance of ``ops``."""
    if isinstance(expr, ast.Compare) and len(expr.ops) == 1 and isinstance(expr.ops[0], ops):
        return expr.left, expr.comparators[0], expr.ops[0]
    return None


def show(trace) -> str:
    return " ".join("(" + ",".join(str(x) for x in e) + ")" for e in trace)


def proj(trace, kinds) -> tuple:
    return tuple(e for e in trace if e[0] in kinds)


def loops_over(fn, pred):
    """For-loops in ``fn`` (source order) whose iterable satisfies ``pred(iter_expr)``."""
    return [n for n in walk_in_order(fn) if isinstance(n, (ast.For, ast.AsyncFor)) and pred(n.iter)]


def dataclass_fields(cls: ast.ClassDef) -> list[str]:
    """Annotated names declared directly in the class body (dataclass fields), ClassVar excluded."""
    out = []
    for st in cls.body:
        if isinstance(st, ast.AnnAssign) and isinstance(st.target, ast.Name):
            if "ClassVar" in ast.unparse(st.annotation):
                continue
            out.append(st.target.id)
    return out


class SeqPatterns:
    """Mixin for ``pyint.Interp`` subclasses: ``match`` sequence patterns with a star (``case [first, *rest]``) and mapping patterns
    (``case {"k": v, **rest}``), which the core interpreter does not model (it answers a starred sequence pattern with "no match"
    whenever the subject's length differs from the number of sub-patterns).  Semantics as in PEP 634; str / bytes are no sequences."""

    def match(self, pat, subj, env, mod, depth) -> bool:
        if isinstance(pat, ast.MatchSequence) and any(isinstance(p, ast.MatchStar) for p in pat.patterns):
            if not isinstance(subj, (list, tuple)):
                return False
            stars = [i for i, p in enumerate(pat.patterns) if isinstance(p, ast.MatchStar)]
            if len(stars) != 1:
                raise AnalysisError("pyint: several starred sub-patterns in one sequence pattern")
            i = stars[0]
            tail = len(pat.patterns) - i - 1
            if len(subj) < len(pat.patterns) - 1:
                return False
            head_s, mid, tail_s = subj[:i], subj[i:len(subj) - tail], subj[len(subj) - tail:] if tail else []
            for p, s in list(zip(pat.patterns[:i], head_s)) + list(zip(pat.patterns[i + 1:], tail_s)):
                if not self.match(p, s, env, mod, depth):
                    return False
            if pat.patterns[i].name:
                env[pat.patterns[i].name] = list(mid)
            return True
        if isinstance(pat, ast.MatchMapping):
            if not isinstance(subj, dict):
                return False
            keys = [self.ev(k, env, mod, depth) for k in pat.keys]
            for k, p in zip(keys, pat.patterns):
                if k not in subj or not self.match(p, subj[k], env, mod, depth):
                    return False
            if pat.rest:
                env[pat.rest] = {k: v for k, v in subj.items() if k not in keys}
            return True
        return super().match(pat, subj, env, mod, depth)
