"""C23 - mitmproxy never proxies a connection back to its own listening sockets.

Every statement about the addon's decision rests on *interpreting* the method ``ServerConnectHook`` dispatches to on
``Proxyserver`` (``mitmlint/pyint.py``: helper functions / methods, ``any()`` over generators, early ``continue`` / ``return``,
walrus, try/except/else ... are followed by the interpreter; ``ipaddress`` and the str methods are the checker's own Python =
trusted base).  No rule looks at the shape of the code, at names of locals or at names of helper functions; the helper that
classifies the host is identified (for the evidence only) by its role: the function from which ``ipaddress`` is called.

Decided:
  R23.1 one listener (transport, listen host, listen port) x one connection (destination spelling, port, transport):
        {localhost in any case / with trailing dot, 127.0.0.0/8, ::1, IPv4-mapped loopback, 0.0.0.0, ::, the listen host itself,
         unrelated names and addresses} x {listen hosts} x {port equal?} x {tcp, udp, both} x {tcp, udp}:
        refused  <=>  port equal and (listener transport == connection transport or listener transport == "both") and
        (destination equals the listen host, is an unspecified address, or is a loopback name/address while the listener is bound
        to a loopback or unspecified address).  Loopback spellings while listening on one specific non-loopback interface are
        not decided (the property allows either).  A decision by membership of the raw string in a finite tuple of literals
        (F-C23, repaired) differs on 127.0.0.2, LOCALHOST, "localhost.", ::ffff:127.0.0.1, 0.0.0.0 and is reported.
        No cell may raise (an escaping ValueError would disable the guard for that destination).
  R23.2 a destination equal to the k-th listen address of the i-th listener ends with ``data.server.error`` = a non-empty str,
        for every position (i, k) (all listeners and all their addresses are examined, a hit is never undone);
        ``ConnectionHandler.open_connection`` awaits ServerConnectHook, then tests the error and answers ServerConnectErrorHook +
        OpenConnectionCompleted(err) + return before any socket is opened; the hook data's ``server`` is the connection being
        opened; ``Proxyserver`` is a default addon and implements the method ServerConnectHook dispatches to.
  R23.3 the same decision over representative multi-listener configurations (mixed transports, several listen addresses).
NOT decided: destinations that reach a listener through DNS or through one of the machine's own non-loopback addresses
while listening on all interfaces; textual variants of an explicit listen host (the property does not demand them).
"""

from __future__ import annotations

import ast
import ipaddress

from ..core import AnalysisError
from ..core import norm
from ..model import last_attr
from ..model import walk_in_order
from ..paths import GenericSpec
from ..paths import traces_of
from ..pyint import Func
from ..pyint import Interp
from ..pyint import Raised
from ..pyint import Rec
from ..selftest import Mutant
from ._helpers_C import default_addon_order
from ._helpers_C import hook_method_sem

PROP = "C23"
REG = {
    "strength": "partial",
    "technique": "decision-table extraction by AST interpretation: the addon method ServerConnectHook dispatches to is interpreted "
    "(helpers followed, ipaddress trusted) over destination spellings x listener configurations x port/transport agreement and "
    "compared with a reference computed by the checker + CFG path enumeration of open_connection",
    "claim": "the hook refuses (sets a non-empty data.server.error) exactly when port and transport agree and the destination is the "
    "listen host, an unspecified address, or a loopback name/address while listening on loopback / all interfaces, for every "
    "representative spelling class the property names and every listener position; open_connection refuses before opening a socket.",
    "note": "str methods and the ipaddress module are evaluated by the checker's Python (trusted); spelling classes are sampled by "
    "representatives, not enumerated; own non-loopback addresses / DNS names are out of scope.",
}

PS = "mitmproxy/addons/proxyserver.py"
SERVER = "mitmproxy/proxy/server.py"
HOOKF = "mitmproxy/proxy/server_hooks.py"
ADDON = "Proxyserver"

LOOPBACK_DESTS = [
    "localhost", "LOCALHOST", "LocalHost", "localhost.", "LOCALHOST.",
    "127.0.0.1", "127.0.0.2", "127.255.255.254", "::1", "0:0:0:0:0:0:0:1",
    "::ffff:127.0.0.1", "::ffff:127.8.9.10",
]
WILDCARD_DESTS = ["0.0.0.0", "::"]
LOCAL_DESTS = LOOPBACK_DESTS + WILDCARD_DESTS
REMOTE_DESTS = [
    "example.com", "localhost.example.com", "notlocalhost", "198.51.100.7", "128.0.0.1", "126.255.255.255", "1.0.0.127",
    "2001:db8::1", "::2", "::ffff:198.51.100.7",
]
LISTEN_HOSTS = ["127.0.0.1", "0.0.0.0", "::", "::1", "192.0.2.1", "2001:db8::5"]
MESSAGE_OK = "data.server.error = <non-empty message>"
LOOPS_OK = "loops over servers x listen addresses are left early only after a hit"


# ------------------------------------------------------------------------------------------------ the interpreted world
class _Log:
    """Stand-in for ``logging`` / a logger: every method accepts anything and does nothing."""

    def __getattr__(self, name):
        def sink(*a, **k):
            return _LOG

        sink._log_stub = True
        return sink


_LOG = _Log()


class _MemoModel:
    """Read-only view of the parsed program that remembers class linearisations and method lookups (the tree does not change during
    a run; the interpreter asks for the same ones in every table cell)."""

    def __init__(self, model):
        self._model = model
        self._mro: dict = {}
        self._method: dict = {}

    def __getattr__(self, name):
        return getattr(self._model, name)

    def mro(self, rel, qual):
        k = (rel, qual)
        if k not in self._mro:
            self._mro[k] = self._model.mro(rel, qual)
        return list(self._mro[k])

    def method(self, rel, cls, name):
        k = (rel, cls, name)
        if k not in self._method:
            self._method[k] = self._model.method(rel, cls, name)
        return self._method[k]


class Probe(Interp):
    """pyint with (a) a record of the repository functions it went through and of those that consult ``ipaddress`` (role of the
    host classifier, whatever its name) and (b) logging calls that tolerate abstract arguments."""

    def __init__(self, model):
        super().__init__(model, trusted_modules={"ipaddress": ipaddress, "logging": _LOG})
        self.stack: list = []
        self.reached: set = set()
        self.classifiers: set = set()

    def call_func(self, f, args, kwargs, depth):
        key = (f.mod.rel, getattr(f.node, "_qual", None) or getattr(f.node, "name", "<lambda>"))
        self.reached.add(key)
        self.stack.append(key)
        try:
            return super().call_func(f, args, kwargs, depth)
        finally:
            self.stack.pop()

    def native_call(self, f, args, kwargs, where):
        if getattr(f, "_log_stub", False):
            return _LOG
        if getattr(f, "__module__", None) == "ipaddress" and self.stack:
            self.classifiers.add(self.stack[-1])
        return super().native_call(f, args, kwargs, where)


class World:
    """One Proxyserver addon with the given listeners; ``connect`` interprets the ServerConnectHook method for one upstream
    connection and reports what became of ``data.server.error``."""

    def __init__(self, ctx):
        self.ctx = ctx
        self.meth = hook_method_sem(ctx, HOOKF, "ServerConnectHook")
        r = ctx.model.method(PS, ADDON, self.meth)
        ctx.require(r is not None, f"{ADDON} (and its bases) no longer implement {self.meth}(), the method ServerConnectHook dispatches to")
        self.mod, self.fn = r
        self.qual = getattr(self.fn, "_qual", f"{ADDON}.{self.meth}")
        ctx.functions.add(f"{self.mod.rel}::{self.qual}")
        self.where = (self.mod.rel, self.qual, self.fn)
        self.reached: set = set()
        self.classifiers: set = set()
        self.cells = 0
        self.model = _MemoModel(ctx.model)

    @staticmethod
    def sockname(host, port):
        return (host, port, 0, 0) if ":" in host else (host, port)

    def connect(self, listeners, host, port, tp):
        """listeners: [(mode transport, [(listen host, listen port), ...]), ...] -> (outcome, error value, values written to .error)
        with outcome 'ok' | 'raises <Exc>'."""
        it = Probe(self.model)  # module-level `logger = logging.getLogger(...)` evaluates to the stand-in by itself
        me = Rec(ADDON, _impl=(PS, ADDON), _name="self", _connect_addr=None, is_running=True, connections={}, servers=[])
        for i, (mtp, addrs) in enumerate(listeners):
            lh, lp = addrs[0]
            mode = Rec("ProxyMode", _name=f"servers[{i}].mode", transport_protocol=mtp, full_spec=f"mode{i}@{lh}:{lp}", type_name=f"mode{i}",
                       description=f"listener {i}", data="", custom_listen_host=lh, custom_listen_port=lp)
            me.servers.append(Rec("ServerInstance", _name=f"servers[{i}]", mode=mode, manager=me, is_running=True, last_exception=None,
                                  listen_addrs=tuple(self.sockname(h, p) for h, p in addrs)))
        srv = Rec("Server", _bases=("Connection",), _name="data.server",
                  address=(host, port), peername=None, sockname=None, transport_protocol=tp, error=None, via=None, sni=None, tls=False,
                  alpn=None, alpn_offers=(), certificate_list=(), cipher=None, cipher_list=(), tls_version=None, id="srv-1",
                  timestamp_start=None, timestamp_end=None, timestamp_tcp_setup=None, timestamp_tls_setup=None)
        cli = Rec("Client", _bases=("Connection",), _name="data.client", peername=("192.0.2.7", 50000), sockname=("127.0.0.1", 8080),
                  transport_protocol=tp, error=None, tls=False, sni=None, alpn=None, id="cli-1", proxy_mode=me.servers[0].mode if me.servers else None)
        data = Rec("ServerConnectionHookData", _name="data", server=srv, client=cli)
        try:
            it.apply(Func(self.mod, self.fn, bound=me), [data], {}, 0)  # = it.method(me, self.meth, data), the MRO lookup done once
            how = "ok"
        except Raised as r:
            how = f"raises {r.name}"
        self.cells += 1
        self.reached |= it.reached
        self.classifiers |= it.classifiers
        written = [v for (name, kind, key, v) in it.writes if name == "data.server" and kind == "attr" and key == "error"]
        return how, srv.error, written

    def refused(self, listeners, host, port, tp):
        how, err, _ = self.connect(listeners, host, port, tp)
        return bool(err) if how == "ok" else how

    def report(self):
        ctx = self.ctx
        for rel, q in sorted(self.reached):
            ctx.functions.add(f"{rel}::{q}")
        ctx.sample({"interpreted": sorted(f"{rel}::{q}" for rel, q in self.reached),
                    "host classifier (by role: calls into ipaddress)": sorted(f"{rel}::{q}" for rel, q in self.classifiers)})


def loopbackish(listen_host: str) -> bool:
    ip = ipaddress.ip_address(listen_host)
    return ip.is_loopback or ip.is_unspecified


def must_refuse(listeners, host, port, tp):
    """True = must refuse, False = must not refuse, None = not decided by the property (reference, computed by the checker)."""
    verdict = False
    for mtp, addrs in listeners:
        if mtp not in (tp, "both"):
            continue
        for lh, lp in addrs:
            if lp != port:
                continue
            if host == lh or host in WILDCARD_DESTS:
                return True
            if host in LOOPBACK_DESTS:
                if loopbackish(lh):
                    return True
                verdict = None  # loopback spelling while listening on one specific interface: over-refusal is allowed
    return verdict


# ------------------------------------------------------------------------------------------------ R23.1
TRANSPORTS = [("tcp", "tcp"), ("udp", "udp"), ("tcp", "udp"), ("udp", "tcp"), ("both", "tcp"), ("both", "udp")]


def r23_1(ctx, w: World):
    mism = {}
    probs = {}
    n0 = w.cells
    for listen in LISTEN_HOSTS:
        for dest in LOCAL_DESTS + REMOTE_DESTS + [listen]:
            for port_eq in (True, False):
                agree = {}
                for ltp, ctp in TRANSPORTS if port_eq else TRANSPORTS[:1] + TRANSPORTS[-1:]:
                    listeners = [(ltp, [(listen, 8080 if port_eq else 9090)])]
                    want = must_refuse(listeners, dest, 8080, ctp)
                    if want is None:
                        continue
                    got = w.refused(listeners, dest, 8080, ctp)
                    agree[ltp, ctp] = got == want
                    if got == want:
                        continue
                    if isinstance(got, str):
                        probs.setdefault((dest, got), (listen, port_eq, ltp, ctp))
                    elif port_eq and ltp in (ctp, "both") and not (ltp == "both" and agree.get((ctp, ctp))):
                        mism.setdefault((dest if dest != listen or dest in LOCAL_DESTS else "<listen host>", got), listen)
                    else:
                        mism.setdefault((f"port_equal={port_eq} listener transport={ltp} connection transport={ctp}", got), (dest, listen))
    n = w.cells - n0
    ctx.cells += n
    for (what, got), info in sorted(mism.items(), key=str):
        if what.startswith("port_equal"):
            ctx.fail("R23.1", w.where, f"hit={got} with {what}", f"port and transport must both agree for a self-connect, and a listener of transport 'both' serves tcp and udp (e.g. destination/listen {info})")
        else:
            ctx.fail("R23.1", w.where, f"destination {what!r}: hit={got}", f"expected {not got} (listen host {info!r}, same port and transport): "
                     + ("a destination denoting the own listener is not recognised, the proxy connects to itself" if not got else "an unrelated destination is refused as self-connect"))
    for (dest, p), info in sorted(probs.items()):
        ctx.fail("R23.1", w.where, f"destination {dest!r}: {p}", f"the hook raises instead of deciding: the guard is off for this destination (listen host / port equal / transports: {info})")
    if not mism and not probs:
        ctx.ok("R23.1", f"self-connect decision: {n} cells ({len(LOCAL_DESTS)} local + {len(REMOTE_DESTS)} remote spellings + listen host) x {len(LISTEN_HOSTS)} listen hosts x port x transports agree")


class Aliases:
    """Resolves an expression of one function to a canonical attribute chain through local single-purpose temporaries
    (``conn = command.connection``; ``err = conn.error``; ``(err := ...)``): a name stands for the value of its last assignment that
    textually precedes the use, provided that assignment is a statement of a block enclosing the use (so it dominates the use) and the
    name is not re-assigned in between."""

    def __init__(self, fn):
        self.fn = fn
        self.params = {a.arg for a in fn.args.posonlyargs + fn.args.args + fn.args.kwonlyargs}
        self.defs: dict = {}
        for n in ast.walk(fn):
            if isinstance(n, ast.Assign) and len(n.targets) == 1 and isinstance(n.targets[0], ast.Name):
                self.defs.setdefault(n.targets[0].id, []).append((n, n.value))
            elif isinstance(n, ast.AnnAssign) and isinstance(n.target, ast.Name) and n.value is not None:
                self.defs.setdefault(n.target.id, []).append((n, n.value))
            elif isinstance(n, ast.NamedExpr) and isinstance(n.target, ast.Name):
                self.defs.setdefault(n.target.id, []).append((n, n.value))
            elif isinstance(n, (ast.Assign, ast.AugAssign, ast.For, ast.AsyncFor, ast.With, ast.AsyncWith, ast.ExceptHandler)):
                # any other way of binding a name: the name is not a plain temporary
                tg = n.targets if isinstance(n, ast.Assign) else [n.target] if hasattr(n, "target") else [i.optional_vars for i in getattr(n, "items", []) if i.optional_vars is not None]
                for t in tg:
                    for x in ast.walk(t):
                        if isinstance(x, ast.Name) and isinstance(x.ctx, ast.Store):
                            self.defs.setdefault(x.id, []).append((n, None))
                if isinstance(n, ast.ExceptHandler) and n.name:
                    self.defs.setdefault(n.name, []).append((n, None))

    @staticmethod
    def pos(n):
        return (n.lineno, n.col_offset)

    @staticmethod
    def enclosing_blocks(node):
        """ids of the statements that enclose ``node`` (including its own statement)"""
        out, n = set(), node
        while n is not None and not isinstance(n, (ast.FunctionDef, ast.AsyncFunctionDef, ast.Lambda)):
            if isinstance(n, ast.stmt):
                out.add(id(getattr(n, "_parent", None)))
            n = getattr(n, "_parent", None)
        return out

    def resolve(self, expr, at=None):
        """-> (canonical chain | None, the expression node at which the value is actually read)"""
        at = at if at is not None else expr
        if isinstance(expr, ast.NamedExpr):
            return self.resolve(expr.value, at)
        if isinstance(expr, ast.Attribute):
            base, _ = self.resolve(expr.value, at)
            return (f"{base}.{expr.attr}" if base else None), expr
        if isinstance(expr, ast.Name):
            if expr.id not in self.defs:
                return (expr.id if expr.id in self.params else None), expr
            before = [(d, v) for d, v in self.defs[expr.id] if self.pos(d) < self.pos(at)]
            if not before:
                return (expr.id if expr.id in self.params else None), expr
            d, v = max(before, key=lambda dv: self.pos(dv[0]))
            if v is None:
                return None, expr
            stmt = d
            while not isinstance(stmt, ast.stmt):
                stmt = stmt._parent
            if id(getattr(stmt, "_parent", None)) not in self.enclosing_blocks(at):
                return None, expr  # assigned on some paths only
            return self.resolve(v, d)
        return None, expr

    def chain(self, expr, at=None):
        return self.resolve(expr, at)[0]


class ConnSpec(GenericSpec):
    """open_connection projected onto: hook constructions, awaits, the error test, socket opening calls, completion events."""

    OPEN = ("open_connection", "open_udp_connection", "create_connection", "open_unix_connection")

    ANCHORS = ("handle_hook", "server_event", "log")

    def __init__(self, fn, error_chain, model=None, owner=None):
        def keep(ev):
            if ev[0] == "call":
                last = ev[1].split(".")[-1]
                return last in ("ServerConnectHook", "ServerConnectErrorHook", "OpenConnectionCompleted") or (last in self.OPEN and ev[1] != "self.open_connection")
            if ev[0] == "await":
                return ev[1].split(".")[-1] in ("handle_hook", "server_event") + self.OPEN
            return ev[0] in ("return", "errread")

        def resolver(call):
            # private helper methods of the handler that carry part of the refusal / opening sequence are followed
            f = call.func
            if model is None or not (isinstance(f, ast.Attribute) and isinstance(f.value, ast.Name) and f.value.id == "self") or f.attr in self.ANCHORS or f.attr == fn.name:
                return None
            r = model.method(*owner, f.attr)
            if r is None:
                return None
            names = {last_attr(c.func) for c in ast.walk(r[1]) if isinstance(c, ast.Call)}
            if names & ({"ServerConnectHook", "ServerConnectErrorHook", "OpenConnectionCompleted"} | set(self.OPEN)):
                return r[1]
            return None

        super().__init__(keep=keep, resolver=resolver, record_conds=True)
        self.fn = fn
        self.al = Aliases(fn)
        self.error_chain = error_chain

    def is_err(self, e, at):
        return self.al.chain(e, at) == self.error_chain

    def owned(self, node):
        while node is not None and not isinstance(node, (ast.FunctionDef, ast.AsyncFunctionDef)):
            node = getattr(node, "_parent", None)
        return node is self.fn

    def events(self, node, st):
        """... plus ('errread', line, col) wherever <command>.connection.error is read: the test must be on a value read after the hook"""
        out = list(super().events(node, st))
        leaf = self.error_chain.rsplit(".", 1)[1]
        for n in ast.walk(node):
            if isinstance(n, ast.Attribute) and n.attr == leaf and isinstance(n.ctx, ast.Load) and self.owned(n) and self.is_err(n, n):
                out.append(("errread", n.lineno, n.col_offset))
        return out

    def cond_event(self, expr, value, st):
        """A branch on the truth of the connection error, in any of the spellings  e | (x := e) | bool(e) | e is [not] None | e !=/== None
        where e reads <command>.connection.error directly or through local temporaries."""
        if not self.owned(expr):
            return None  # a condition inside a followed helper
        e, pos = expr, True
        if isinstance(e, ast.Compare) and len(e.ops) == 1 and isinstance(e.comparators[0], ast.Constant) and e.comparators[0].value is None and isinstance(e.ops[0], (ast.Is, ast.IsNot, ast.Eq, ast.NotEq)):
            pos = isinstance(e.ops[0], (ast.IsNot, ast.NotEq))  # R23.2(a): the addon writes a non-empty str, so "is not None" and truthiness agree on a refusal
            e = e.left
        elif isinstance(e, ast.Call) and isinstance(e.func, ast.Name) and e.func.id == "bool" and len(e.args) == 1 and not e.keywords:
            e = e.args[0]
        if self.is_err(e, expr):
            origin = self.al.resolve(e, expr)[1]
            return ("err", value if pos else not value, origin.lineno, origin.col_offset)
        for n in ast.walk(expr):
            if isinstance(n, (ast.Name, ast.Attribute)) and self.is_err(n, expr):
                raise AnalysisError(f"open_connection: unmodelled test of the connection error: {norm(expr)}")
        return None


# ------------------------------------------------------------------------------------------------ R23.2
def r23_2a(ctx, w: World):
    """(a) every listener position is examined and a hit leaves a non-empty message behind."""
    layouts = {
        "same host, distinct ports": [("tcp", [("127.0.0.1", 8000 + 10 * i + k) for k in range(2)]) for i in range(3)],
        "same port, distinct hosts": [("tcp", [(f"192.0.2.{1 + 2 * i + k}", 8080) for k in range(2)]) for i in range(3)],
        "ipv6 after ipv4": [("udp", [("198.51.100.1", 5353), ("2001:db8::5", 5353)]), ("udp", [("203.0.113.9", 5353), ("2001:db8::9", 5353)])],
    }
    n0 = w.cells
    unreached, badmsg, raised = [], [], []
    for lname, listeners in layouts.items():
        for i, (mtp, addrs) in enumerate(listeners):
            for k, (lh, lp) in enumerate(addrs):
                how, err, written = w.connect(listeners, lh, lp, mtp)
                cell = f"{lname}: listener #{i} address #{k} ({lh}:{lp})"
                if how != "ok":
                    raised.append(f"{cell}: {how}")
                elif isinstance(err, str) and err:
                    continue
                elif any(v is not None for v in written):
                    badmsg.append(f"{cell}: error ends as {err!r} after writes {written!r}")
                else:
                    unreached.append(cell)
    ctx.cells += w.cells - n0
    ctx.check(not badmsg and not raised, "R23.2", w.where, MESSAGE_OK,
              "the value left in data.server.error on a hit is not a non-empty string (or the hook raises): open_connection would not refuse; " + "; ".join((badmsg + raised)[:4]),
              desc="a hit leaves a non-empty error message behind (every listener position)")
    ctx.check(not unreached, "R23.2", w.where, LOOPS_OK,
              "a destination equal to a listen address is not refused: the scan over listeners x listen addresses stops early or skips entries; " + "; ".join(unreached[:4]),
              desc=f"{w.qual}: {w.cells - n0} listener positions (server i, address k) each lead to the refusal")


def r23_2b(ctx):
    # (b) open_connection refuses before opening
    oc = ctx.func(SERVER, "ConnectionHandler.open_connection")
    wh = (SERVER, "ConnectionHandler.open_connection", oc)
    hd = [c for c in walk_in_order(oc) if isinstance(c, ast.Call) and last_attr(c.func) == "ServerConnectionHookData"]
    ctx.require(len(hd) == 1, "open_connection no longer builds one ServerConnectionHookData")
    params = [a.arg for a in oc.args.args]
    ctx.require(len(params) == 2 and params[0] == "self", f"open_connection: unexpected signature {params}")
    conn_chain = f"{params[1]}.connection"
    spec = ConnSpec(oc, f"{conn_chain}.error", ctx.model, (SERVER, "ConnectionHandler"))
    kw = {k.arg: spec.al.chain(k.value) for k in hd[0].keywords}
    if len(hd[0].args) <= 2 and all(k.arg for k in hd[0].keywords):
        fields = [s.target.id for s in ctx.model.cls(HOOKF, "ServerConnectionHookData").body if isinstance(s, ast.AnnAssign)]
        kw.update(zip(fields, [spec.al.chain(a) for a in hd[0].args]))
    ctx.check(kw.get("server") == conn_chain, "R23.2", wh, "ServerConnectionHookData(server=command.connection)",
              "the hook does not see the connection that is about to be opened", desc="hook data server = command.connection")
    traces, _ = traces_of(oc, spec)
    ctx.paths += len(traces)
    is_open = lambda e: e[0] in ("call", "await") and e[1].split(".")[-1] in spec.OPEN  # noqa: E731
    badm = {}
    n_ref = n_go = 0
    for tr, how, _ in traces:
        ih = next((i for i, e in enumerate(tr) if e[0] == "call" and e[1].endswith("ServerConnectHook")), -1)
        ia = next((i for i, e in enumerate(tr) if i > ih >= 0 and e == ("await", "self.handle_hook")), -1)
        ie = next((i for i, e in enumerate(tr) if e[0] == "err"), -1)
        opens = [i for i, e in enumerate(tr) if is_open(e)]
        if ie >= 0:
            n_ref += bool(tr[ie][1])
            n_go += not tr[ie][1]
        if opens and (ie < 0 or min(opens) < ie):
            badm.setdefault("a socket is opened without a preceding test of connection.error", tr)
            continue
        ir = max((i for i, e in enumerate(tr[: max(ie, 0)]) if e[0] == "errread" and e[1:] == tr[ie][2:]), default=-1) if ie >= 0 else -1
        if ie >= 0 and not (0 <= ih < ia < ir < ie):
            badm.setdefault("connection.error is tested before the server_connect hook has been awaited", tr)
            continue
        if ie >= 0 and tr[ie][1]:
            rest = tr[ie:]
            if opens:
                badm.setdefault("a socket is opened although connection.error is set", tr)
            if not any(e[0] == "call" and e[1].endswith("ServerConnectErrorHook") for e in rest):
                badm.setdefault("refused connection does not fire ServerConnectErrorHook", tr)
            if not any(e[0] == "call" and e[1].endswith("OpenConnectionCompleted") for e in rest):
                badm.setdefault("refused connection is not completed with OpenConnectionCompleted(err)", tr)
    for msg, tr in sorted(badm.items()):
        ctx.fail("R23.2", wh, msg, "a self-connect refused by the addon is opened anyway / not reported to the layer", trace=[list(e) for e in tr])
    ctx.require(n_ref >= 1 and n_go >= 1 or badm, f"open_connection: no path tests {conn_chain}.error (anchor changed shape)")
    if not badm:
        ctx.ok("R23.2", f"open_connection: {len(traces)} paths; hook awaited < error test < socket open; refusal => ServerConnectErrorHook + OpenConnectionCompleted, no socket")


def r23_2c(ctx):
    # (c) registration (that the addon implements the method the hook dispatches to is required by World)
    order = default_addon_order(ctx)
    ctx.check(ADDON in order, "R23.2", ("mitmproxy/addons/__init__.py", "default_addons", 0), "proxyserver.Proxyserver() in default_addons",
              "the addon carrying the self-connect guard is not loaded", desc="Proxyserver() in default_addons")


# ------------------------------------------------------------------------------------------------ R23.3
def r23_3(ctx, w: World):
    """The decision over representative multi-listener configurations x destination spellings x ports x transports."""
    LOOP = ["localhost", "LOCALHOST", "localhost.", "127.0.0.1", "127.0.0.2", "127.255.255.254", "::1", "0:0:0:0:0:0:0:1", "::ffff:127.0.0.1"]
    REMOTE = ["example.com", "93.184.216.34", "2606:2800:220:1::1", "localhost.example.com", "10.0.0.9"]
    # listener configurations: list of (mode transport, [(listen_host, listen_port)])
    CONFIGS = {
        "tcp@127.0.0.1:8080": [("tcp", [("127.0.0.1", 8080)])],
        "tcp@[::]:8080+0.0.0.0:8080": [("tcp", [("::", 8080), ("0.0.0.0", 8080)])],
        "tcp@192.168.1.5:8080": [("tcp", [("192.168.1.5", 8080)])],
        "udp@127.0.0.1:8080 then tcp@127.0.0.1:8080": [("udp", [("127.0.0.1", 8080)]), ("tcp", [("127.0.0.1", 8080)])],
        "tcp@127.0.0.1:8080 then udp@127.0.0.1:8080": [("tcp", [("127.0.0.1", 8080)]), ("udp", [("127.0.0.1", 8080)])],
        "both@127.0.0.1:5353": [("both", [("127.0.0.1", 5353)])],
        "tcp@127.0.0.1:8080 and tcp@127.0.0.1:8081": [("tcp", [("127.0.0.1", 8080)]), ("tcp", [("127.0.0.1", 8081)])],
        "tcp@127.0.0.1:[9000,8080]": [("tcp", [("127.0.0.1", 9000), ("127.0.0.1", 8080)])],
        "no listeners": [],
    }
    n0 = w.cells
    bad = {}
    for cname, cfg in CONFIGS.items():
        ports = sorted({lp for _, addrs in cfg for _, lp in addrs} | {4444})
        hosts = LOOP + WILDCARD_DESTS + REMOTE + sorted({lh for _, addrs in cfg for lh, _ in addrs})
        for host in hosts:
            for port in ports:
                for tp in ("tcp", "udp"):
                    want = must_refuse(cfg, host, port, tp)
                    if want is None:
                        continue
                    got = w.refused(cfg, host, port, tp)
                    if got != want:
                        bad.setdefault((cname, tp, got, want), []).append(f"{host}:{port}")
    n = w.cells - n0
    ctx.cells += n
    for (cname, tp, got, want), dests in sorted(bad.items(), key=str):
        ctx.fail("R23.3", w.where, f"listeners [{cname}], {tp} connection to {dests[0]}: refused={got}, expected {want}",
                 f"a destination denoting mitmproxy's own listener is not refused (or an ordinary destination is); {len(dests)} destinations differ: {dests[:6]}")
    if not bad:
        ctx.ok("R23.3", f"{n} cells = {len(CONFIGS)} listener configurations x destination spellings x ports x transports agree with the reference")
    ctx.bounds.append("R23.1/R23.3: representative listener configurations and destination spellings, not all of them")


def check(ctx):
    ctx.rule("R23.3", "the ServerConnectHook method of Proxyserver, interpreted from its AST, refuses exactly the destinations that denote an own listener of a matching transport (all listeners and listen addresses considered)")
    ctx.rule("R23.1", "self-connect decision == port equal and transport equal/both and (loopback / unspecified / localhost spelling or listen host), for all representative spellings")
    ctx.rule("R23.2", "hit leaves a non-empty error whichever listener position matches; open_connection refuses (error hook + completion) before opening a socket")
    ctx.trust("str methods and ipaddress (is_loopback, is_unspecified, ipv4_mapped) as implemented by the checker's Python")
    w = ctx.guard(World, ctx)
    if w is not None:
        ctx.guard(r23_3, ctx, w)
        ctx.guard(r23_1, ctx, w)
        ctx.guard(r23_2a, ctx, w)
        w.report()
    ctx.expect_instances("R23.1", 1)
    ctx.guard(r23_2b, ctx)
    ctx.guard(r23_2c, ctx)
    ctx.expect_instances("R23.2", 5)
    ctx.expect_instances("R23.3", 1)


_FIXED = "and (_is_local_host(connect_host) or connect_host == listen_host)"
MUTANTS = [
    Mutant("transport-both-not-recognised", PS, """                    and server.mode.transport_protocol
                    in (data.server.transport_protocol, "both")
""", """                    and server.mode.transport_protocol == data.server.transport_protocol
""", "R23.3"),
    Mutant("stop-at-first-foreign-transport-listener", PS, "        for server in self.servers:\n            for listen_host, listen_port, *_ in server.listen_addrs:\n",
           "        for server in self.servers:\n            if server.mode.transport_protocol not in (data.server.transport_protocol, \"both\"):\n                break\n            for listen_host, listen_port, *_ in server.listen_addrs:\n", "R23.3"),
    Mutant("only-first-listen-address", PS, "            for listen_host, listen_port, *_ in server.listen_addrs:\n", "            for listen_host, listen_port, *_ in server.listen_addrs[:1]:\n", "R23.3"),
    Mutant("F-C23-literal-tuple-membership", PS, _FIXED, "and connect_host in (\"localhost\", \"127.0.0.1\", \"::1\", listen_host)", "R23.1"),
    Mutant("case-not-normalised", PS, "    host = host.lower().removesuffix(\".\")\n", "    host = host.removesuffix(\".\")\n", "R23.1"),
    Mutant("trailing-dot-not-stripped", PS, "    host = host.lower().removesuffix(\".\")\n", "    host = host.lower()\n", "R23.1"),
    Mutant("mapped-loopback-not-unwrapped", PS, "    if isinstance(ip, ipaddress.IPv6Address) and ip.ipv4_mapped:\n        ip = ip.ipv4_mapped\n", "", "R23.1"),
    Mutant("wildcard-not-recognised", PS, "    return ip.is_loopback or ip.is_unspecified\n", "    return ip.is_loopback\n", "R23.1"),
    Mutant("listen-host-dropped", PS, _FIXED, "and _is_local_host(connect_host)", "R23.1"),
    Mutant("port-test-dropped", PS, "                    connect_port == listen_port\n                    and (_is_local", "                    (_is_local", "R23.1"),
    Mutant("transport-test-dropped", PS, "\n                    and server.mode.transport_protocol\n                    in (data.server.transport_protocol, \"both\")\n", "\n", "R23.1"),
    Mutant("transport-both-not-recognised-table", PS, """                    and server.mode.transport_protocol
                    in (data.server.transport_protocol, "both")
""", """                    and server.mode.transport_protocol == data.server.transport_protocol
""", "R23.1"),
    Mutant("hostname-crashes-guard", PS, "    try:\n        ip = ipaddress.ip_address(host)\n    except ValueError:\n        return False\n", "    ip = ipaddress.ip_address(host)\n", "R23.1"),
    Mutant("hit-writes-empty-error", PS, "                    data.server.error = (\n                        \"Request destination unknown. \"\n                        \"Unable to figure out where this request should be forwarded to.\"\n                    )\n",
           "                    data.server.error = \"\"\n", "R23.2"),
    Mutant("return-after-first-listener", PS, "                    return\n", "                    return\n                return\n", "R23.2"),
    Mutant("hit-undone-by-later-listener", PS, "                    return\n", "                else:\n                    data.server.error = None\n", "R23.2"),
    Mutant("error-ignored-by-open-connection", SERVER, "        if err := command.connection.error:\n", "        if (err := command.connection.error) and False:\n", "R23.2"),
    Mutant("error-read-before-hook", SERVER, "        await self.handle_hook(server_hooks.ServerConnectHook(hook_data))\n        if err := command.connection.error:\n",
           "        stale = command.connection.error\n        await self.handle_hook(server_hooks.ServerConnectHook(hook_data))\n        if err := stale:\n", "R23.2"),
    Mutant("refusal-falls-through-to-open", SERVER, "                events.OpenConnectionCompleted(command, f\"Connection killed: {err}\")\n            )\n            return\n",
           "                events.OpenConnectionCompleted(command, f\"Connection killed: {err}\")\n            )\n", "R23.2"),
    Mutant("hook-sees-other-connection", SERVER, "client=self.client, server=command.connection\n", "client=self.client, server=self.layer.context.server\n", "R23.2"),
    Mutant("proxyserver-not-default", "mitmproxy/addons/__init__.py", "        proxyserver.Proxyserver(),\n", "", "R23.2"),
]
