"""C23 - mitmproxy never proxies a connection back to its own listening sockets.

Decided:
  R23.1 the self-connect predicate of ``Proxyserver.server_connect`` (the condition guarding ``data.server.error = ...``),
        evaluated by interpreting its AST (helper functions of the module inlined, string methods and the ``ipaddress``
        module evaluated by the checker's own Python = trusted base) over
        {representative destination spellings: localhost in any case / with trailing dot, 127.0.0.0/8, ::1, IPv4-mapped
         loopback, 0.0.0.0, ::, the listen host itself, unrelated names and addresses}
        x {listen hosts} x {port equal?} x {transport equal?}:
        hit  <=>  port equal and transport equal and (destination is a loopback name/address, an unspecified address
        or equals the listen host).  A predicate decided by membership of the raw string in a finite tuple of literals
        (F-C23, repaired) differs on 127.0.0.2, LOCALHOST, "localhost.", ::ffff:127.0.0.1, 0.0.0.0 and is reported.
        No cell may raise (an escaping ValueError would disable the guard for that destination).
  R23.2 on a hit ``data.server.error`` is set to a non-empty message on every path and the loops over all servers / listen
        addresses are only left early through that hit; ``ConnectionHandler.open_connection`` awaits ServerConnectHook,
        then tests the error and answers ServerConnectErrorHook + OpenConnectionCompleted(err) + return before any
        socket is opened; the hook data's ``server`` is the connection being opened; ``Proxyserver`` is a default addon
        and implements the method ServerConnectHook dispatches to.
NOT decided: destinations that reach a listener through DNS or through one of the machine's own non-loopback addresses
while listening on all interfaces; textual variants of an explicit listen host (the property does not demand them).
"""

from __future__ import annotations

import ast
import ipaddress

from ..core import AnalysisError
from ..core import norm
from ..model import attr_chain
from ..model import last_attr
from ..model import walk_in_order
from ..paths import C
from ..paths import Engine
from ..paths import GenericSpec
from ..paths import is_const
from ..paths import State
from ..paths import traces_of
from ..paths import UNKNOWN
from ..selftest import Mutant
from ._helpers_C import default_addon_order
from ._helpers_C import hook_method
from ._helpers_C import is_obj
from ._helpers_C import OBJ
from ._helpers_C import StrictSpec

PROP = "C23"
REG = {
    "strength": "partial",
    "technique": "decision-table extraction: the self-connect predicate's AST (helpers inlined) is interpreted over representative "
    "destination spellings x listen hosts x port/transport agreement + CFG path enumeration of server_connect / open_connection",
    "claim": "the predicate guarding data.server.error holds exactly when port and transport agree and the destination is a loopback "
    "name/address, an unspecified address or the listen host, for every representative spelling class the property names; a hit "
    "sets the error on all paths and open_connection refuses before opening a socket.",
    "note": "str methods and the ipaddress module are evaluated by the checker's Python (trusted); spelling classes are sampled by "
    "representatives, not enumerated; own non-loopback addresses / DNS names are out of scope.",
}

PS = "mitmproxy/addons/proxyserver.py"
SERVER = "mitmproxy/proxy/server.py"
HOOKF = "mitmproxy/proxy/server_hooks.py"

LOCAL_DESTS = [
    "localhost", "LOCALHOST", "LocalHost", "localhost.", "LOCALHOST.",
    "127.0.0.1", "127.0.0.2", "127.255.255.254", "::1", "0:0:0:0:0:0:0:1",
    "::ffff:127.0.0.1", "::ffff:127.8.9.10", "0.0.0.0", "::",
]
REMOTE_DESTS = [
    "example.com", "localhost.example.com", "notlocalhost", "198.51.100.7", "128.0.0.1", "126.255.255.255", "1.0.0.127",
    "2001:db8::1", "::2", "::ffff:198.51.100.7",
]
LISTEN_HOSTS = ["127.0.0.1", "0.0.0.0", "::", "::1", "192.0.2.1", "2001:db8::5"]

STR_METHODS = {"lower", "upper", "casefold", "strip", "rstrip", "lstrip", "removesuffix", "removeprefix", "startswith", "endswith"}
IP_ATTRS = {"is_loopback", "is_unspecified", "is_private", "is_global", "is_link_local", "version"}


class HostSpec(StrictSpec):
    """Concrete interpretation of a small string/ipaddress predicate. A path on which a modelled operation raised is
    marked ``$dead`` (the exception edge is explored separately through ``raises_into``)."""

    allowed_stmts = StrictSpec.allowed_stmts + (ast.Try,)
    max_depth = 4

    def __init__(self, module, atoms: dict):
        super().__init__()
        self.module = module
        self.atoms = atoms  # attribute-chain text -> abstract value

    def ip_of(self, v):
        if is_const(v) and isinstance(v[1], str):
            try:
                return ipaddress.ip_address(v[1])
            except ValueError:
                return None
        return None

    def atom(self, expr, st, depth):
        ch = attr_chain(expr)
        if ch and ch in self.atoms:
            return self.atoms[ch]
        if isinstance(expr, ast.Attribute):
            base = self.value(expr.value, st, depth)
            if is_obj(base, "ip"):
                ip = ipaddress.ip_address(base[2])
                if expr.attr == "ipv4_mapped":
                    if ip.version == 4:
                        self.problems.append(".ipv4_mapped read from an IPv4Address (AttributeError)")
                        return C(None)
                    mp = ip.ipv4_mapped
                    return OBJ("ip", str(mp)) if mp is not None else C(None)
                if expr.attr in IP_ATTRS:
                    return C(getattr(ip, expr.attr))
                raise AnalysisError(f"self-connect predicate: unmodelled address attribute {norm(expr)}")
            return None
        if isinstance(expr, ast.Call):
            f = expr.func
            if isinstance(f, ast.Attribute) and f.attr in STR_METHODS:
                base = self.value(f.value, st, depth)
                if is_const(base) and isinstance(base[1], str):
                    args = [self.value(a, st, depth) for a in expr.args]
                    if expr.keywords or not all(is_const(a) and isinstance(a[1], (str, tuple)) for a in args):
                        raise AnalysisError(f"self-connect predicate: unmodelled string call {norm(expr)}")
                    return C(getattr(base[1], f.attr)(*[a[1] for a in args]))
            if last_attr(f) == "ip_address" and len(expr.args) == 1 and not expr.keywords:
                a = self.value(expr.args[0], st, depth)
                if not (is_const(a) and isinstance(a[1], str)):
                    raise AnalysisError(f"self-connect predicate: ip_address() of an unmodelled value {norm(expr)}")
                ip = self.ip_of(a)
                return OBJ("ip", str(ip)) if ip is not None else OBJ("raised", "ValueError")
            if isinstance(f, ast.Name) and f.id == "str" and len(expr.args) == 1:
                a = self.value(expr.args[0], st, depth)
                if is_obj(a, "ip"):
                    return C(a[2])
                if is_const(a) and isinstance(a[1], str):
                    return a
            if isinstance(f, ast.Name) and isinstance(self.module.get(f.id), ast.FunctionDef):
                return self.call_helper(self.module.get(f.id), expr, st, depth)
        if isinstance(expr, ast.Tuple):
            vals = [self.value(e, st, depth) for e in expr.elts]
            if all(is_const(v) for v in vals):
                return C(tuple(v[1] for v in vals))
        return None

    def call_helper(self, fn, call, st, depth):
        if depth + 1 > self.max_depth:
            raise AnalysisError(f"self-connect predicate: helper nesting too deep at {norm(call)}")
        params = [a.arg for a in fn.args.args]
        if call.keywords or len(call.args) != len(params) or fn.args.defaults:
            raise AnalysisError(f"self-connect predicate: unmodelled helper call {norm(call)}")
        self.vet(fn)
        sub = HostSpec(self.module, self.atoms)
        init = State()
        for p, a in zip(params, call.args):
            init = init.set(f"0:{p}", self.value(a, st, depth))
        o = Engine(sub).run(fn, init)
        self.problems.extend(sub.problems)
        live_ret = [s for s in o.ret if s.get("$dead") != C(True)]
        live_exc = [s for s in o.exc if s.get("$dead") != C(True)]
        if live_exc:
            e = live_exc[0].get("$exc")
            self.problems.append(f"{fn.name}() raises {e[1] if is_const(e) else '?'} for this destination")
            return OBJ("raised", "exc")
        if not live_ret and sub.problems:
            return OBJ("raised", "exc")
        if len(live_ret) != 1:
            raise AnalysisError(f"self-connect predicate: helper {fn.name} has {len(live_ret)} outcomes for one input")
        return live_ret[0].get("$ret")

    # a modelled operation that raised: the normal continuation is dead, the exception edge is taken instead
    def raises_into(self, stmt, handler_names, st):
        out = []
        for n in ast.walk(stmt):
            if isinstance(n, ast.Call) and last_attr(n.func) == "ip_address":
                v = self.value(n, st, self._depth_of(st))
                if is_obj(v, "raised"):
                    out.append("ValueError")
        return out

    def _depth_of(self, st):
        return 0

    def effect(self, stmt, st, depth):
        st2 = StrictSpec.effect(self, stmt, st, depth)
        if isinstance(stmt, (ast.Assign, ast.AnnAssign)) and stmt.value is not None and is_obj(self.value(stmt.value, st, depth), "raised"):
            if self.in_try(stmt):
                return st2.set("$dead", C(True))
            self.problems.append(f"{norm(stmt.value)} raises ValueError and nothing catches it")
            return st2.set("$dead", C(True))
        return st2

    @staticmethod
    def in_try(node):
        n = getattr(node, "_parent", None)
        child = node
        while n is not None and not isinstance(n, (ast.FunctionDef, ast.AsyncFunctionDef)):
            if isinstance(n, ast.Try) and child in n.body:
                return True
            child, n = n, getattr(n, "_parent", None)
        return False

    def decide(self, cond, st, depth):
        if st.get("$dead") == C(True):
            return False
        return StrictSpec.decide(self, cond, st, depth)

    def decide_isinstance(self, cond, st, depth):
        v = self.value(cond.args[0], st, depth)
        if is_obj(v, "ip"):
            t = cond.args[1]
            names = [last_attr(e) for e in (t.elts if isinstance(t, ast.Tuple) else [t])]
            ver = ipaddress.ip_address(v[2]).version
            known = {"IPv4Address": ver == 4, "IPv6Address": ver == 6}
            if any(n not in known for n in names):
                raise AnalysisError(f"self-connect predicate: unmodelled class in {norm(cond)}")
            return any(known[n] for n in names)
        return None

    def decide_leaf(self, cond, st, depth):
        if isinstance(cond, ast.Compare) and len(cond.ops) == 1 and isinstance(cond.ops[0], (ast.In, ast.NotIn)):
            a = self.value(cond.left, st, depth)
            b = self.value(cond.comparators[0], st, depth)
            if is_const(a) and is_const(b) and isinstance(b[1], (tuple, str)):
                r = a[1] in b[1]
                return r if isinstance(cond.ops[0], ast.In) else not r
        return StrictSpec.decide_leaf(self, cond, st, depth)


def find_predicate(ctx, fn):
    """The expression guarding the write of ``<data>.server.error`` plus the roles of the names it uses."""
    params = [a.arg for a in fn.args.args]
    ctx.require(len(params) == 2 and params[0] == "self", f"Proxyserver.server_connect: unexpected signature {params}")
    data = params[1]
    writes = [n for n in walk_in_order(fn) if isinstance(n, ast.Assign) and any(attr_chain(t) == f"{data}.server.error" for t in n.targets)]
    ctx.require(len(writes) == 1, f"server_connect writes {data}.server.error {len(writes)} times (the rule models one hit site)")
    w = writes[0]
    guard = getattr(w, "_parent", None)
    ctx.require(isinstance(guard, ast.If) and w in guard.body, "server_connect: the error write is not directly guarded by an if")
    test = guard.test
    if isinstance(test, ast.Name):
        defs = [n for n in walk_in_order(fn) if isinstance(n, ast.Assign) and len(n.targets) == 1 and isinstance(n.targets[0], ast.Name) and n.targets[0].id == test.id]
        ctx.require(len(defs) == 1, f"server_connect: `{test.id}` is assigned {len(defs)} times")
        test = defs[0].value
    # roles
    unpack = [n for n in walk_in_order(fn) if isinstance(n, ast.Assign) and attr_chain(n.value) == f"{data}.server.address" and isinstance(n.targets[0], ast.Tuple)]
    ctx.require(len(unpack) == 1 and len(unpack[0].targets[0].elts) >= 2, "server_connect no longer unpacks data.server.address into (host, port, ...)")
    ch, cp = unpack[0].targets[0].elts[0], unpack[0].targets[0].elts[1]
    ctx.require(isinstance(ch, ast.Name) and isinstance(cp, ast.Name), "server_connect: unmodelled unpacking of data.server.address")
    loops = [n for n in walk_in_order(fn) if isinstance(n, ast.For)]
    inner = [l for l in loops if attr_chain(l.iter).endswith(".listen_addrs")]
    ctx.require(len(inner) == 1 and isinstance(inner[0].target, ast.Tuple) and len(inner[0].target.elts) >= 2, "server_connect no longer iterates `for host, port, *_ in <server>.listen_addrs`")
    lh, lp = inner[0].target.elts[0], inner[0].target.elts[1]
    ctx.require(isinstance(lh, ast.Name) and isinstance(lp, ast.Name), "server_connect: unmodelled listen_addrs unpacking")
    srv = attr_chain(inner[0].iter)[: -len(".listen_addrs")]
    outer = [l for l in loops if isinstance(l.target, ast.Name) and l.target.id == srv]
    ctx.require(len(outer) == 1 and attr_chain(outer[0].iter) in ("self.servers",), "server_connect no longer iterates all of self.servers")
    # is the guarded write inside both loops?
    n, inside = w, set()
    while n is not None and n is not fn:
        if isinstance(n, ast.For):
            inside.add(id(n))
        n = getattr(n, "_parent", None)
    ctx.require(id(inner[0]) in inside and id(outer[0]) in inside, "server_connect: the hit is not inside the loops over servers x listen addresses")
    roles = {"connect_host": ch.id, "connect_port": cp.id, "listen_host": lh.id, "listen_port": lp.id,
             "listen_transport": f"{srv}.mode.transport_protocol", "connect_transport": f"{data}.server.transport_protocol"}
    return test, roles, w, data


def expected_hit(dest, listen, port_eq, tp_eq):
    local = dest in LOCAL_DESTS or dest == listen
    return bool(port_eq and tp_eq and local)


def r23_1(ctx):
    fn = ctx.func(PS, "Proxyserver.server_connect")
    mod = ctx.model.module(PS)
    test, roles, w, data = find_predicate(ctx, fn)
    where = (PS, "Proxyserver.server_connect", test)
    used = {attr_chain(n) for n in ast.walk(test) if isinstance(n, (ast.Name, ast.Attribute)) and attr_chain(n)}
    for need in ("connect_host", "connect_port", "listen_port", "listen_transport", "connect_transport"):
        ok = roles[need] in used or any(isinstance(c, ast.Call) and roles[need] in {attr_chain(a) for a in c.args} for c in ast.walk(test))
        if not ok:
            ctx.fail("R23.1", where, f"predicate does not mention {need}", "the self-connect test ignores a component that must agree (port / transport / host)")
    mism = {}
    probs = {}
    n = 0
    for listen in LISTEN_HOSTS:
        for dest in LOCAL_DESTS + REMOTE_DESTS + [listen]:
            for port_eq in (True, False):
                for tp_eq in (True, False):
                    atoms = {
                        roles["connect_host"]: C(dest), roles["listen_host"]: C(listen),
                        roles["connect_port"]: C(8080), roles["listen_port"]: C(8080 if port_eq else 9090),
                        roles["connect_transport"]: C("tcp"), roles["listen_transport"]: C("tcp" if tp_eq else "udp"),
                    }
                    spec = HostSpec(mod, atoms)
                    t = spec.truth(test, State(), 0)
                    n += 1
                    if spec.problems:
                        for p in spec.problems:
                            probs.setdefault((dest, p), (listen, port_eq, tp_eq))
                        continue
                    if t is None:
                        raise AnalysisError(f"self-connect predicate not decidable for destination {dest!r}: {norm(test)}")
                    exp = expected_hit(dest, listen, port_eq, tp_eq)
                    if t != exp and port_eq and tp_eq:
                        mism.setdefault((dest if dest != listen or dest in LOCAL_DESTS else "<listen host>", t), listen)
                    elif t != exp:
                        mism.setdefault((f"port_equal={port_eq} transport_equal={tp_eq}", t), (dest, listen))
    ctx.cells += n
    for (what, got), ctxinfo in sorted(mism.items(), key=str):
        if what.startswith("port_equal"):
            ctx.fail("R23.1", where, f"hit={got} with {what}", f"port and transport must both agree for a self-connect (e.g. destination/listen {ctxinfo})")
        else:
            ctx.fail("R23.1", where, f"destination {what!r}: hit={got}", f"expected {not got} (listen host {ctxinfo!r}, same port and transport): "
                     + ("a destination denoting the own listener is not recognised, the proxy connects to itself" if not got else "an unrelated destination is refused as self-connect"))
    for (dest, p), ctxinfo in sorted(probs.items()):
        ctx.fail("R23.1", where, f"destination {dest!r}: {p}", "the hook raises instead of deciding: the guard is off for this destination")
    if not mism and not probs:
        ctx.ok("R23.1", f"self-connect predicate: {n} cells ({len(LOCAL_DESTS)} local + {len(REMOTE_DESTS)} remote spellings + listen host) x {len(LISTEN_HOSTS)} listen hosts x port x transport agree")
    ctx.sample({"predicate": norm(test), "roles": roles})
    return fn, w, data


class ConnSpec(GenericSpec):
    """open_connection projected onto: hook constructions, awaits, the error test, socket opening calls, completion events."""

    OPEN = ("open_connection", "open_udp_connection", "create_connection", "open_unix_connection")

    def __init__(self):
        def keep(ev):
            if ev[0] == "call":
                last = ev[1].split(".")[-1]
                return last in ("ServerConnectHook", "ServerConnectErrorHook", "OpenConnectionCompleted") or (last in self.OPEN and ev[1] != "self.open_connection")
            if ev[0] == "await":
                return ev[1].split(".")[-1] in ("handle_hook", "server_event") + self.OPEN
            return ev[0] == "return"

        super().__init__(keep=keep, record_conds=True)

    def cond_event(self, expr, value, st):
        e = expr.value if isinstance(expr, ast.NamedExpr) else expr
        if attr_chain(e) == "command.connection.error":
            return ("err", value)
        if "connection.error" in ast.unparse(expr):
            raise AnalysisError(f"open_connection: unmodelled test of the connection error: {norm(expr)}")
        return None


def r23_2(ctx, fn, w, data):
    # (a) the hit: a non-empty message, and early exits of the loops only through the hit
    where = (PS, "Proxyserver.server_connect", w)
    v = w.value
    nonempty = (isinstance(v, ast.Constant) and isinstance(v.value, str) and v.value != "") or (
        isinstance(v, ast.JoinedStr) and any(isinstance(p, ast.Constant) and p.value for p in v.values))
    ctx.check(nonempty, "R23.2", where, f"{data}.server.error = <non-empty message>", "the value written on a hit is not a non-empty string: open_connection would not refuse",
              desc="hit writes a non-empty error message")
    for n in walk_in_order(fn):
        if isinstance(n, (ast.Break, ast.Continue)):
            raise AnalysisError("server_connect: break/continue in the listener loops is not modelled")
    traces, _ = traces_of(fn, GenericSpec(keep=lambda ev: ev[0] == "return" or (ev[0] == "assign" and ev[1].endswith(".server.error")), record_conds=False, unroll=2))
    ctx.paths += len(traces)
    bad = [tr for tr, how, _ in traces if ("return",) in tr and not any(e[0] == "assign" for e in tr[: tr.index(("return",))])]
    ctx.check(not bad, "R23.2", (PS, "Proxyserver.server_connect", fn), "loops over servers x listen addresses are left early only after a hit",
              "a return before the hit skips the remaining listeners", desc=f"server_connect: {len(traces)} paths, early return only after the error write")
    # (b) open_connection refuses before opening
    oc = ctx.func(SERVER, "ConnectionHandler.open_connection")
    wh = (SERVER, "ConnectionHandler.open_connection", oc)
    hd = [c for c in walk_in_order(oc) if isinstance(c, ast.Call) and last_attr(c.func) == "ServerConnectionHookData"]
    ctx.require(len(hd) == 1, "open_connection no longer builds one ServerConnectionHookData")
    kw = {k.arg: attr_chain(k.value) for k in hd[0].keywords}
    if not kw and len(hd[0].args) == 2:
        fields = [s.target.id for s in ctx.model.cls(HOOKF, "ServerConnectionHookData").body if isinstance(s, ast.AnnAssign)]
        kw = dict(zip(fields, [attr_chain(a) for a in hd[0].args]))
    ctx.check(kw.get("server") == "command.connection", "R23.2", wh, "ServerConnectionHookData(server=command.connection)",
              "the hook does not see the connection that is about to be opened", desc="hook data server = command.connection")
    spec = ConnSpec()
    traces, _ = traces_of(oc, spec)
    ctx.paths += len(traces)
    is_open = lambda e: e[0] in ("call", "await") and e[1].split(".")[-1] in spec.OPEN  # noqa: E731
    badm = {}
    n_ref = n_go = 0
    for tr, how, _ in traces:
        ih = next((i for i, e in enumerate(tr) if e[0] == "call" and e[1].endswith("ServerConnectHook")), -1)
        ia = next((i for i, e in enumerate(tr) if i > ih >= 0 and e == ("await", "self.handle_hook")), -1)
        ie = next((i for i, e in enumerate(tr) if e[0] == "err"), -1)
        opens = [i for i, e in enumerate(tr) if is_open(e)]
        if ie >= 0:
            n_ref += bool(tr[ie][1])
            n_go += not tr[ie][1]
        if opens and (ie < 0 or min(opens) < ie):
            badm.setdefault("a socket is opened without a preceding test of connection.error", tr)
            continue
        if ie >= 0 and not (0 <= ih < ia < ie):
            badm.setdefault("connection.error is tested before the server_connect hook has been awaited", tr)
            continue
        if ie >= 0 and tr[ie][1]:
            rest = tr[ie:]
            if opens:
                badm.setdefault("a socket is opened although connection.error is set", tr)
            if not any(e[0] == "call" and e[1].endswith("ServerConnectErrorHook") for e in rest):
                badm.setdefault("refused connection does not fire ServerConnectErrorHook", tr)
            if not any(e[0] == "call" and e[1].endswith("OpenConnectionCompleted") for e in rest):
                badm.setdefault("refused connection is not completed with OpenConnectionCompleted(err)", tr)
    for msg, tr in sorted(badm.items()):
        ctx.fail("R23.2", wh, msg, "a self-connect refused by the addon is opened anyway / not reported to the layer", trace=[list(e) for e in tr])
    ctx.require(n_ref >= 1 and n_go >= 1 or badm, "open_connection: no path tests command.connection.error (anchor changed shape)")
    if not badm:
        ctx.ok("R23.2", f"open_connection: {len(traces)} paths; hook awaited < error test < socket open; refusal => ServerConnectErrorHook + OpenConnectionCompleted, no socket")
    # (c) registration
    order = default_addon_order(ctx)
    ctx.check("Proxyserver" in order, "R23.2", ("mitmproxy/addons/__init__.py", "default_addons", 0), "proxyserver.Proxyserver() in default_addons",
              "the addon carrying the self-connect guard is not loaded", desc="Proxyserver() in default_addons")
    meth = hook_method(ctx, HOOKF, "ServerConnectHook")
    ctx.require(meth == "server_connect", f"ServerConnectHook now dispatches to {meth}, not server_connect")


def r23_3(ctx):
    """Self-connect decision extracted by interpreting Proxyserver.server_connect's AST (pyint, ``ipaddress`` trusted) over
    representative listener configurations x destination spellings x transports; reference computed by the checker."""
    import ipaddress

    from ..pyint import Interp
    from ..pyint import Raised
    from ..pyint import Rec

    fn = ctx.func(PS, "Proxyserver.server_connect")
    where = (PS, "Proxyserver.server_connect", fn)

    class _Log:
        def __getattr__(self, name):
            return lambda *a, **k: None

    LOOP = ["localhost", "LOCALHOST", "localhost.", "127.0.0.1", "127.0.0.2", "127.255.255.254", "::1", "0:0:0:0:0:0:0:1", "::ffff:127.0.0.1"]
    WILD = ["0.0.0.0", "::"]
    REMOTE = ["example.com", "93.184.216.34", "2606:2800:220:1::1", "localhost.example.com", "10.0.0.9"]
    # listener configurations: list of (mode transport, [(listen_host, listen_port)])
    CONFIGS = {
        "tcp@127.0.0.1:8080": [("tcp", [("127.0.0.1", 8080)])],
        "tcp@[::]:8080+0.0.0.0:8080": [("tcp", [("::", 8080), ("0.0.0.0", 8080)])],
        "tcp@192.168.1.5:8080": [("tcp", [("192.168.1.5", 8080)])],
        "udp@127.0.0.1:8080 then tcp@127.0.0.1:8080": [("udp", [("127.0.0.1", 8080)]), ("tcp", [("127.0.0.1", 8080)])],
        "tcp@127.0.0.1:8080 then udp@127.0.0.1:8080": [("tcp", [("127.0.0.1", 8080)]), ("udp", [("127.0.0.1", 8080)])],
        "both@127.0.0.1:5353": [("both", [("127.0.0.1", 5353)])],
        "tcp@127.0.0.1:8080 and tcp@127.0.0.1:8081": [("tcp", [("127.0.0.1", 8080)]), ("tcp", [("127.0.0.1", 8081)])],
        "tcp@127.0.0.1:[9000,8080]": [("tcp", [("127.0.0.1", 9000), ("127.0.0.1", 8080)])],
    }

    def is_loopbackish(h):
        return h in ("127.0.0.1", "::1", "::", "0.0.0.0", "") or h.startswith("127.")

    def reference(cfg, host, port, tp):
        """True = must refuse, False = must not refuse, None = not decided by the property."""
        verdict = False
        for mtp, addrs in cfg:
            if not (mtp == tp or mtp == "both"):
                continue
            for lh, lp in addrs:
                if lp != port:
                    continue
                if host == lh or host in WILD:
                    return True
                if host in LOOP:
                    if is_loopbackish(lh):
                        return True
                    verdict = None  # loopback spelling while listening on one specific interface: over-refusal is allowed
        if host in REMOTE:
            return False
        return verdict

    n = 0
    bad = {}
    for cname, cfg in CONFIGS.items():
        ports = sorted({lp for _, addrs in cfg for _, lp in addrs} | {4444})
        hosts = LOOP + WILD + REMOTE + sorted({lh for _, addrs in cfg for lh, _ in addrs})
        for host in hosts:
            for port in ports:
                for tp in ("tcp", "udp"):
                    want = reference(cfg, host, port, tp)
                    if want is None:
                        continue
                    it = Interp(ctx.model, trusted_modules={"ipaddress": ipaddress, "logging": _Log()})
                    it.overrides[(PS, "logger")] = _Log()
                    servers = [Rec("ServerInstance", mode=Rec("ProxyMode", transport_protocol=mtp, full_spec=cname), listen_addrs=[tuple(a) for a in addrs]) for mtp, addrs in cfg]
                    srv = Rec("Server", _name="data.server", address=(host, port), transport_protocol=tp, sockname=None, error=None, via=None, sni=None, tls=False)
                    data = Rec("ServerConnectionHookData", server=srv, client=Rec("Client", peername=("192.0.2.7", 50000), sockname=("127.0.0.1", 8080)))
                    self_rec = Rec("Proxyserver", _impl=(PS, "Proxyserver"), servers=servers, _connect_addr=None, is_running=True)
                    try:
                        it.method(self_rec, "server_connect", data)
                        got = bool(srv.error)
                    except Raised as r:
                        got = f"raises {r.name}"
                    n += 1
                    if got != want:
                        bad.setdefault((cname, tp, got, want), []).append(f"{host}:{port}")
    ctx.cells += n
    for (cname, tp, got, want), dests in sorted(bad.items(), key=str):
        ctx.fail("R23.3", where, f"listeners [{cname}], {tp} connection to {dests[0]}: refused={got}, expected {want}",
                 f"a destination denoting mitmproxy's own listener is not refused (or an ordinary destination is); {len(dests)} destinations differ: {dests[:6]}")
    if not bad:
        ctx.ok("R23.3", f"{n} cells = {len(CONFIGS)} listener configurations x destination spellings x ports x transports agree with the reference")
    ctx.bounds.append("R23.3: representative listener configurations and destination spellings, not all of them")


def check(ctx):
    ctx.rule("R23.3", "server_connect, interpreted from its AST, refuses exactly the destinations that denote an own listener of a matching transport (all listeners and listen addresses considered)")
    ctx.guard(r23_3, ctx)
    ctx.rule("R23.1", "self-connect predicate == port equal and transport equal and (loopback / unspecified / localhost spelling or listen host), for all representative spellings")
    ctx.rule("R23.2", "hit sets a non-empty error on all paths; open_connection refuses (error hook + completion) before opening a socket")
    ctx.trust("str methods and ipaddress (is_loopback, is_unspecified, ipv4_mapped) as implemented by the checker's Python")
    r = ctx.guard(r23_1, ctx)
    if r is not None:
        fn, w, data = r
        ctx.expect_instances("R23.1", 1)
        ctx.guard(r23_2, ctx, fn, w, data)
        ctx.expect_instances("R23.2", 5)


_FIXED = "and (_is_local_host(connect_host) or connect_host == listen_host)"
MUTANTS = [
    Mutant("transport-both-not-recognised", PS, """                    and server.mode.transport_protocol
                    in (data.server.transport_protocol, "both")
""", """                    and server.mode.transport_protocol == data.server.transport_protocol
""", "R23.3"),
    Mutant("stop-at-first-foreign-transport-listener", PS, "        for server in self.servers:\n            for listen_host, listen_port, *_ in server.listen_addrs:\n",
           "        for server in self.servers:\n            if server.mode.transport_protocol not in (data.server.transport_protocol, \"both\"):\n                break\n            for listen_host, listen_port, *_ in server.listen_addrs:\n", "R23.3"),
    Mutant("only-first-listen-address", PS, "            for listen_host, listen_port, *_ in server.listen_addrs:\n", "            for listen_host, listen_port, *_ in server.listen_addrs[:1]:\n", "R23.3"),
    Mutant("F-C23-literal-tuple-membership", PS, _FIXED, "and connect_host in (\"localhost\", \"127.0.0.1\", \"::1\", listen_host)", "R23.1"),
    Mutant("case-not-normalised", PS, "    host = host.lower().removesuffix(\".\")\n", "    host = host.removesuffix(\".\")\n", "R23.1"),
    Mutant("trailing-dot-not-stripped", PS, "    host = host.lower().removesuffix(\".\")\n", "    host = host.lower()\n", "R23.1"),
    Mutant("mapped-loopback-not-unwrapped", PS, "    if isinstance(ip, ipaddress.IPv6Address) and ip.ipv4_mapped:\n        ip = ip.ipv4_mapped\n", "", "R23.1"),
    Mutant("wildcard-not-recognised", PS, "    return ip.is_loopback or ip.is_unspecified\n", "    return ip.is_loopback\n", "R23.1"),
    Mutant("listen-host-dropped", PS, _FIXED, "and _is_local_host(connect_host)", "R23.1"),
    Mutant("port-test-dropped", PS, "                    connect_port == listen_port\n                    and (_is_local", "                    (_is_local", "R23.1"),
    Mutant("transport-test-dropped", PS, "\n                    and server.mode.transport_protocol\n                    in (data.server.transport_protocol, \"both\")\n", "\n", "R23"),
    Mutant("hostname-crashes-guard", PS, "    try:\n        ip = ipaddress.ip_address(host)\n    except ValueError:\n        return False\n", "    ip = ipaddress.ip_address(host)\n", "R23.1"),
    Mutant("hit-writes-empty-error", PS, "                    data.server.error = (\n                        \"Request destination unknown. \"\n                        \"Unable to figure out where this request should be forwarded to.\"\n                    )\n",
           "                    data.server.error = \"\"\n", "R23.2"),
    Mutant("return-after-first-listener", PS, "                    return\n", "                    return\n                return\n", "R23.2"),
    Mutant("error-ignored-by-open-connection", SERVER, "        if err := command.connection.error:\n", "        if (err := command.connection.error) and False:\n", "R23.2"),
    Mutant("refusal-falls-through-to-open", SERVER, "                events.OpenConnectionCompleted(command, f\"Connection killed: {err}\")\n            )\n            return\n",
           "                events.OpenConnectionCompleted(command, f\"Connection killed: {err}\")\n            )\n", "R23.2"),
    Mutant("hook-sees-other-connection", SERVER, "client=self.client, server=command.connection\n", "client=self.client, server=self.layer.context.server\n", "R23.2"),
    Mutant("proxyserver-not-default", "mitmproxy/addons/__init__.py", "        proxyserver.Proxyserver(),\n", "", "R23.2"),
]
