"""Shared helpers for batch E (HTTP message model and flow I/O: C31-C33, C35, C37-C41).

Only stdlib ``ast`` + the mitmlint core. Nothing here imports or runs repository code.
"""

from __future__ import annotations

import ast
import re

from ..core import AnalysisError
from ..core import norm
from ..model import attr_chain
from ..model import eval_order
from ..model import last_attr
from ..paths import GenericSpec
from ..paths import traces_of


# ---------------------------------------------------------------------------------------------------
# path spec with argument texts, implicit exception edges, loop and handler events


class ESpec(GenericSpec):
    """GenericSpec whose events carry operands:
      ('call', 'dotted.callee', (arg texts..., 'kw=text'...))
      ('assign', 'target', 'value text')     ('del', 'target')   ('return', 'value text')   ('raise', 'Cls')
      ('cond', 'text', bool)                  (record_conds, default on)
      ('loop', 'iter or test text', entered)  ('except', 'ExcName')
    ``may_raise(stmt, handler_names, state) -> [names]`` supplies the implicit exception edges into handlers
    (default: a statement of a ``try`` body that contains a call may raise anything the handlers catch).
    """

    def __init__(self, keep=None, resolver=None, record_conds=True, unroll=1, tracked=(), may_raise=None, max_depth=3, subscripts=False):
        super().__init__(keep=keep, resolver=resolver, record_conds=record_conds, unroll=unroll, tracked=tracked)
        self._may_raise = may_raise
        self.max_depth = max_depth
        self._subscripts = subscripts  # also emit ('sub', 'value text', 'index text') for subscript loads

    @staticmethod
    def _args(call: ast.Call):
        return tuple(norm(a) for a in call.args) + tuple(f"{k.arg}={norm(k.value)}" if k.arg else "**" + norm(k.value) for k in call.keywords)

    def events(self, node, st):
        out = []
        for n in eval_order(node):
            ev = None
            if isinstance(n, ast.Call):
                ev = ("call", norm(n.func), self._args(n))
            elif isinstance(n, ast.Yield):
                ev = ("yield", norm(n.value) if n.value is not None else "")
            elif isinstance(n, ast.YieldFrom):
                ev = ("yield_from", norm(n.value))
            elif self._subscripts and isinstance(n, ast.Subscript) and isinstance(n.ctx, ast.Load):
                ev = ("sub", norm(n.value), norm(n.slice))
            if ev is not None and (self._keep is None or self._keep(ev)):
                out.append(ev)
        extra = []
        if isinstance(node, ast.Assign):
            for t in node.targets:
                for tt in t.elts if isinstance(t, (ast.Tuple, ast.List)) else [t]:
                    extra.append(("assign", norm(tt), norm(node.value)))
        elif isinstance(node, ast.AugAssign):
            extra.append(("assign", norm(node.target), "aug:" + norm(node.value)))
        elif isinstance(node, ast.AnnAssign) and node.value is not None:
            extra.append(("assign", norm(node.target), norm(node.value)))
        elif isinstance(node, ast.Delete):
            for t in node.targets:
                extra.append(("del", norm(t)))
        elif isinstance(node, ast.Return):
            extra.append(("return", norm(node.value) if node.value is not None else "None"))
        elif isinstance(node, ast.Raise):
            extra.append(("raise", last_attr(node.exc) if node.exc is not None else ""))
        for ev in extra:
            if self._keep is None or self._keep(ev):
                out.append(ev)
        return out

    def raises_into(self, stmt, handler_names, st):
        if self._may_raise is not None:
            return list(self._may_raise(stmt, handler_names, st))
        if isinstance(stmt, (ast.If, ast.For, ast.While, ast.With, ast.Try, ast.Match)):
            # compound statements: their parts are visited on their own only for nested try blocks; be conservative
            has_call = any(isinstance(n, ast.Call) for n in ast.walk(stmt))
        else:
            has_call = any(isinstance(n, (ast.Call, ast.Subscript)) for n in ast.walk(stmt))
        return list(dict.fromkeys(handler_names)) if has_call else []

    def handler_event(self, h, ename, s):
        return ("except", ename)

    def loop_event(self, node, entered, s):
        return ("loop", norm(node.iter) if isinstance(node, (ast.For, ast.AsyncFor)) else norm(node.test), entered)


def raises_at(call_node, excs):
    """``may_raise`` function for ESpec: ``call_node`` may raise ``excs``.  The engine asks only about the top-level
    statements of a ``try`` body, so a compound statement containing the call answers for it - unless a nested
    ``try`` (with handlers) protects the call, which then asks again itself."""

    def may_raise(stmt, handler_names, st):
        if not any(n is call_node for n in ast.walk(stmt)):
            return []
        child, n = call_node, getattr(call_node, "_parent", None)
        while n is not None and child is not stmt:
            if isinstance(n, ast.Try) and n.handlers and any(child is b for b in n.body):
                return []
            child, n = n, getattr(n, "_parent", None)
        return list(excs)

    return may_raise


def expect(ctx, rule: str, n: int):
    """expect_instances for a rule that produced no finding (a violated obligation replaces the held instances,
    so the count is only meaningful - and only needed against vacuous passes - when the rule is silent)."""
    if not any(f.rule == rule for f in ctx.findings):
        ctx.expect_instances(rule, n)


def paths(fn, **kw):
    """[(trace, how)] of ``fn`` under an ESpec built from ``kw``; plus the engine."""
    spec = ESpec(**kw)
    res, eng = traces_of(fn, spec)
    return [(t, how) for t, how, _ in res], eng


def is_call(ev, name=None, suffix=None):
    if ev[0] != "call":
        return False
    if name is not None and ev[1] != name:
        return False
    if suffix is not None and not (ev[1] == suffix or ev[1].endswith("." + suffix)):
        return False
    return True


def calls(trace, name=None, suffix=None):
    return [e for e in trace if is_call(e, name, suffix)]


def show(trace, limit=10):
    """Short, stable rendering of a trace for reasons (not used in keys)."""
    out = []
    for e in trace[:limit]:
        if e[0] == "cond":
            out.append(("" if e[2] else "not ") + f"({e[1]})")
        elif e[0] == "call":
            out.append(f"{e[1]}({', '.join(e[2])})")
        else:
            out.append(" ".join(str(x) for x in e))
    return " ; ".join(out) + (" ; ..." if len(trace) > limit else "")


# ---------------------------------------------------------------------------------------------------
# facts from recorded branch conditions


def presence(cond_text: str, value: bool, chain: str):
    """Does the taken branch ('cond', text, value) establish that ``chain`` is present (truthy / not None)?
    Returns True (present), False (absent: None/falsy) or None (the condition says nothing about it).
    Accepted idioms: ``X`` | ``X is None`` | ``X is not None`` | ``X == None`` | ``X != None`` | ``bool(X)``."""
    try:
        e = ast.parse(cond_text, mode="eval").body
    except SyntaxError:
        return None
    if isinstance(e, ast.Call) and isinstance(e.func, ast.Name) and e.func.id == "bool" and len(e.args) == 1:
        e = e.args[0]
    if attr_chain(e) == chain:
        return value
    if isinstance(e, ast.Compare) and len(e.ops) == 1 and attr_chain(e.left) == chain:
        c = e.comparators[0]
        if isinstance(c, ast.Constant) and c.value is None:
            if isinstance(e.ops[0], (ast.Is, ast.Eq)):
                return not value
            if isinstance(e.ops[0], (ast.IsNot, ast.NotEq)):
                return value
    return None


def fact(trace, chain: str):
    """Last presence fact about ``chain`` on the trace: True / False / None."""
    res = None
    for e in trace:
        if e[0] == "cond":
            p = presence(e[1], e[2], chain)
            if p is not None:
                res = p
        elif e[0] == "assign" and e[1] == chain:
            res = None if e[2] != "None" else False
    return res


def fact_any(trace, chains):
    """presence fact about any of several chains known to denote the same object (last one wins)."""
    res = None
    for e in trace:
        if e[0] == "cond":
            for ch in chains:
                p = presence(e[1], e[2], ch)
                if p is not None:
                    res = p
    return res


def feasible(trace, pure) -> bool:
    """False if the path takes the same *pure* condition (``pure(text)``: no side effects, operands unchanged
    along the function) both ways - such a path is an artefact of forking every test independently."""
    seen = {}
    for e in trace:
        if e[0] == "cond" and pure(e[1]):
            if seen.setdefault(e[1], e[2]) != e[2]:
                return False
    return True


def cond_facts(trace, pred):
    """[(value)] of all cond events whose parsed expression satisfies pred(expr)."""
    out = []
    for e in trace:
        if e[0] == "cond":
            try:
                x = ast.parse(e[1], mode="eval").body
            except SyntaxError:
                continue
            if pred(x):
                out.append(e[2])
    return out


# ---------------------------------------------------------------------------------------------------
# structural helpers


def params(fn, drop_self=True):
    names = [a.arg for a in fn.args.posonlyargs + fn.args.args]
    if drop_self and names and names[0] in ("self", "cls"):
        names = names[1:]
    return names


def methods(cls: ast.ClassDef) -> dict:
    return {s.name: s for s in cls.body if isinstance(s, (ast.FunctionDef, ast.AsyncFunctionDef))}


def prop_parts(cls: ast.ClassDef, name: str):
    """(getter, setter) FunctionDefs of a @property defined in the class body."""
    g = s = None
    for st in cls.body:
        if isinstance(st, ast.FunctionDef) and st.name == name:
            decs = [norm(d) for d in st.decorator_list]
            if "property" in decs:
                g = st
            elif f"{name}.setter" in decs:
                s = st
    return g, s


def hook_name(model, rel: str, cls_name: str) -> str:
    """Name under which a Hook subclass is dispatched: explicit ``name = "..."`` in the class body, else
    the rule of hooks.Hook.__init_subclass__ (XyzAbcHook -> xyz_abc)."""
    c = model.cls(rel, cls_name)
    for st in c.body:
        tgt = None
        if isinstance(st, ast.Assign) and len(st.targets) == 1:
            tgt, val = st.targets[0], st.value
        elif isinstance(st, ast.AnnAssign) and st.value is not None:
            tgt, val = st.target, st.value
        if tgt is not None and isinstance(tgt, ast.Name) and tgt.id == "name":
            if isinstance(val, ast.Constant) and isinstance(val.value, str):
                return val.value
            raise AnalysisError(f"{rel}::{cls_name}.name is not a string literal: {norm(val)}")
    n = cls_name.replace("Hook", "")
    return re.sub("(?!^)([A-Z]+)", r"_\1", n).lower()


def hook_classes(model, rel: str) -> list[ast.ClassDef]:
    """Classes in ``rel`` with a base named Hook / StartHook."""
    out = []
    for q, d in model.module(rel).defs().items():
        if isinstance(d, ast.ClassDef) and any(last_attr(b) in ("Hook", "StartHook") for b in d.bases):
            out.append(d)
    return out


def class_fields(cls: ast.ClassDef) -> list[str]:
    return [s.target.id for s in cls.body if isinstance(s, ast.AnnAssign) and isinstance(s.target, ast.Name)]


def dict_literal(node, what: str) -> list[tuple[ast.AST, ast.AST]]:
    if not isinstance(node, ast.Dict) or any(k is None for k in node.keys):
        raise AnalysisError(f"{what} is not a plain dict literal any more: {norm(node)}")
    return list(zip(node.keys, node.values))


def const_value(node):
    try:
        return ast.literal_eval(node)
    except Exception:
        raise AnalysisError(f"not a literal: {norm(node)}")


def aliases_of(fn, chain: str) -> list[str]:
    """Local names assigned from ``chain`` inside fn (an alias would hide uses of the chain from the rules)."""
    out = []
    for n in ast.walk(fn):
        if isinstance(n, ast.Assign) and attr_chain(n.value) == chain:
            out += [t.id for t in n.targets if isinstance(t, ast.Name)]
        elif isinstance(n, ast.NamedExpr) and attr_chain(n.value) == chain:
            out.append(n.target.id)
    return out


# ---------------------------------------------------------------------------------------------------
# pyint extensions shared by C31 / C32 (added in the false-alarm hardening round; nothing above depends on them)

import builtins as _builtins

from ..pyint import DictRec as _DictRec
from ..pyint import Interp as _Interp
from ..pyint import Raised as _Raised
from ..pyint import Rec as _Rec


class GlobalsInterp(_Interp):
    """pyint plus three pieces of Python semantics the codec cache needs:
    * ``global X`` declarations: an assignment to a name the enclosing function declares global writes the module global
      (kept in ``overrides``; ``gkeys`` lists what was written, so a rule can snapshot / restore that state);
    * a name that is local to the running function but not bound yet raises ``UnboundLocalError``, a name that resolves
      nowhere (and is no builtin) ``NameError`` - both as interpreted exceptions instead of an AnalysisError;
    * ``isinstance(e, SomeError)`` on a caught exception follows the exception hierarchy."""

    def __init__(self, *a, **k):
        super().__init__(*a, **k)
        self.gkeys: set = set()
        self._scope: dict = {}

    @staticmethod
    def _fn_of(node):
        fn = getattr(node, "_parent", None)
        while fn is not None and not isinstance(fn, (ast.FunctionDef, ast.AsyncFunctionDef, ast.Lambda)):
            fn = getattr(fn, "_parent", None)
        return fn

    def _scope_of(self, node):
        """(names declared global, names bound locally, names bound inside comprehensions) of the function enclosing ``node``"""
        fn = self._fn_of(node)
        if fn is None:
            return frozenset(), frozenset(), frozenset()
        sc = self._scope.get(id(fn))
        if sc is None:
            glob, loc, comp = set(), set(), set()
            if not isinstance(fn, ast.Lambda):
                todo = list(fn.body)
                while todo:
                    n = todo.pop()
                    if isinstance(n, (ast.FunctionDef, ast.AsyncFunctionDef, ast.ClassDef)):
                        loc.add(n.name)
                        continue
                    if isinstance(n, ast.Lambda):
                        continue
                    if isinstance(n, ast.Global):
                        glob.update(n.names)
                    elif isinstance(n, ast.Name) and isinstance(n.ctx, (ast.Store, ast.Del)):
                        loc.add(n.id)
                    elif isinstance(n, ast.ExceptHandler) and n.name:
                        loc.add(n.name)
                    elif isinstance(n, (ast.Import, ast.ImportFrom)):
                        loc.update((a.asname or a.name).split(".")[0] for a in n.names)
                    elif isinstance(n, (ast.MatchAs, ast.MatchStar)) and n.name:
                        loc.add(n.name)
                    if isinstance(n, (ast.ListComp, ast.SetComp, ast.DictComp, ast.GeneratorExp)):
                        # own scope - but a walrus inside binds in the function: pyint does not model that, keep such names out of the verdicts
                        comp.update(x.id for x in ast.walk(n) if isinstance(x, ast.Name) and isinstance(x.ctx, ast.Store))
                        continue
                    todo.extend(ast.iter_child_nodes(n))
            sc = self._scope[id(fn)] = (frozenset(glob), frozenset(loc - glob), frozenset(comp))
        return sc

    def assign(self, target, value, env, mod, depth):
        if isinstance(target, ast.Name) and target.id in self._scope_of(target)[0]:
            self.overrides[(mod.rel, target.id)] = value
            self.gkeys.add((mod.rel, target.id))
            return
        return super().assign(target, value, env, mod, depth)

    def name(self, ident, env, mod, depth, node):
        if ident not in env and node is not None and ident in self._scope_of(node)[1]:
            clo = env.get("$closure")
            while clo is not None and ident not in clo:
                clo = clo.get("$closure")
            if clo is None:
                raise _Raised("UnboundLocalError", ident)
        try:
            return super().name(ident, env, mod, depth, node)
        except AnalysisError as e:
            if "unbound name" in str(e) and not hasattr(_builtins, ident) and (node is None or ident not in self._scope_of(node)[2]):
                raise _Raised("NameError", ident)
            raise

    def iterate(self, v, node):
        import collections.abc as _abc

        if isinstance(v, (_abc.ItemsView, _abc.KeysView, _abc.ValuesView)):  # incl. OrderedDict views (odict_items ...)
            return list(v)
        return super().iterate(v, node)

    def builtin(self, name, args, kwargs, e, env, mod, depth):
        if name == "isinstance" and len(args) == 2 and isinstance(args[0], str) and args[0].startswith("<exc:"):
            flat, todo = [], [args[1]]
            while todo:
                c = todo.pop()
                if isinstance(c, tuple) and c and c[0] == "$exc":
                    flat.append(c[1])
                elif isinstance(c, tuple) and c and c[0] == "$union":
                    todo.extend(c[1])
                elif isinstance(c, (tuple, list)):
                    todo.extend(c)
            return any(self.exc_isa(args[0][5:-1], n, mod) for n in flat)
        return super().builtin(name, args, kwargs, e, env, mod, depth)

    # -- module-global state written through ``global`` declarations
    def global_state(self) -> dict:
        return {k: self.overrides[k] for k in self.gkeys if k in self.overrides}

    def set_global_state(self, state: dict) -> None:
        for k in self.gkeys:
            self.overrides.pop(k, None)
        self.overrides.update(state)


class Warnings:
    """Trusted stand-in for the stdlib ``warnings`` module: emitting a warning has no effect on any result."""

    _pyint_accepts_abstract = True

    def warn(self, *a, **k):
        return None

    def warn_explicit(self, *a, **k):
        return None


def canon(v):
    """Hashable, identity-free rendering of an interpreted value (namedtuple / record / containers)."""
    if isinstance(v, _Rec):
        items = tuple(sorted((k, canon(x)) for k, x in vars(v).items() if not k.startswith("_")))
        extra = tuple(sorted((canon(k), canon(x)) for k, x in v._items.items())) if isinstance(v, _DictRec) else ()
        return ("rec", v._cls, items, extra)
    if isinstance(v, tuple):
        return ("tuple", tuple(getattr(v, "_fields", ())), tuple(canon(x) for x in v))
    if isinstance(v, list):
        return ("list", tuple(canon(x) for x in v))
    if isinstance(v, dict):
        return ("dict", tuple(sorted(((canon(k), canon(x)) for k, x in v.items()), key=repr)))
    if isinstance(v, (set, frozenset)):
        return ("set", tuple(sorted((canon(x) for x in v), key=repr)))
    if isinstance(v, (str, bytes, int, float, bool, type(None))):
        return (type(v).__name__, v)
    return ("obj", repr(v))


class CodecStub:
    """Stand-in for a compression codec function ``decode_<x>`` / ``encode_<x>`` (the libraries are trusted, never run):
    ``encode_x(b) = b'x(' + b + b')'`` and ``decode_x`` is its exact inverse, raising ValueError on anything else -
    an injective, canonical codec pair, so a stale or mis-keyed cache entry always shows in the result."""

    def __init__(self, fname: str):
        self.fname = fname
        self.kind, _, self.codec = fname.partition("_")

    def __repr__(self):
        return f"<codec {self.fname}>"

    def __call__(self, content):
        if not isinstance(content, (bytes, bytearray)):
            raise TypeError(f"a bytes-like object is required, not {type(content).__name__!r}")
        tag = self.codec.encode()
        if self.kind == "encode":
            return tag + b"(" + bytes(content) + b")"
        if content.startswith(tag + b"(") and content.endswith(b")"):
            return bytes(content[len(tag) + 1:-1])
        raise ValueError(f"invalid {self.codec} data")


def message_rec(headers: dict, raw, impl=("mitmproxy/http.py", "Message")):
    """An abstract http.Message (bound to the repository class) over a case-insensitive header record."""
    h = _DictRec("Headers", items=dict(headers), case_insensitive=True, _name="message.headers")
    data = _Rec("MessageData", _name="message.data", headers=h, content=raw, trailers=None, http_version=b"HTTP/1.1", timestamp_start=1.0, timestamp_end=None)
    return _Rec("Message", _bases=("Serializable",), _impl=impl, _name="message", data=data)


def header_of(msg, name: str):
    for k, v in msg.data.headers._items.items():
        if isinstance(k, str) and k.lower() == name.lower():
            return v
    return None
