"""Shared helpers for batch F (tools and addons: C42 C43 C46 C50 C52 C53 C54). Pure AST utilities."""

from __future__ import annotations

import ast

from ..core import AnalysisError
from ..core import norm
from ..model import attr_chain
from ..model import last_attr
from ..model import walk_in_order
from ..paths import Engine
from ..paths import is_const
from ..paths import State


def class_members(cls: ast.ClassDef, strict: bool = True) -> dict:
    """name -> node for every member defined directly in the class body (def / simple assignment).
    ``strict``: control flow in a class body is not modelled -> AnalysisError."""
    out: dict = {}
    for st in cls.body:
        if isinstance(st, (ast.FunctionDef, ast.AsyncFunctionDef, ast.ClassDef)):
            out[st.name] = st
        elif isinstance(st, ast.Assign):
            for t in st.targets:
                for tt in t.elts if isinstance(t, (ast.Tuple, ast.List)) else [t]:
                    if isinstance(tt, ast.Name):
                        out[tt.id] = st
                    elif strict:
                        raise AnalysisError(f"class {cls.name}: unmodelled class-body assignment {norm(st)}")
        elif isinstance(st, ast.AnnAssign):
            if isinstance(st.target, ast.Name) and st.value is not None:
                out[st.target.id] = st
        elif isinstance(st, (ast.Expr, ast.Pass)):
            continue
        elif strict:
            raise AnalysisError(f"class {cls.name}: unmodelled statement in class body: {norm(st)}")
    return out


def params_of(fn) -> list[str]:
    a = fn.args
    return [x.arg for x in a.posonlyargs + a.args + a.kwonlyargs]


def own_nodes(fn):
    """Nodes of ``fn`` excluding nested function / class / lambda bodies."""

    def rec(n):
        for c in ast.iter_child_nodes(n):
            if isinstance(c, (ast.FunctionDef, ast.AsyncFunctionDef, ast.ClassDef, ast.Lambda)):
                continue
            yield c
            yield from rec(c)

    yield from rec(fn)


def local_assignments(fn, name: str) -> list[ast.AST]:
    """Value nodes of every plain assignment ``name = value`` in ``fn`` (any nesting, own body only).
    Other binders of the name (for targets, with ... as, augmented assignment, walrus) -> AnalysisError."""
    vals = []
    for n in own_nodes(fn):
        if isinstance(n, ast.Assign):
            for t in n.targets:
                if isinstance(t, ast.Name) and t.id == name:
                    vals.append(n.value)
                elif isinstance(t, (ast.Tuple, ast.List)) and any(isinstance(e, ast.Name) and e.id == name for e in t.elts):
                    raise AnalysisError(f"{fn.name}: '{name}' bound by tuple unpacking ({norm(n)}), not modelled")
        elif isinstance(n, ast.AnnAssign) and isinstance(n.target, ast.Name) and n.target.id == name:
            if n.value is not None:
                vals.append(n.value)
        elif isinstance(n, ast.AugAssign) and isinstance(n.target, ast.Name) and n.target.id == name:
            raise AnalysisError(f"{fn.name}: '{name}' is augmented-assigned ({norm(n)}), not modelled")
        elif isinstance(n, ast.NamedExpr) and n.target.id == name:
            vals.append(n.value)
        elif isinstance(n, (ast.For, ast.AsyncFor, ast.comprehension)):
            for e in ast.walk(n.target):
                if isinstance(e, ast.Name) and e.id == name:
                    raise AnalysisError(f"{fn.name}: '{name}' is a loop target, not modelled")
    return vals


def single_assignment(fn, name: str):
    vals = local_assignments(fn, name)
    if len(vals) != 1:
        raise AnalysisError(f"{fn.name}: expected exactly one assignment to '{name}', found {len(vals)}")
    return vals[0]


def kwarg(call: ast.Call, name: str):
    for k in call.keywords:
        if k.arg == name:
            return k.value
    return None


def has_star_kwargs(call: ast.Call) -> bool:
    return any(k.arg is None for k in call.keywords) or any(isinstance(a, ast.Starred) for a in call.args)


def const_value(node, default=None):
    return node.value if isinstance(node, ast.Constant) else default


def is_name(node, name: str) -> bool:
    return isinstance(node, ast.Name) and node.id == name


def strip_not(expr):
    """(operand, negated?) with nested ``not`` removed."""
    neg = False
    while isinstance(expr, ast.UnaryOp) and isinstance(expr.op, ast.Not):
        expr = expr.operand
        neg = not neg
    return expr, neg


def conjuncts(expr) -> list:
    if isinstance(expr, ast.BoolOp) and isinstance(expr.op, ast.And):
        out = []
        for v in expr.values:
            out.extend(conjuncts(v))
        return out
    return [expr]


def disjuncts(expr) -> list:
    if isinstance(expr, ast.BoolOp) and isinstance(expr.op, ast.Or):
        out = []
        for v in expr.values:
            out.extend(disjuncts(v))
        return out
    return [expr]


def attribute_stores(tree, attr_names) -> list:
    """Every Assign/AugAssign/AnnAssign/Delete target that is an Attribute whose attr is in ``attr_names``."""
    out = []
    for n in walk_in_order(tree):
        tgts = []
        if isinstance(n, ast.Assign):
            for t in n.targets:
                tgts.extend(t.elts if isinstance(t, (ast.Tuple, ast.List)) else [t])
        elif isinstance(n, (ast.AugAssign, ast.AnnAssign)):
            tgts = [n.target]
        elif isinstance(n, ast.Delete):
            tgts = list(n.targets)
        for t in tgts:
            if isinstance(t, ast.Attribute) and t.attr in attr_names:
                out.append((n, t))
    return out


class StrictEngine(Engine):
    """Path engine that refuses to guess: a condition that cannot be decided from the environment forks both ways
    only if ``allow(expr)`` says the rule is indifferent to it; any other undecided condition (also an inlined
    helper whose return value is not a constant) raises AnalysisError instead of producing a verdict."""

    def __init__(self, spec, allow=lambda e: False, what=""):
        super().__init__(spec)
        self.allow = allow
        self.what = what
        self.explained = 0

    def _decide_into(self, shown, expr, s, depth, T, F):
        before = self.forks
        super()._decide_into(shown, expr, s, depth, T, F)
        if self.forks > before:
            if not self.allow(expr):
                raise AnalysisError(f"{self.what}: condition `{norm(expr)}` is not modelled (cannot be decided)")
            self.explained += self.forks - before

    def cond(self, expr, states, depth):
        bf, be = self.forks, self.explained
        r = super().cond(expr, states, depth)
        gap = (self.forks - bf) - (self.explained - be)
        if gap:
            if not self.allow(expr):
                raise AnalysisError(f"{self.what}: condition `{norm(expr)}` is not modelled (helper result not constant)")
            self.explained += gap
        return r

    def terminal(self, fn, env: dict | None = None, bindings: dict | None = None):
        """[(trace, how, state)] like paths.traces_of"""
        o = self.run(fn, State((), dict(env or {})), bindings)
        out = [(s.trace, "return", s) for s in o.ret]
        for s in o.exc:
            e = s.get("$exc")
            out.append((s.trace, "raise:" + (e[1] if is_const(e) else "?"), s))
        return out


# ---------------------------------------------------------------------------------------------------
# PureEval: evaluates a *pure* function / expression of the repository on sample constants by interpreting its AST.
# Only a whitelisted, side-effect free fragment is understood (constants, names, attribute chains given in the
# environment, comparisons, boolean operators, str / dict / tuple primitives, if / return / assignment).  Anything else
# raises AnalysisError: the rule then reports "shape not modelled", never a verdict.  No repository code is imported or run.


class Raised(Exception):
    """the interpreted fragment raises (IndexError, KeyError, ...) for this input"""


_STR_METHODS = {"startswith", "endswith", "split", "rsplit", "partition", "rpartition", "strip", "lstrip", "rstrip", "lower", "upper", "find", "rfind",
                "removeprefix", "removesuffix", "count", "replace", "casefold", "isdigit", "encode", "decode", "index", "join"}
_DICT_METHODS = {"get", "keys", "values", "items"}
_BUILTINS = {"len": len, "str": str, "bool": bool, "int": int, "min": min, "max": max, "tuple": tuple, "list": list, "any": any, "all": all}
_CMP = {ast.Eq: lambda a, b: a == b, ast.NotEq: lambda a, b: a != b, ast.Lt: lambda a, b: a < b, ast.LtE: lambda a, b: a <= b, ast.Gt: lambda a, b: a > b,
        ast.GtE: lambda a, b: a >= b, ast.In: lambda a, b: a in b, ast.NotIn: lambda a, b: a not in b, ast.Is: lambda a, b: a is b, ast.IsNot: lambda a, b: a is not b}


class PureEval:
    def __init__(self, what: str, chains: dict | None = None, calls: dict | None = None, max_steps: int = 2000):
        self.what = what
        self.chains = dict(chains or {})  # 'flow.request.path' -> value
        self.calls = dict(calls or {})  # 'cookiejar.domain_match' -> python callable (a model supplied by the rule)
        self.steps = max_steps

    def bad(self, node):
        raise AnalysisError(f"{self.what}: `{norm(node)}` is outside the pure fragment that can be evaluated (shape not modelled)")

    def expr(self, e, env):
        self.steps -= 1
        if self.steps < 0:
            raise AnalysisError(f"{self.what}: evaluation budget exhausted")
        if isinstance(e, ast.Constant):
            return e.value
        if isinstance(e, ast.Name):
            if e.id in env:
                return env[e.id]
            if e.id in ("True", "False", "None"):
                return {"True": True, "False": False, "None": None}[e.id]
            self.bad(e)
        if isinstance(e, ast.Attribute):
            ch = attr_chain(e)
            if ch and ch in self.chains:
                return self.chains[ch]
            self.bad(e)
        if isinstance(e, ast.BoolOp):
            val = None
            for v in e.values:
                val = self.expr(v, env)
                if isinstance(e.op, ast.And) and not val:
                    return val
                if isinstance(e.op, ast.Or) and val:
                    return val
            return val
        if isinstance(e, ast.UnaryOp):
            v = self.expr(e.operand, env)
            if isinstance(e.op, ast.Not):
                return not v
            if isinstance(e.op, ast.USub) and isinstance(v, int):
                return -v
            self.bad(e)
        if isinstance(e, ast.Compare):
            left = self.expr(e.left, env)
            for op, c in zip(e.ops, e.comparators):
                right = self.expr(c, env)
                try:
                    if not _CMP[type(op)](left, right):
                        return False
                except TypeError:
                    raise Raised("TypeError")
                left = right
            return True
        if isinstance(e, ast.IfExp):
            return self.expr(e.body if self.expr(e.test, env) else e.orelse, env)
        if isinstance(e, (ast.Tuple, ast.List)):
            vals = [self.expr(x, env) for x in e.elts]
            return tuple(vals) if isinstance(e, ast.Tuple) else vals
        if isinstance(e, ast.BinOp) and isinstance(e.op, (ast.Add, ast.Sub)):
            a, b = self.expr(e.left, env), self.expr(e.right, env)
            try:
                return a + b if isinstance(e.op, ast.Add) else a - b
            except TypeError:
                raise Raised("TypeError")
        if isinstance(e, ast.Subscript):
            base = self.expr(e.value, env)
            if isinstance(e.slice, ast.Slice):
                lo = self.expr(e.slice.lower, env) if e.slice.lower is not None else None
                hi = self.expr(e.slice.upper, env) if e.slice.upper is not None else None
                st = self.expr(e.slice.step, env) if e.slice.step is not None else None
                return base[lo:hi:st]
            idx = self.expr(e.slice, env)
            try:
                return base[idx]
            except (IndexError, KeyError, TypeError) as x:
                raise Raised(type(x).__name__)
        if isinstance(e, ast.JoinedStr):
            out = ""
            for v in e.values:
                if isinstance(v, ast.Constant):
                    out += str(v.value)
                elif isinstance(v, ast.FormattedValue) and v.conversion == -1 and v.format_spec is None:
                    out += str(self.expr(v.value, env))
                else:
                    self.bad(e)
            return out
        if isinstance(e, ast.Call):
            if any(k.arg is None for k in e.keywords) or any(isinstance(a, ast.Starred) for a in e.args):
                self.bad(e)
            name = attr_chain(e.func)
            if name in self.calls:
                return self.calls[name](*[self.expr(a, env) for a in e.args], **{k.arg: self.expr(k.value, env) for k in e.keywords})
            if isinstance(e.func, ast.Name) and e.func.id in _BUILTINS and e.func.id not in env:
                try:
                    return _BUILTINS[e.func.id](*[self.expr(a, env) for a in e.args])
                except (ValueError, TypeError) as x:
                    raise Raised(type(x).__name__)
            if isinstance(e.func, ast.Attribute):
                recv = self.expr(e.func.value, env)
                args = [self.expr(a, env) for a in e.args]
                kw = {k.arg: self.expr(k.value, env) for k in e.keywords}
                ok = (isinstance(recv, (str, bytes)) and e.func.attr in _STR_METHODS) or (isinstance(recv, dict) and e.func.attr in _DICT_METHODS)
                if not ok:
                    self.bad(e)
                try:
                    return getattr(recv, e.func.attr)(*args, **kw)
                except (ValueError, TypeError, IndexError, KeyError) as x:
                    raise Raised(type(x).__name__)
            self.bad(e)
        self.bad(e)

    def block(self, stmts, env):
        """-> ('return', value) or ('fall', None)"""
        for st in stmts:
            if isinstance(st, ast.Expr) and isinstance(st.value, ast.Constant):
                continue
            if isinstance(st, ast.Pass):
                continue
            if isinstance(st, (ast.Assign, ast.AnnAssign)):
                if isinstance(st, ast.AnnAssign) and st.value is None:
                    continue
                val = self.expr(st.value, env)
                for t in st.targets if isinstance(st, ast.Assign) else [st.target]:
                    if isinstance(t, ast.Name):
                        env[t.id] = val
                    elif isinstance(t, (ast.Tuple, ast.List)) and all(isinstance(x, ast.Name) for x in t.elts) and isinstance(val, (tuple, list)) and len(val) == len(t.elts):
                        for x, v in zip(t.elts, val):
                            env[x.id] = v
                    else:
                        self.bad(st)
                continue
            if isinstance(st, ast.If):
                r = self.block(st.body if self.expr(st.test, env) else st.orelse, env)
                if r[0] == "return":
                    return r
                continue
            if isinstance(st, ast.Return):
                return ("return", self.expr(st.value, env) if st.value is not None else None)
            if isinstance(st, ast.Raise):
                raise Raised(last_attr(st.exc) if st.exc is not None else "")
            if isinstance(st, ast.Assert):
                if not self.expr(st.test, env):
                    raise Raised("AssertionError")
                continue
            self.bad(st)
        return ("fall", None)

    def call(self, fn, *args, **kwargs):
        """Evaluate ``fn`` (FunctionDef) on concrete arguments."""
        if fn.decorator_list or isinstance(fn, ast.AsyncFunctionDef) or fn.args.vararg or fn.args.kwarg:
            raise AnalysisError(f"{self.what}: {fn.name} is decorated / async / variadic (not modelled)")
        names = [a.arg for a in fn.args.posonlyargs + fn.args.args]
        if len(args) > len(names):
            raise AnalysisError(f"{self.what}: too many arguments for {fn.name}")
        env = dict(zip(names, args))
        env.update(kwargs)
        defaults = fn.args.defaults
        for n, d in zip(names[len(names) - len(defaults):], defaults):
            if n not in env:
                env[n] = self.expr(d, {})
        if set(names) - set(env):
            raise AnalysisError(f"{self.what}: missing arguments for {fn.name}: {sorted(set(names) - set(env))}")
        body = list(fn.body)
        return self.block(body, env)[1]


__all__ = [
    "class_members", "params_of", "own_nodes", "local_assignments", "single_assignment", "kwarg", "has_star_kwargs",
    "const_value", "is_name", "strip_not", "conjuncts", "disjuncts", "attribute_stores", "attr_chain", "last_attr",
]
