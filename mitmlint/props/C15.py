"""C15 - upstream certificates are verified unless verification is disabled.

Decided (configuration dataflow and failure-path structure; OpenSSL's own chain/name checking is trusted):
  R15.1 ``TlsConfig.tls_start_server``: in the world ssl_insecure=False every feasible path hands ``net_tls.Verify.VERIFY_PEER`` to
        ``create_proxy_server_context(verify=...)``, in the world ssl_insecure=True ``VERIFY_NONE``; ``Verify`` members are the
        OpenSSL constants of the same name; ``create_proxy_server_context`` calls ``context.set_verify(verify.value, None)`` on the
        returned context on every path (no callback that could override the verdict) and nothing else calls ``set_verify`` on the
        server side; same table for ``quic_start_server`` (``ssl.CERT_REQUIRED`` / ``ssl.CERT_NONE``) flowing unchanged into
        ``QuicConfiguration(verify_mode=...)``.
  R15.2 host-name binding: on every path with ``server.sni`` set, ``X509_VERIFY_PARAM_set_hostflags(param, DEFAULT_HOSTFLAGS)`` is
        followed by exactly one of ``set1_host`` (ValueError branch = DNS name) / ``set1_ip`` (IP literal), applied to the param of
        *this* connection, fed from ``server.sni``, each followed by ``_openssl_assert(ok == 1)``; ``DEFAULT_HOSTFLAGS`` contains
        NO_PARTIAL_WILDCARDS and NEVER_CHECK_SUBJECT and no weakening flag; without SNI and ssl_insecure=False the function raises.
  R15.3 trust store of ``create_proxy_server_context``: ``load_verify_locations(ca_pemfile, ca_path)`` on every returning path; certifi's
        bundle replaces ``ca_pemfile`` exactly in the world where both are None; the two arguments come from the options
        ``ssl_verify_upstream_trusted_ca`` / ``ssl_verify_upstream_trusted_confdir`` (also for QUIC).
  R15.4 failure path: ``TLSLayer.receive_handshake_data`` answers ``(False, err)`` on every path through its ``SSL.Error`` handler;
        ``TunnelLayer._handle_event`` then runs ``on_handshake_error`` before ``_handshake_finished``; the on_handshake_error chain
        (ServerTLSLayer -> TLSLayer -> TunnelLayer) sets ``conn.error``, fires ``TlsFailedServerHook`` and closes the connection;
        ``_handshake_finished(err)`` closes the tunnel and answers ``OpenConnectionCompleted(cmd, err)``; ``HttpClient`` builds no
        protocol layer and yields ``RegisterHttpConnection(server, err)``; ``register_connection`` replies ``(None, err)``;
        ``make_server_connection`` turns it into a CONNECT_FAILED protocol error and its callers send nothing (no ``SendHttp``)
        afterwards.
        The three HTTP-layer steps (HttpClient, register_connection, make_server_connection) are read by value with C08's
        path analysis: the outcome of OpenConnection / the unpacked reply of GetHttpConnection are symbols followed through
        renamed locals, temporaries, conditional expressions and extracted `self.<helper>()` calls.
Not decided: the verdict of OpenSSL / aioquic on concrete certificate chains.
"""

from __future__ import annotations

import ast

from ..core import AnalysisError
from ..core import norm
from ..model import attr_chain
from ..model import call_name
from ..model import calls_in
from ..model import last_attr
from ..model import walk_in_order
from ..paths import C
from ..paths import index_of
from ..paths import R
from ..paths import traces_of
from ..selftest import Mutant
from .C08 import helper_resolver
from .C08 import canon_chain
from .C08 import DSpec
from .C08 import run_d
from .C08 import server_connection_paths
from .C08 import sym
from .C08 import truthiness_subject
from .C08 import waiter_replies
from ._helpers_B import ceval
from ._helpers_B import consistent
from ._helpers_B import feasible
from ._helpers_B import FlowSpec
from ._helpers_B import local_defs
from ._helpers_B import mentions
from ._helpers_B import NotAnAtom

PROP = "C15"
REG = {
    "strength": "partial",
    "technique": "path enumeration with conditions evaluated in concrete option worlds (ssl_insecure, trust-store options), dataflow of "
    "verify/param/host arguments, flag-constant evaluation, must-follow facts along the handshake failure chain (helpers inlined)",
    "claim": "with ssl_insecure off the server context is created with VERIFY_PEER and no verify callback, the host name / IP of the SNI is bound "
    "to the connection's X509 verify parameters with strict host flags (or the function raises), the configured trust store is always "
    "loaded, and a failed handshake is reported as a connection error through every layer without any SendHttp to that server.",
    "note": "OpenSSL / aioquic verification of concrete chains is library behaviour (trusted).",
}
T = "mitmproxy/addons/tlsconfig.py"
NT = "mitmproxy/net/tls.py"
PT = "mitmproxy/proxy/layers/tls.py"
TU = "mitmproxy/proxy/tunnel.py"
HT = "mitmproxy/proxy/layers/http/__init__.py"
QS = "mitmproxy/proxy/layers/quic/_stream_layers.py"

INSECURE = "ctx.options.ssl_insecure"


def insecure_atom(value):
    def atom(node, env):
        if isinstance(node, ast.Attribute) and attr_chain(node) == INSECURE:
            return value
        if isinstance(node, (ast.Attribute, ast.Name, ast.Call)):
            raise AnalysisError(f"condition mixes ssl_insecure with something not modelled: {norm(node)}")
        raise NotAnAtom

    return atom


class VerifySpec(FlowSpec):
    def refs_are_distinct(self, a, b):
        return (a.startswith("net_tls.Verify.") and b.startswith("net_tls.Verify.")) or super().refs_are_distinct(a, b)


def _r15_1(ctx):
    m = ctx.model
    tss = ctx.func(T, "TlsConfig.tls_start_server")
    where = (T, "TlsConfig.tls_start_server", tss)
    CREATE = "net_tls.create_proxy_server_context"
    creates = calls_in(tss, CREATE)
    ctx.require(len(creates) == 1, f"tls_start_server: {len(creates)} calls of {CREATE} (exactly one modelled)")
    ctx.require(all(k.arg for k in creates[0].keywords) and not creates[0].args, "create_proxy_server_context called with positional/** arguments (not modelled)")

    class S(VerifySpec):
        def events(self, node, st):
            out = list(super().events(node, st))
            for n in ast.walk(node):
                if n is creates[0]:
                    kw = {k.arg: k.value for k in n.keywords}
                    out.append(("create", self.value(kw["verify"], st, 0) if "verify" in kw else None))
            return out

    spec = S(keep=lambda ev: ev[0] == "create" or (ev[0] == "cond" and INSECURE in ev[1]), implicit_raises=False)
    res, eng = traces_of(tss, spec)
    ctx.paths += len(res)
    ctx.require(any(e[0] == "cond" for t, _, _ in res for e in t), "tls_start_server no longer branches on ctx.options.ssl_insecure (shape not modelled)")
    for insecure, want in ((False, R("net_tls.Verify.VERIFY_PEER")), (True, R("net_tls.Verify.VERIFY_NONE"))):
        got = set()
        for t, how, st in res:
            if not feasible(t, lambda n: mentions(n, INSECURE), insecure_atom(insecure), what="tls_start_server"):
                continue
            for e in t:
                if e[0] == "create":
                    got.add(e[1])
        ctx.require(got, f"tls_start_server: no feasible path reaches create_proxy_server_context with ssl_insecure={insecure}")
        ctx.check(got == {want}, "R15.1", where, f"verify argument with ssl_insecure={insecure}",
                  f"create_proxy_server_context receives verify in {sorted(map(str, got))}, expected {want[1]}: "
                  + ("upstream certificates are not verified although ssl_insecure is off" if not insecure else "ssl_insecure does not disable verification"),
                  desc=f"ssl_insecure={insecure} -> verify={want[1]}")
    # Verify enum
    vc = m.cls(NT, "Verify")
    members = {t.id: norm(s.value) for s in vc.body if isinstance(s, ast.Assign) for t in s.targets if isinstance(t, ast.Name)}
    ctx.check(members.get("VERIFY_PEER") == "SSL.VERIFY_PEER" and members.get("VERIFY_NONE") == "SSL.VERIFY_NONE", "R15.1", (NT, "Verify", vc), "Verify.VERIFY_PEER = SSL.VERIFY_PEER",
              f"the Verify enum no longer maps to the OpenSSL constants of the same name: {members}", desc="Verify members are the OpenSSL constants")
    # set_verify in create_proxy_server_context
    cps = ctx.func(NT, "create_proxy_server_context")
    ctx.require("verify" in [a.arg for a in cps.args.kwonlyargs + cps.args.args], "create_proxy_server_context lost its verify parameter")
    ctx.require(not local_defs(cps, "verify"), "create_proxy_server_context rebinds verify (not modelled)")
    spec = FlowSpec(keep=lambda ev: ev[0] in ("callx", "ret") and (ev[0] == "ret" or ev[1].endswith(".set_verify")), call_nodes=True, ret_nodes=True)
    res, eng = traces_of(cps, spec)
    bad = 0
    nret = 0
    for t, how, st in res:
        if how != "return":
            continue
        nret += 1
        ret = [e for e in t if e[0] == "ret"]
        sv = [e for e in t if e[0] == "callx"]
        ok = (
            len(ret) == 1 and isinstance(ret[0][1], ast.Name) and len(sv) == 1
            and sv[0][1] == ret[0][1].id + ".set_verify"
            and len(sv[0][2].args) == 2 and not sv[0][2].keywords
            and norm(sv[0][2].args[0]) == "verify.value"
            and isinstance(sv[0][2].args[1], ast.Constant) and sv[0][2].args[1].value is None
        )
        bad += not ok
    ctx.require(nret > 0, "create_proxy_server_context has no returning path")
    ctx.paths += nret
    ctx.check(bad == 0, "R15.1", (NT, "create_proxy_server_context", cps), "context.set_verify(verify.value, None)",
              f"{bad} returning path(s) do not install exactly `set_verify(verify.value, None)` on the returned context (a callback could override the verdict, or the mode is not the requested one)",
              desc="set_verify(verify.value, None) exactly once on every returning path")
    # nobody else touches the verify mode of the server-side context / connection
    others = [c for f in (ctx.func(NT, "_create_ssl_context"), tss) for c in calls_in(f) if call_name(c).endswith(".set_verify") or call_name(c).endswith("set_verify_depth")]
    ctx.check(not others, "R15.1", (T, "TlsConfig.tls_start_server", others[0] if others else tss), "additional set_verify on the server side",
              "the verify mode is changed again after create_proxy_server_context configured it", desc="no other set_verify in _create_ssl_context / tls_start_server")
    # QUIC
    qss = ctx.func(T, "TlsConfig.quic_start_server")
    VM = "tls_start.settings.verify_mode"
    spec = FlowSpec(keep=lambda ev: (ev[0] == "cond" and INSECURE in ev[1]) or (ev[0] == "assignx" and ev[1] == VM), assign_nodes=True, implicit_raises=False)
    res, eng = traces_of(qss, spec)
    for insecure, want in ((False, "ssl.CERT_REQUIRED"), (True, "ssl.CERT_NONE")):
        got = set()
        for t, how, st in res:
            if how != "return" or not feasible(t, lambda n: mentions(n, INSECURE), insecure_atom(insecure), what="quic_start_server"):
                continue
            vals = [norm(e[2]) for e in t if e[0] == "assignx"]
            if any(e[0] == "cond" for e in t):  # paths past the early return
                got.add(vals[-1] if vals else "<unset>")
        ctx.require(got, f"quic_start_server: no feasible configuring path with ssl_insecure={insecure}")
        ctx.check(got == {want}, "R15.1", (T, "TlsConfig.quic_start_server", qss), f"QUIC verify_mode with ssl_insecure={insecure}",
                  f"verify_mode is {sorted(got)}, expected {want}", desc=f"QUIC ssl_insecure={insecure} -> {want}")
    conv = ctx.func(QS, "tls_settings_to_configuration")
    qc = [c for c in calls_in(conv) if call_name(c).endswith("QuicConfiguration")]
    ctx.require(len(qc) == 1, "tls_settings_to_configuration no longer builds one QuicConfiguration")
    kw = {k.arg: norm(k.value) for k in qc[0].keywords}
    ctx.check(kw.get("verify_mode") == "settings.verify_mode" and kw.get("cafile") == "settings.ca_file" and kw.get("capath") == "settings.ca_path", "R15.1",
              (QS, "tls_settings_to_configuration", qc[0]), "QuicConfiguration(verify_mode=settings.verify_mode, cafile=..., capath=...)",
              f"the QUIC settings do not reach aioquic unchanged: {kw.get('verify_mode')}, {kw.get('cafile')}, {kw.get('capath')}", desc="QUIC settings reach QuicConfiguration unchanged")
    ctx.expect_instances("R15.1", 8)


# flag bits as in openssl/x509v3.h (only their distinctness matters)
HOSTFLAG_BITS = {
    "X509_CHECK_FLAG_ALWAYS_CHECK_SUBJECT": 0x1,
    "X509_CHECK_FLAG_NO_WILDCARDS": 0x2,
    "X509_CHECK_FLAG_NO_PARTIAL_WILDCARDS": 0x4,
    "X509_CHECK_FLAG_MULTI_LABEL_WILDCARDS": 0x8,
    "X509_CHECK_FLAG_SINGLE_LABEL_SUBDOMAINS": 0x10,
    "X509_CHECK_FLAG_NEVER_CHECK_SUBJECT": 0x20,
}


def _hostflags_atom(node, env):
    if isinstance(node, ast.Attribute) and node.attr in HOSTFLAG_BITS and attr_chain(node.value) == "SSL._lib":
        return HOSTFLAG_BITS[node.attr]
    if isinstance(node, ast.Call) and call_name(node) == "getattr" and len(node.args) in (2, 3) and attr_chain(node.args[0]) == "SSL._lib" and isinstance(node.args[1], ast.Constant):
        if node.args[1].value in HOSTFLAG_BITS:
            return HOSTFLAG_BITS[node.args[1].value]  # the flag is available in the OpenSSL builds that are supported
    if isinstance(node, (ast.Attribute, ast.Call, ast.Name)):
        raise AnalysisError(f"DEFAULT_HOSTFLAGS: term not modelled: {norm(node)}")
    raise NotAnAtom


def _r15_2(ctx):
    m = ctx.model
    tss = ctx.func(T, "TlsConfig.tls_start_server")
    where = (T, "TlsConfig.tls_start_server", tss)
    flags = ceval(m.const(T, "DEFAULT_HOSTFLAGS"), {}, _hostflags_atom, "DEFAULT_HOSTFLAGS")
    need = HOSTFLAG_BITS["X509_CHECK_FLAG_NO_PARTIAL_WILDCARDS"] | HOSTFLAG_BITS["X509_CHECK_FLAG_NEVER_CHECK_SUBJECT"]
    weak = HOSTFLAG_BITS["X509_CHECK_FLAG_ALWAYS_CHECK_SUBJECT"] | HOSTFLAG_BITS["X509_CHECK_FLAG_MULTI_LABEL_WILDCARDS"]
    ctx.check(isinstance(flags, int) and flags & need == need and not flags & weak, "R15.2", (T, "<module>", m.const(T, "DEFAULT_HOSTFLAGS")), "DEFAULT_HOSTFLAGS",
              f"host flags {flags:#x} lack NO_PARTIAL_WILDCARDS|NEVER_CHECK_SUBJECT or contain a weakening flag: partial wildcards / Common Name fallback would be accepted",
              desc=f"DEFAULT_HOSTFLAGS = {flags:#x} (NO_PARTIAL_WILDCARDS | NEVER_CHECK_SUBJECT)")

    HF, H, IP, ASSERT = "SSL._lib.X509_VERIFY_PARAM_set_hostflags", "SSL._lib.X509_VERIFY_PARAM_set1_host", "SSL._lib.X509_VERIFY_PARAM_set1_ip", "SSL._openssl_assert"
    SNI = "server.sni"

    def keep(ev):
        if ev[0] == "callx":
            return ev[1] in (HF, H, IP, ASSERT)
        if ev[0] == "cond":
            return ev[1] == SNI or INSECURE in ev[1] or "verify" in ev[1]
        return ev[0] in ("except", "assign") and (ev[0] == "except" or ev[1] in ("ok", "param"))

    spec = VerifySpec(keep=keep, call_nodes=True)
    res, eng = traces_of(tss, spec)
    ctx.paths += len(res)
    # dataflow of param: SSL_get0_param of this connection
    pdefs = local_defs(tss, "param")
    ctx.require(len(pdefs) == 1 and isinstance(pdefs[0], ast.Call) and call_name(pdefs[0]) == "SSL._lib.SSL_get0_param" and norm(pdefs[0].args[0]) == "tls_start.ssl_conn._ssl",
                "tls_start_server: `param = SSL._lib.SSL_get0_param(tls_start.ssl_conn._ssl)` changed shape")

    def from_sni(arg):
        if mentions(arg, SNI):
            return True
        if isinstance(arg, ast.Name):
            d = local_defs(tss, arg.id)
            return bool(d) and all(mentions(x, SNI) for x in d)
        return False

    bad = {"flags": 0, "branch": 0, "assert": 0, "args": 0}
    n_host = n_ip = n_nosni_secure = 0
    bad_raise = 0
    for t, how, st in res:
        sni_conds = [e for e in t if e[0] == "cond" and e[1] == SNI]
        if not sni_conds:
            continue  # early return (a user addon provided the connection)
        if sni_conds[-1][2]:
            if how.startswith("raise"):
                continue
            calls = [e for e in t if e[0] == "callx"]
            names = [e[1] for e in calls]
            name_branch = any(e == ("except", "ValueError") for e in t)
            n_host += name_branch
            n_ip += not name_branch
            if names.count(HF) != 1 or norm(calls[names.index(HF)][2]) != f"{HF}(param, DEFAULT_HOSTFLAGS)":
                bad["flags"] += 1
                continue
            want, other = (H, IP) if name_branch else (IP, H)
            if names.count(want) != 1 or other in names or names.index(HF) > names.index(want):
                bad["branch"] += 1
                continue
            i = names.index(want)
            c = calls[i][2]
            if not (c.args and isinstance(c.args[0], ast.Name) and c.args[0].id == "param" and len(c.args) == 3 and from_sni(c.args[1])):
                bad["args"] += 1
            # ok = <call>; ...; _openssl_assert(ok == 1) with no rebinding in between
            par = getattr(c, "_parent", None)
            okname = par.targets[0].id if isinstance(par, ast.Assign) and len(par.targets) == 1 and isinstance(par.targets[0], ast.Name) else None
            j = index_of(t, lambda e: e[0] == "callx" and e[2] is c)
            k = index_of(t, lambda e: e[0] == "callx" and e[1] == ASSERT, j + 1)
            good = okname is not None and k > j and norm(t[k][2]) == f"{ASSERT}({okname} == 1)" and sum(1 for e in t[j:k] if e == ("assign", okname)) <= 1
            if not good:
                bad["assert"] += 1
        else:
            # no SNI
            for insecure in (False, True):
                if feasible(t, lambda n: mentions(n, INSECURE), insecure_atom(insecure), what="tls_start_server"):
                    if not insecure:
                        n_nosni_secure += 1
                        if not how.startswith("raise"):
                            bad_raise += 1
    ctx.require(n_host > 0 and n_ip > 0, f"tls_start_server: host ({n_host}) / ip ({n_ip}) branches not both found")
    ctx.check(bad["flags"] == 0, "R15.2", where, "X509_VERIFY_PARAM_set_hostflags(param, DEFAULT_HOSTFLAGS) with SNI",
              f"{bad['flags']} path(s) with SNI do not set the strict host flags exactly once", desc="hostflags set on every SNI path")
    ctx.check(bad["branch"] == 0, "R15.2", where, "set1_host for names / set1_ip for IP literals, after the host flags",
              f"{bad['branch']} path(s) with SNI bind no (or the wrong kind of) identity to the verify parameters: any valid certificate would be accepted for this server",
              desc=f"set1_host on {n_host} name path(s), set1_ip on {n_ip} ip path(s)")
    ctx.check(bad["args"] == 0, "R15.2", where, "set1_host/set1_ip(param, <from server.sni>, len)",
              f"{bad['args']} path(s) bind an identity that is not derived from server.sni or not to this connection's param", desc="identity derived from server.sni, applied to this connection's param")
    ctx.check(bad["assert"] == 0, "R15.2", where, "_openssl_assert(ok == 1) after set1_host/set1_ip",
              f"{bad['assert']} path(s) ignore a failure to install the expected identity", desc="result of set1_host/set1_ip asserted")
    ctx.require(n_nosni_secure > 0, "tls_start_server: no path without SNI found for ssl_insecure=False")
    ctx.check(bad_raise == 0, "R15.2", where, "no SNI and verification on -> raise",
              f"{bad_raise} path(s) continue without SNI although verification is on: the certificate would be checked against no name", desc="without SNI and ssl_insecure off the function raises")
    ctx.expect_instances("R15.2", 6)


def _r15_3(ctx):
    cps = ctx.func(NT, "create_proxy_server_context")
    where = (NT, "create_proxy_server_context", cps)
    LOAD = ".load_verify_locations"

    def keep(ev):
        if ev[0] == "callx":
            return ev[1].endswith(LOAD)
        if ev[0] == "cond":
            return "ca_path" in ev[1] or "ca_pemfile" in ev[1]
        return ev[0] in ("assignx", "ret") and (ev[0] == "ret" or ev[1] in ("ca_path", "ca_pemfile"))

    res, eng = traces_of(cps, FlowSpec(keep=keep, call_nodes=True, assign_nodes=True, ret_nodes=True))
    rel = lambda n: mentions(n, "ca_path", "ca_pemfile")  # noqa: E731
    stale = lambda e: e[0] == "assignx"  # noqa: E731

    def atom(node, env):
        if isinstance(node, (ast.Attribute, ast.Call)) or (isinstance(node, ast.Name) and node.id not in env):
            raise AnalysisError(f"create_proxy_server_context: trust-store condition not modelled: {norm(node)}")
        raise NotAnAtom

    for ca_path in (None, "/ca/dir"):
        for ca_pemfile in (None, "/ca/file.pem"):
            env = {"ca_path": ca_path, "ca_pemfile": ca_pemfile}
            n = bad = 0
            for t, how, st in res:
                if how != "return" or not feasible(t, rel, atom, env, "create_proxy_server_context", until=stale):
                    continue
                n += 1
                ctx.paths += 1
                loads = [e for e in t if e[0] == "callx"]
                ret = [e for e in t if e[0] == "ret"]
                assigns = [e for e in t[: index_of(t, lambda e: e[0] == "callx")] if e[0] == "assignx"]
                ok = len(loads) == 1 and len(ret) == 1 and isinstance(ret[0][1], ast.Name) and loads[0][1] == ret[0][1].id + LOAD
                if ok:
                    c = loads[0][2]
                    a = [norm(x) for x in c.args] + [f"{k.arg}={norm(k.value)}" for k in c.keywords]
                    ok = a in (["ca_pemfile", "ca_path"], ["cafile=ca_pemfile", "capath=ca_path"], ["ca_pemfile", "capath=ca_path"])
                if ok:
                    if ca_path is None and ca_pemfile is None:
                        ok = len(assigns) == 1 and assigns[0][1] == "ca_pemfile" and isinstance(assigns[0][2], ast.Call) and call_name(assigns[0][2]) == "certifi.where"
                    else:
                        ok = not assigns
                bad += not ok
            ctx.require(n > 0, f"create_proxy_server_context: no feasible returning path for {env}")
            ctx.check(bad == 0, "R15.3", where, f"trust store with ca_path={ca_path!r}, ca_pemfile={ca_pemfile!r}",
                      f"{bad} of {n} returning path(s) do not load exactly the configured trust store (certifi's bundle only when nothing is configured)",
                      desc=f"ca_path={ca_path!r}, ca_pemfile={ca_pemfile!r}: load_verify_locations(ca_pemfile, ca_path)" + (" after certifi.where()" if ca_path is None and ca_pemfile is None else ""))
    # option names
    tss = ctx.func(T, "TlsConfig.tls_start_server")
    create = calls_in(tss, "net_tls.create_proxy_server_context")[0]
    kw = {k.arg: norm(k.value) for k in create.keywords}
    ctx.check(kw.get("ca_path") == "ctx.options.ssl_verify_upstream_trusted_confdir" and kw.get("ca_pemfile") == "ctx.options.ssl_verify_upstream_trusted_ca", "R15.3",
              (T, "TlsConfig.tls_start_server", create), "ca_path/ca_pemfile from the ssl_verify_upstream_trusted_* options",
              f"trust store arguments are {kw.get('ca_path')} / {kw.get('ca_pemfile')}", desc="TLS: trust store options wired")
    qss = ctx.func(T, "TlsConfig.quic_start_server")
    res, eng = traces_of(qss, FlowSpec(keep=lambda ev: ev[0] == "assignx" and ev[1].startswith("tls_start.settings.ca_") or ev[0] == "cond" and INSECURE in ev[1], assign_nodes=True, implicit_raises=False))
    bad = 0
    n = 0
    for t, how, st in res:
        if how != "return" or not any(e[0] == "cond" for e in t):
            continue
        n += 1
        vals = {e[1]: norm(e[2]) for e in t if e[0] == "assignx"}
        bad += vals != {"tls_start.settings.ca_path": "ctx.options.ssl_verify_upstream_trusted_confdir", "tls_start.settings.ca_file": "ctx.options.ssl_verify_upstream_trusted_ca"}
    ctx.require(n > 0, "quic_start_server: no configuring path")
    ctx.check(bad == 0, "R15.3", (T, "TlsConfig.quic_start_server", qss), "QUIC ca_path/ca_file from the ssl_verify_upstream_trusted_* options",
              f"{bad} path(s) do not configure the trust store options for QUIC", desc="QUIC: trust store options wired")
    ctx.expect_instances("R15.3", 6)


def _r15_4(ctx):
    m = ctx.model
    # (a) receive_handshake_data
    rhd = ctx.func(PT, "TLSLayer.receive_handshake_data")
    spec = FlowSpec(keep=lambda ev: ev[0] in ("except", "ret") or (ev[0] == "assign" and ev[1] == "err"), ret_nodes=True)
    res, eng = traces_of(rhd, spec)
    n = bad = 0
    for t, how, st in res:
        if ("except", "Error") not in t:
            continue
        n += 1
        ctx.paths += 1
        i = t.index(("except", "Error"))
        ret = [e for e in t[i:] if e[0] == "ret"]
        ok = how == "return" and len(ret) == 1 and isinstance(ret[0][1], ast.Tuple) and len(ret[0][1].elts) == 2
        if ok:
            a, b = ret[0][1].elts
            ok = isinstance(a, ast.Constant) and a.value is False and isinstance(b, ast.Name) and ("assign", b.id) in t[i:]
        bad += not ok
    ctx.require(n > 0, "TLSLayer.receive_handshake_data: no path through an `except SSL.Error` handler (anchor changed)")
    # handler order: the WantReadError handler (a subclass of SSL.Error) must come first, and do_handshake must be inside the try
    tries = [s for s in walk_in_order(rhd) if isinstance(s, ast.Try) and any(call_name(c).endswith(".do_handshake") for st_ in s.body for c in calls_in(st_))]
    ctx.require(len(tries) == 1, "TLSLayer.receive_handshake_data: do_handshake() is not inside exactly one try")
    ctx.check(bad == 0, "R15.4", (PT, "TLSLayer.receive_handshake_data", rhd), "except SSL.Error -> return (False, err)",
              f"{bad} of {n} path(s) through the SSL.Error handler do not answer (False, <error text>): a failed verification is not reported as a handshake error",
              desc=f"SSL.Error -> (False, err) on {n} paths")
    # (b) TunnelLayer._handle_event
    he = ctx.func(TU, "TunnelLayer._handle_event")
    OHE, HF, RD = "self.on_handshake_error", "self._handshake_finished", "self.receive_data"
    res, eng = traces_of(he, FlowSpec(keep=lambda ev: (ev[0] == "yield_from" and ev[1] in (OHE, HF, RD)) or (ev[0] in ("cond", "assign") and ev[1] == "err"), implicit_raises=False))
    n = bad = 0
    for t, how, st in res:
        if not consistent(t, ("err",)) or not any(e[0] == "cond" and e[1] == "err" and e[2] for e in t):
            continue
        n += 1
        ctx.paths += 1
        names = [e[1] for e in t if e[0] == "yield_from"]
        bad += not (names.count(OHE) == 1 and names.count(HF) == 1 and names.index(OHE) < names.index(HF) and RD not in names)
    ctx.require(n > 0, "TunnelLayer._handle_event: no path with a handshake error (`if err:`) found")
    ctx.check(bad == 0, "R15.4", (TU, "TunnelLayer._handle_event", he), "err -> on_handshake_error(err); _handshake_finished(err)",
              f"{bad} of {n} error path(s) do not run on_handshake_error before _handshake_finished (or deliver data)", desc=f"handshake error -> on_handshake_error, _handshake_finished on {n} paths")
    # (c) on_handshake_error chain
    for rel, qual in ((PT, "ServerTLSLayer"), (PT, "TLSLayer"), (TU, "TunnelLayer")):
        fn = ctx.func(rel, qual + ".on_handshake_error")
        ctx.require(m.method(rel, qual, "on_handshake_error")[1] is fn, f"{qual}.on_handshake_error is not what the MRO resolves")
        errp = fn.args.args[1].arg
        res, eng = traces_of(fn, FlowSpec(keep=lambda ev: ev[0] in ("yield", "yield_from", "assignx", "cond"), assign_nodes=True, implicit_raises=False))
        bad = 0
        for t, how, st in res:
            ctx.paths += 1
            ys = [e[1] for e in t if e[0] in ("yield", "yield_from")]
            if qual == "TunnelLayer":
                ok = "CloseConnection" in ys
            else:
                ok = ys and ys[-1] == "super().on_handshake_error"
            if qual == "TLSLayer":
                ok = ok and any(e[0] == "assignx" and e[1] == "self.conn.error" and isinstance(e[2], ast.Name) and e[2].id == errp for e in t)
                is_client = [e[2] for e in t if e[0] == "cond" and e[1] == "self.conn == self.context.client"]
                ok = ok and len(is_client) == 1 and (("TlsFailedClientHook" in ys) if is_client[0] else ("TlsFailedServerHook" in ys))
            bad += not ok or how != "return"
        what = {"ServerTLSLayer": "-> super().on_handshake_error(err)", "TLSLayer": "conn.error = err; TlsFailed*Hook; super()", "TunnelLayer": "CloseConnection(tunnel_connection)"}[qual]
        ctx.check(bad == 0, "R15.4", (rel, qual + ".on_handshake_error", fn), f"{qual}.on_handshake_error: {what}",
                  f"{bad} path(s) of the error handler chain skip a step (error text on the connection, tls_failed hook, close)", desc=f"{qual}.on_handshake_error: {what}")
    for fn, rel, q in ((ctx.func(PT, "TLSLayer.on_handshake_error"), PT, "TLSLayer"), (ctx.func(PT, "ServerTLSLayer.on_handshake_error"), PT, "ServerTLSLayer")):
        for c in calls_in(fn, "super().on_handshake_error"):
            ctx.require(len(c.args) == 1 and isinstance(c.args[0], ast.Name) and c.args[0].id == fn.args.args[1].arg, f"{q}.on_handshake_error passes something else than err to super()")
    ctx.require([c.name for _, c in m.mro(PT, "ServerTLSLayer")][:3] == ["ServerTLSLayer", "TLSLayer", "TunnelLayer"], "ServerTLSLayer MRO changed")
    # (d) _handshake_finished
    hf = ctx.func(TU, "TunnelLayer._handshake_finished")
    errp = hf.args.args[1].arg
    res, eng = traces_of(hf, FlowSpec(keep=lambda ev: ev[0] in ("cond", "assignx", "callx") and (ev[0] != "callx" or ev[1].endswith("OpenConnectionCompleted")), assign_nodes=True, call_nodes=True, implicit_raises=False))
    n = bad = 0
    for t, how, st in res:
        if not any(e[0] == "cond" and e[1] == errp and e[2] for e in t):
            continue
        n += 1
        ctx.paths += 1
        states = [norm(e[2]) for e in t if e[0] == "assignx" and e[1] == "self.tunnel_state"]
        ok = states == ["TunnelState.CLOSED"]
        if any(e[0] == "cond" and e[1] == "self.command_to_reply_to" and e[2] for e in t):
            occ = [e[2] for e in t if e[0] == "callx"]
            ok = ok and len(occ) == 1 and len(occ[0].args) == 2 and norm(occ[0].args[0]) == "self.command_to_reply_to" and norm(occ[0].args[1]) == errp
        bad += not ok
    ctx.require(n > 0, "_handshake_finished: no error path")
    ctx.check(bad == 0, "R15.4", (TU, "TunnelLayer._handshake_finished", hf), "err -> tunnel CLOSED, OpenConnectionCompleted(cmd, err)",
              f"{bad} of {n} error path(s) leave the tunnel open or answer the pending OpenConnection without the error", desc="_handshake_finished(err): CLOSED + OpenConnectionCompleted(cmd, err)")
    # (e) HTTP layer
    # HttpClient: the outcome of OpenConnection is followed by value (symbol `err`), whatever the local is called
    hc = ctx.func(HT, "HttpClient._handle_event")

    def hc_val(expr, st, sp):
        if isinstance(expr, ast.Yield) and isinstance(expr.value, ast.Call) and last_attr(expr.value.func) == "OpenConnection":
            return sym("err")
        return None

    def hc_label(node, st, sp):
        out = []
        for n in ast.walk(node):
            if isinstance(n, ast.Yield) and isinstance(n.value, ast.Call) and last_attr(n.value.func) == "OpenConnection":
                out.append(("open", " ".join(canon_chain(a, st, sp) or norm(a) for a in n.value.args)))
            elif isinstance(n, ast.YieldFrom):
                out.append(("delegate", norm(n.value)))
            elif isinstance(n, ast.Call) and last_attr(n.func) == "RegisterHttpConnection":
                args = list(n.args) + [k.value for k in n.keywords]
                tags = []
                for a_ in args:
                    v = sp.v(a_, st)
                    tags.append(v[1] if v[:1] == ("sym",) else "None" if v == C(None) else canon_chain(a_, st, sp) or norm(a_))
                out.append(("register", tuple(tags)))
        if isinstance(node, (ast.Assign, ast.AnnAssign)):
            for t_ in node.targets if isinstance(node, ast.Assign) else [node.target]:
                if canon_chain(t_, st, sp) in ("self.child_layer", "self._handle_event"):
                    out.append(("build", canon_chain(t_, st, sp)))
        return out

    def hc_atom(expr, st, sp):
        ts = truthiness_subject(expr)
        if ts is not None and sp.v(ts[0], st) == sym("err"):
            return ("ERR", ts[1])
        return None

    n = bad = 0
    for world in (True, False):
        spec = DSpec(label=hc_label, atom=hc_atom, val=hc_val, scenario={"ERR": world}, resolver=helper_resolver(ctx, "HttpClient", ("_handle_event",)))
        res, eng = run_d(hc.body, spec)
        for t, how, st in res:
            if how != "return":
                continue
            ctx.paths += 1
            opened = [e for e in t if e[0] == "open"]
            failed = world and bool(opened)
            reg = [e[1] for e in t if e[0] == "register"]
            builds = any(e[0] in ("build", "delegate") for e in t)
            ok = len(reg) == 1 and len(reg[0]) == 2 and reg[0][0] == "self.context.server" and reg[0][1] in (("err",) if failed else ("err", "None") if opened else ("None",))
            ok = ok and all(e[1] == "self.context.server" for e in opened)
            if failed:
                n += 1
                ok = ok and not builds  # a protocol layer may only be built when the connection attempt did not fail
            bad += not ok
    ctx.require(n > 0 or bad > 0, "HttpClient._handle_event: no path with a connection error")
    ctx.check(bad == 0, "R15.4", (HT, "HttpClient._handle_event", hc), "err -> RegisterHttpConnection(server, err), no protocol layer",
              f"{bad} path(s) build a client protocol layer without having established `not err`, or do not register the connection with the error", desc="HttpClient: error -> RegisterHttpConnection(server, err) only")
    # register_connection in the world `command.err is set`: what every waiting stream is answered with (the reply is followed by
    # value through temporaries, conditional expressions and extracted helpers - C08's analysis of the same function)
    rc, cmdp, paths = waiter_replies(ctx, True)
    replies = [e[2] for toks in paths for e in toks if e[0] == "complete"]
    ctx.require(replies, "HttpLayer.register_connection: no error path that answers a waiting stream")
    bad = sum(1 for r in replies if r != ("reply", "None", f"{cmdp}.err"))
    ctx.check(bad == 0, "R15.4", (HT, "HttpLayer.register_connection", rc), "command.err -> reply = (None, command.err)", f"{bad} error path(s) reply with a usable connection", desc="register_connection: error -> (None, err)")
    # make_server_connection + callers
    # (the reply of GetHttpConnection is followed by value: `conn`, `err` stand for the two unpacked elements whatever they are called)
    msc, outcomes, _ = server_connection_paths(ctx)
    n = bad = 0
    for evs, how, ret in outcomes[True]:
        n += 1
        pe = [e[1] for e in evs if e[0] == "protoerr"]
        ok = len(pe) == 1 and "ErrorCode.CONNECT_FAILED" in pe[0] and "err" in pe[0]
        ok = ok and how == "return" and ret == C(False) and not any(e[0] == "bind" and e[1] == "self.context.server" for e in evs)
        bad += not ok
    ctx.require(n > 0, "make_server_connection: no error path")
    ctx.check(bad == 0, "R15.4", (HT, "HttpStream.make_server_connection", msc), "err -> ResponseProtocolError(CONNECT_FAILED), return False",
              f"{bad} error path(s) do not end the flow with a CONNECT_FAILED protocol error / adopt the failed connection", desc="make_server_connection: error -> CONNECT_FAILED, False")
    callers = [q for q, d in m.module(HT).defs().items() if q.startswith("HttpStream.") and isinstance(d, (ast.FunctionDef,)) and d is not msc and calls_in(d, "self.make_server_connection")]
    ctx.require(len(callers) >= 2, f"callers of make_server_connection: {callers}")

    def resolver(call):
        return msc if call_name(call) == "self.make_server_connection" else None

    for q in callers:
        fn = ctx.func(HT, q)
        res, eng = traces_of(fn, FlowSpec(keep=lambda ev: ev[0] == "yield" or (ev[0] == "callx" and ev[1] == "ResponseProtocolError"), resolver=resolver, call_nodes=True, implicit_raises=False))
        n = bad = 0
        for t, how, st in res:
            i = index_of(t, lambda e: e[0] == "callx")
            if i < 0:
                continue
            n += 1
            ctx.paths += 1
            bad += any(e == ("yield", "SendHttp") for e in t[i:])
        ctx.require(n > 0, f"{q}: connection error path not found after inlining make_server_connection")
        ctx.check(bad == 0, "R15.4", (HT, q, fn), f"{q}: no SendHttp after a failed make_server_connection",
                  f"{bad} of {n} path(s) send HTTP messages after the server connection failed (e.g. certificate verification)", desc=f"{q}: nothing sent after a failed connection ({n} paths)")
    ctx.expect_instances("R15.4", 11)


def check(ctx):
    ctx.rule("R15.1", "verify mode: VERIFY_PEER iff not ssl_insecure, installed without callback; QUIC CERT_REQUIRED iff not ssl_insecure")
    ctx.rule("R15.2", "host name / IP of the SNI bound to the connection's verify parameters with strict host flags; no SNI + verification -> raise")
    ctx.rule("R15.3", "trust store: configured CA file/dir always loaded, certifi only when none is configured")
    ctx.rule("R15.4", "failed handshake -> (False, err) -> on_handshake_error/tls_failed hook/close -> OpenConnectionCompleted(err) -> CONNECT_FAILED, nothing sent")
    ctx.trust("OpenSSL X509 verification (chain building, validity, host/IP matching under the configured flags); aioquic certificate verification")
    ctx.trust("SSL.WantReadError / ZeroReturnError are subclasses of SSL.Error (pyOpenSSL)")
    _r15_1(ctx)
    _r15_2(ctx)
    _r15_3(ctx)
    _r15_4(ctx)


MUTANTS = [
    Mutant("verify-modes-swapped", T, "        if ctx.options.ssl_insecure:\n            verify = net_tls.Verify.VERIFY_NONE\n        else:\n            verify = net_tls.Verify.VERIFY_PEER\n",
           "        if not ctx.options.ssl_insecure:\n            verify = net_tls.Verify.VERIFY_NONE\n        else:\n            verify = net_tls.Verify.VERIFY_PEER\n", "R15.1"),
    Mutant("verify-none-passed-to-context", T, "            verify=verify,\n", "            verify=net_tls.Verify.VERIFY_NONE,\n", "R15.1"),
    Mutant("verify-callback-accept-all", NT, "    context.set_verify(verify.value, None)\n", "    context.set_verify(verify.value, accept_all)\n", "R15.1"),
    Mutant("verify-enum-peer-is-none", NT, "    VERIFY_PEER = SSL.VERIFY_PEER\n", "    VERIFY_PEER = SSL.VERIFY_NONE\n", "R15.1"),
    Mutant("quic-cert-optional", T, "            tls_start.settings.verify_mode = ssl.CERT_REQUIRED\n", "            tls_start.settings.verify_mode = ssl.CERT_OPTIONAL\n", "R15.1"),
    Mutant("hostflags-drop-never-check-subject", T, "    | getattr(SSL._lib, \"X509_CHECK_FLAG_NEVER_CHECK_SUBJECT\", 0)  # type: ignore\n", "    | 0\n", "R15.2"),
    Mutant("hostflags-not-set", T, "            SSL._lib.X509_VERIFY_PARAM_set_hostflags(param, DEFAULT_HOSTFLAGS)  # type: ignore\n", "            pass\n", "R15.2"),
    Mutant("ip-branch-binds-nothing", T, "                ok = SSL._lib.X509_VERIFY_PARAM_set1_ip(param, ip, len(ip))  # type: ignore\n                SSL._openssl_assert(ok == 1)  # type: ignore\n", "                pass\n", "R15.2"),
    Mutant("set1-host-result-ignored", T, "                )  # type: ignore\n                SSL._openssl_assert(ok == 1)  # type: ignore\n            else:", "                )  # type: ignore\n            else:", "R15.2"),
    Mutant("host-name-from-address", T, "                host_name = server.sni.encode(\"idna\")\n", "                host_name = server.address[0].encode(\"idna\")\n", "R15.2"),
    Mutant("no-sni-continues-unverified", T, "        elif verify is not net_tls.Verify.VERIFY_NONE:\n            raise ValueError(\"Cannot validate certificate hostname without SNI\")\n", "", "R15.2"),
    Mutant("certifi-always", NT, "    if ca_path is None and ca_pemfile is None:\n        ca_pemfile = certifi.where()\n", "    if ca_path is None or ca_pemfile is None:\n        ca_pemfile = certifi.where()\n", "R15.3"),
    Mutant("trust-store-not-loaded-for-dir", NT, "    try:\n        context.load_verify_locations(ca_pemfile, ca_path)\n", "    try:\n        if ca_pemfile:\n            context.load_verify_locations(ca_pemfile, ca_path)\n", "R15.3"),
    Mutant("trust-options-swapped", T, "            ca_path=ctx.options.ssl_verify_upstream_trusted_confdir,\n            ca_pemfile=ctx.options.ssl_verify_upstream_trusted_ca,\n",
           "            ca_path=ctx.options.ssl_verify_upstream_trusted_ca,\n            ca_pemfile=ctx.options.ssl_verify_upstream_trusted_confdir,\n", "R15.3"),
    Mutant("ssl-error-treated-as-done", PT, "                err = f\"OpenSSL {e!r}\"\n            return False, err\n", "                err = f\"OpenSSL {e!r}\"\n                return True, None\n            return False, err\n", "R15.4"),
    Mutant("tunnel-skips-on-handshake-error", TU, "                        yield from self.on_handshake_error(err)\n                    if done or err:", "                        pass\n                    if done or err:", "R15.4"),
    Mutant("tls-failed-hook-dropped", PT, "        else:\n            yield TlsFailedServerHook(TlsData(self.conn, self.context, self.tls))\n", "        else:\n            pass\n", "R15.4"),
    Mutant("conn-error-not-set", PT, "        self.conn.error = err\n        if self.conn == self.context.client:\n            yield TlsFailedClientHook", "        if self.conn == self.context.client:\n            yield TlsFailedClientHook", "R15.4"),
    Mutant("handshake-finished-swallows-error", TU, "                events.OpenConnectionCompleted(self.command_to_reply_to, err)\n", "                events.OpenConnectionCompleted(self.command_to_reply_to, None)\n", "R15.4"),
    Mutant("register-error-replies-with-connection", HT, "            reply = (None, command.err)\n", "            reply = (command.connection, None)\n", "R15.4"),
    Mutant("httpclient-builds-layer-on-error", HT, "            err = yield commands.OpenConnection(self.context.server)\n        if not err:\n            if is_h3_alpn", "            err = yield commands.OpenConnection(self.context.server)\n        if True:\n            if is_h3_alpn", "R15.4"),
    Mutant("consume-body-sends-after-failed-connect", HT, "                ok = yield from self.make_server_connection()\n                if not ok:\n                    return\n\n                content = self.flow.request.raw_content",
           "                ok = yield from self.make_server_connection()\n\n                content = self.flow.request.raw_content", "R15.4"),
]
