"""C15 - upstream certificates are verified unless verification is disabled.

How it is decided.  The configuration side (R15.1-R15.3) and the failure path through the TLS / tunnel layers (R15.4, first half) are decided
by *interpreting* the repository's code (``mitmlint/pyint.py``: AST interpreter; repository code is never imported or run) against a
recording model of the libraries it configures - nothing is matched syntactically there:

  * ``TlsConfig.tls_start_server`` is interpreted as a whole (together with everything it calls: ``create_proxy_server_context``,
    ``_create_ssl_context``, extracted helpers, module constants) in concrete worlds - ssl_insecure on/off x SNI is a DNS name / IPv4 / IPv6
    literal / missing x trust-store options set / unset x OpenSSL accepting or refusing the identity - against a model of pyOpenSSL
    (``SSL.Context``, ``SSL.Connection``, ``SSL._lib.X509_VERIFY_PARAM_*``, ``SSL._openssl_assert``) that records what it is configured to do.
    The rules speak about the *resulting configuration of the connection handed to the proxy core* (``tls_start.ssl_conn``): the verify mode and
    callback in force, the host flags / host name / IP address in force on the X509 verify parameters of *this* connection, the trust
    locations loaded into its context.  Renamed locals, inverted or moved branches, conditional expressions, extracted helpers, try/except
    restructured into if/else, added assertions / logging / annotations are simply interpreted.
  * ``ServerTLSLayer`` (TLSLayer / TunnelLayer through the real MRO, built by interpreting the repository's constructors) is driven with a
    ``DataReceived`` event while ESTABLISHING against an OpenSSL connection whose ``do_handshake`` fails with each kind of ``SSL.Error`` the
    layer distinguishes; the rule looks at what the layer *does* (commands yielded, events handed to the child layer, connection / tunnel state).
  * Libraries outside the model (aioquic, cryptography, logging, ...) are opaque: calls on them have no effect and an opaque value may flow
    anywhere except into a decision (then: AnalysisError, never a guess).

Decided:
  R15.1 the connection created by ``tls_start_server`` verifies its peer iff ssl_insecure is off: verify mode in force (context ``set_verify`` /
        connection ``set_verify``, the last one wins) has VERIFY_PEER set and no callback that accepts a failed verification in the world
        ssl_insecure=False, is VERIFY_NONE in the world ssl_insecure=True (``Verify`` members, ``verify.value`` and the OpenSSL constants are
        part of the interpreted flow); ``quic_start_server`` + ``tls_settings_to_configuration`` hand ``ssl.CERT_REQUIRED`` / ``ssl.CERT_NONE``
        to ``QuicConfiguration(verify_mode=...)`` in the same two worlds.
  R15.2 host-name binding (worlds with ssl_insecure off): the X509 verify parameters of *this* connection end up with host flags that contain
        NO_PARTIAL_WILDCARDS and NEVER_CHECK_SUBJECT and no weakening flag, and with exactly the identity of ``server.sni``: the IDNA name for
        DNS names (no IP), the packed address for IPv4 / IPv6 literals (no host name); when OpenSSL refuses the identity (set1_host / set1_ip
        return 0) the function does not complete; without SNI the function raises.
  R15.3 trust store: the context of the connection has loaded exactly ``load_verify_locations(ssl_verify_upstream_trusted_ca,
        ssl_verify_upstream_trusted_confdir)`` in the three worlds where one of the options is set and certifi's bundle alone in the world
        where none is (no default verify paths, nothing else); the same two options reach ``QuicConfiguration(cafile=, capath=)``.
  R15.4 failure path: for every kind of handshake ``SSL.Error`` (certificate verify failed (both OpenSSL spellings), alert unknown ca / bad
        certificate, not TLS, protocol version, unknown error queue, empty error, plus one world per OpenSSL error-queue entry that
        layers/tls.py mentions anywhere - so every branch of the error classification is exercised) the server TLS layer sets ``conn.error`` to a non-empty
        text, fires exactly one ``TlsFailedServerHook`` for this connection (no established / client hook), closes the connection, ends with the
        tunnel CLOSED, sends no data, hands the child layer nothing but - when the child asked for the connection - one
        ``OpenConnectionCompleted(cmd, <that error>)`` *after* hook and close, and does not raise.
        ``HttpClient`` then builds no protocol layer and yields ``RegisterHttpConnection(server, err)``; ``register_connection`` replies
        ``(None, err)``; ``make_server_connection`` turns it into a CONNECT_FAILED protocol error and its callers send nothing (no ``SendHttp``)
        afterwards.  These three HTTP-layer steps are read by value with C08's path analysis: the outcome of OpenConnection / the unpacked reply
        of GetHttpConnection are symbols followed through renamed locals, temporaries, conditional expressions and extracted `self.<helper>()`
        calls.
Not decided: the verdict of OpenSSL / aioquic on concrete certificate chains (library; trusted), QUIC handshake failure handling.
"""

from __future__ import annotations

import ast
import collections
import enum
import ipaddress
import logging
import posixpath
import re
import ssl as _ssl_consts
import struct
import types

from ..core import AnalysisError
from ..core import norm
from ..model import call_name
from ..model import calls_in
from ..model import last_attr
from ..paths import C
from ..paths import index_of
from ..paths import traces_of
from ..pyint import _Return
from ..pyint import ClassRef
from ..pyint import Func
from ..pyint import Gen
from ..pyint import Interp
from ..pyint import Raised
from ..pyint import Rec
from ..selftest import Mutant
from .C08 import canon_chain
from .C08 import DSpec
from .C08 import helper_resolver
from .C08 import run_d
from .C08 import server_connection_paths
from .C08 import sym
from .C08 import truthiness_subject
from .C08 import waiter_replies
from ._helpers_B import FlowSpec

PROP = "C15"
REG = {
    "strength": "partial",
    "technique": "semantic interpretation (pyint) of tls_start_server / create_proxy_server_context / quic_start_server and of ServerTLSLayer's handshake-failure "
    "handling against a recording model of pyOpenSSL / aioquic in concrete option worlds (ssl_insecure, SNI kind, trust-store options, OpenSSL results); "
    "value-based path analysis (helpers inlined) for the HTTP-layer part of the failure chain",
    "claim": "with ssl_insecure off the connection handed to the proxy core verifies its peer (VERIFY_PEER, no accepting callback), has the host name / IP of "
    "the SNI bound to its own X509 verify parameters with strict host flags (or the function raises), has exactly the configured trust store loaded, and "
    "a failed handshake is reported as a connection error through every layer (conn.error, tls_failed hook, close, OpenConnectionCompleted(err), "
    "CONNECT_FAILED) without any SendHttp to that server.",
    "note": "OpenSSL / aioquic verification of concrete chains is library behaviour (trusted); the pyOpenSSL model is this module's.",
}
T = "mitmproxy/addons/tlsconfig.py"
NT = "mitmproxy/net/tls.py"
PT = "mitmproxy/proxy/layers/tls.py"
TU = "mitmproxy/proxy/tunnel.py"
HT = "mitmproxy/proxy/layers/http/__init__.py"
QS = "mitmproxy/proxy/layers/quic/_stream_layers.py"
CONN = "mitmproxy/connection.py"
CMDS = "mitmproxy/proxy/commands.py"
EVTS = "mitmproxy/proxy/events.py"
OPTS = "mitmproxy/options.py"


# ---------------------------------------------------------------------------------------------------
# the modelled outside world: recording stubs of pyOpenSSL / certifi / os / aioquic.  Everything else that is not repository code is opaque.


class _Stub:
    """marker: objects of the model (the interpreter calls them directly, also with abstract records as arguments)"""


def _stub(fn):
    fn._c15_stub = True
    return fn


class _Opaque(_Stub):
    """A value of a library outside the model.  Attribute access and calls give opaque values again (no effect on the modelled world);
    using it in a decision, a comparison, arithmetic or an iteration is an AnalysisError."""

    def __init__(self, path):
        object.__setattr__(self, "_path", path)

    def __getattr__(self, k):
        if k.startswith("__"):
            raise AttributeError(k)
        return _Opaque(f"{self._path}.{k}")

    def __call__(self, *a, **k):
        if any(isinstance(x, Func) for x in list(a) + list(k.values())):
            raise AnalysisError(f"C15 world model: a repository function is handed to `{self._path}` (library outside the model): whether / when it is called is not modelled")
        return _Opaque(f"{self._path}()")

    def __enter__(self):
        if self._path.startswith("contextlib."):  # (contextlib's managers do have an effect on control flow: never "no effect")
            raise AnalysisError(f"C15 world model: `with {self._path}` (only suppress(..) / nullcontext() as the single item of a with-statement are modelled)")
        return _Opaque(f"{self._path}.__enter__()")

    def __exit__(self, *a):
        return False

    def _refuse(self, *a, **k):
        raise AnalysisError(f"C15 world model: a decision depends on the value of `{self._path}` (library outside the model)")

    __bool__ = __eq__ = __ne__ = __lt__ = __le__ = __gt__ = __ge__ = __iter__ = __len__ = __getitem__ = __contains__ = _refuse
    __add__ = __radd__ = __sub__ = __or__ = __ror__ = __and__ = __rand__ = __int__ = __index__ = _refuse
    __hash__ = object.__hash__

    def __repr__(self):
        return f"<{self._path}>"


class _NullLogger(_Stub):
    def isEnabledFor(self, level):
        return False

    def getEffectiveLevel(self):
        return logging.WARNING

    def getChild(self, name):
        return self

    def __getattr__(self, k):
        if k.startswith("__"):
            raise AttributeError(k)
        return _stub(lambda *a, **kw: None)


class _Logging(_Stub):
    """the logging module without its effects"""

    def getLogger(self, name=None):
        return _NullLogger()

    def __getattr__(self, k):
        if k.startswith("__"):
            raise AttributeError(k)
        v = getattr(logging, k)
        if isinstance(v, (int, str)):
            return v
        return _stub(lambda *a, **kw: None)


class _OsPath(_Stub):
    """os.path on an empty file system"""

    join, basename, dirname, splitext, normpath, isabs = (staticmethod(f) for f in (posixpath.join, posixpath.basename, posixpath.dirname, posixpath.splitext, posixpath.normpath, posixpath.isabs))
    sep = "/"

    def expanduser(self, p):
        return p

    def isfile(self, p):
        return False

    isdir = exists = islink = isfile

    def __getattr__(self, k):
        if k.startswith("__"):
            raise AttributeError(k)
        return _Opaque(f"os.path.{k}")


class _OsModule(_Stub):
    """os: no environment variables, an empty file system"""

    sep, name, linesep = "/", "posix", "\n"

    def __init__(self):
        self.path = _OsPath()
        self.environ = {}

    def getenv(self, key, default=None):
        return default

    def fspath(self, p):
        return p

    def __getattr__(self, k):
        if k.startswith("__"):
            raise AttributeError(k)
        return _Opaque(f"os.{k}")


class _Trusted(dict):
    """pyint's table of non-repository modules: the registered models / pure stdlib modules, everything else opaque (repository modules and
    ``typing`` are left to pyint)."""

    def __contains__(self, target):
        if not isinstance(target, str):
            return False
        root = target.split(".")[0]
        return root not in ("mitmproxy", "typing")

    def __getitem__(self, target):
        parts = target.split(".")
        for i in range(len(parts), 0, -1):
            k = ".".join(parts[:i])
            if dict.__contains__(self, k):
                obj = dict.__getitem__(self, k)
                for p in parts[i:]:
                    try:
                        obj = getattr(obj, p)
                    except AttributeError:
                        raise AnalysisError(f"C15 world model: `{target}` is not part of the model of `{k}`")
                return obj
        return _Opaque(target)


class Error(Exception):  # the names are what `except SSL.<Name>` handlers are matched by
    pass


class WantReadError(Error):
    pass


class WantWriteError(Error):
    pass


class ZeroReturnError(Error):
    pass


class SysCallError(Error):
    pass


_SSL_EXC = {c.__name__: c for c in (Error, WantReadError, WantWriteError, ZeroReturnError, SysCallError)}

# flag bits as in openssl/x509v3.h
HOSTFLAG_BITS = {
    "X509_CHECK_FLAG_ALWAYS_CHECK_SUBJECT": 0x1,
    "X509_CHECK_FLAG_NO_WILDCARDS": 0x2,
    "X509_CHECK_FLAG_NO_PARTIAL_WILDCARDS": 0x4,
    "X509_CHECK_FLAG_MULTI_LABEL_WILDCARDS": 0x8,
    "X509_CHECK_FLAG_SINGLE_LABEL_SUBDOMAINS": 0x10,
    "X509_CHECK_FLAG_NEVER_CHECK_SUBJECT": 0x20,
}
VERIFY_NONE, VERIFY_PEER, VERIFY_FAIL_IF_NO_PEER_CERT, VERIFY_CLIENT_ONCE = 0, 1, 2, 4
CERTIFI = "<certifi's CA bundle>"
# SSL._lib functions that configure verification in a way the model does not know: their use is an AnalysisError, not a guess
_UNMODELLED_LIB = re.compile(r"X509_VERIFY_PARAM_|X509_STORE|SSL_(CTX_)?(set|add)1?_host|SSL_(CTX_)?set_hostflags|SSL_(CTX_)?set_verify|SSL_(CTX_)?set1_param|SSL_CTX_load_verify|SSL_CTX_set_default_verify|SSL_(CTX_)?dane|SSL_(CTX_)?set_cert_verify_callback|SSL_CTX_get0_param")


class _World:
    """what the modelled libraries were asked to do, in order"""

    def __init__(self, identity_ok=1, hs_error=()):
        self.log = []  # (kind, ...)
        self.identity_ok = identity_ok  # what X509_VERIFY_PARAM_set1_host / set1_ip answer
        self.hs_error = hs_error  # args of the SSL.Error do_handshake raises (R15.4)
        self.connections = []
        self.quic_configs = []
        self.n = 0

    def token(self, kind):
        self.n += 1
        return (kind, self.n)


class _Lib(_Stub):
    """SSL._lib (the cffi binding) as far as verification is configured through it"""

    def __init__(self, w):
        self._w = w

    @staticmethod
    def _param(p, what):
        if not (isinstance(p, tuple) and len(p) == 2 and p[0] == "X509_VERIFY_PARAM"):
            raise AnalysisError(f"C15 world model: {what} is applied to {p!r}, not to verify parameters obtained with SSL_get0_param")
        return p

    def SSL_get0_param(self, ssl):
        if not (isinstance(ssl, tuple) and ssl and ssl[0] == "SSL"):
            raise AnalysisError(f"C15 world model: SSL_get0_param of {ssl!r}, which is not the _ssl handle of an SSL.Connection")
        return ("X509_VERIFY_PARAM", ssl)

    def X509_VERIFY_PARAM_set_hostflags(self, param, flags):
        self._w.log.append(("hostflags", self._param(param, "set_hostflags"), flags))

    def X509_VERIFY_PARAM_set1_host(self, param, name, namelen=0):
        self._w.log.append(("set1_host", self._param(param, "set1_host"), name, namelen))
        return self._w.identity_ok

    def X509_VERIFY_PARAM_add1_host(self, param, name, namelen=0):
        self._w.log.append(("add1_host", self._param(param, "add1_host"), name, namelen))
        return self._w.identity_ok

    def X509_VERIFY_PARAM_set1_ip(self, param, ip, iplen):
        self._w.log.append(("set1_ip", self._param(param, "set1_ip"), ip, iplen))
        return self._w.identity_ok

    def X509_VERIFY_PARAM_set1_ip_asc(self, param, ipasc):
        text = ipasc.decode("ascii", "replace") if isinstance(ipasc, (bytes, bytearray)) else ipasc
        try:
            packed = ipaddress.ip_address(text).packed
        except ValueError:
            return 0
        self._w.log.append(("set1_ip", self._param(param, "set1_ip_asc"), packed, len(packed)))
        return self._w.identity_ok

    def SSL_get_verify_result(self, ssl):
        return 10  # X509_V_ERR_CERT_HAS_EXPIRED

    def X509_verify_cert_error_string(self, n):
        return ("char*", "certificate has expired")

    def __getattr__(self, k):
        if k.startswith("__"):
            raise AttributeError(k)
        if k in HOSTFLAG_BITS:
            return HOSTFLAG_BITS[k]
        if k.startswith("X509_CHECK_FLAG_"):
            raise AttributeError(k)  # a flag this OpenSSL build does not have
        if _UNMODELLED_LIB.search(k):
            raise AnalysisError(f"C15 world model: verification is configured through SSL._lib.{k}, which the model does not know")

        def f(*a):
            self._w.log.append(("lib", k, a))
            return 1

        return f


class _Ffi(_Stub):
    NULL = ("NULL", 0)

    def string(self, cdata, maxlen=-1):
        if isinstance(cdata, tuple) and len(cdata) == 2 and cdata[0] == "char*":
            return cdata[1].encode()
        return b"?"

    def __getattr__(self, k):
        if k.startswith("__"):
            raise AttributeError(k)
        return _Opaque(f"SSL._ffi.{k}")


class _Context(_Stub):
    """SSL.Context: records how verification and trust are configured; everything else is accepted and recorded"""

    def __init__(self, w, method):
        self._w = w
        self._context = w.token("SSL_CTX")
        self.method = method
        self.calls = []

    def set_verify(self, mode, callback=None):
        self.calls.append(("set_verify", mode, callback))

    def load_verify_locations(self, cafile, capath=None):
        self.calls.append(("load_verify_locations", cafile, capath))

    def __getattr__(self, k):
        if k.startswith("__"):
            raise AttributeError(k)

        def f(*a, **kw):
            self.calls.append((k, a, kw))
            return None

        return f


class _Connection(_Stub):
    """SSL.Connection: for the configuration rules (its context, per-connection verify override) and for the handshake rules (scripted failure)"""

    def __init__(self, w, context=None, socket=None):
        self._w = w
        self._context = context
        self._ssl = w.token("SSL")
        self.calls = []
        w.connections.append(self)

    def get_context(self):
        return self._context

    def set_verify(self, mode, callback=None):
        self.calls.append(("set_verify", mode, callback))

    # -- handshake script (R15.4)
    def bio_write(self, data):
        data = bytes(data)
        if not data:
            raise Error("bio_write of an empty buffer")
        self._w.log.append(("bio_write", data))
        return len(data)

    def do_handshake(self):
        self._w.log.append(("do_handshake",))
        raise Error(*self._w.hs_error)

    def bio_read(self, n):
        raise WantReadError()

    def recv(self, n, flags=None):
        raise WantReadError()

    def get_shutdown(self):
        return 0

    def __getattr__(self, k):
        if k.startswith("__"):
            raise AttributeError(k)

        def f(*a, **kw):
            self.calls.append((k, a, kw))
            return None

        return f


class _SSLModule(_Stub):
    """OpenSSL.SSL"""

    VERIFY_NONE, VERIFY_PEER, VERIFY_FAIL_IF_NO_PEER_CERT, VERIFY_CLIENT_ONCE = VERIFY_NONE, VERIFY_PEER, VERIFY_FAIL_IF_NO_PEER_CERT, VERIFY_CLIENT_ONCE
    RECEIVED_SHUTDOWN, SENT_SHUTDOWN = 2, 1
    Error, WantReadError, WantWriteError, ZeroReturnError, SysCallError = Error, WantReadError, WantWriteError, ZeroReturnError, SysCallError

    def __init__(self, w):
        self._w = w
        self._lib = _Lib(w)
        self._ffi = _Ffi()
        self._consts = {}

    def Context(self, method):
        return _Context(self._w, method)

    def Connection(self, context, socket=None):
        if not isinstance(context, _Context):
            raise AnalysisError(f"C15 world model: SSL.Connection created from {context!r}, which is not an SSL.Context")
        return _Connection(self._w, context, socket)

    def _openssl_assert(self, ok):
        self._w.log.append(("assert", bool(ok)))
        if not ok:
            raise Error([("", "", "")])

    def __getattr__(self, k):
        if k.startswith("__"):
            raise AttributeError(k)
        if re.fullmatch(r"[A-Z][A-Z0-9]*_[A-Za-z0-9_]+", k):
            return self._consts.setdefault(k, 0x1000 + len(self._consts))  # OP_*, *_METHOD, *_VERSION ...: distinct integers
        return _Opaque(f"SSL.{k}")


class _QuicConfiguration(_Stub):
    def __init__(self, w, kwargs):
        self.kwargs = kwargs
        w.quic_configs.append(self)


class _Options(_Stub):
    """ctx.options: the values of the world, else the default the repository declares with add_option (evaluated on demand)"""

    def __init__(self, world_values, default_of):
        object.__setattr__(self, "_values", dict(world_values))
        object.__setattr__(self, "_default_of", default_of)

    def __getattr__(self, k):
        if k.startswith("__"):
            raise AttributeError(k)
        if k not in self._values:
            self._values[k] = self._default_of(k)
        return self._values[k]


def _is_dataclass(cls) -> bool:
    return any(last_attr(d) == "dataclass" for d in cls.decorator_list)


class _WInterp(Interp):
    """pyint + (a) model objects are called directly (they may receive records) and the exceptions they raise keep their payload (``e.args``),
    (b) the exception hierarchy of the OpenSSL model, (c) ``Enum["NAME"]`` / ``Enum(value)``, (d) dataclass construction and positional class patterns by the fields of
    the dataclass-decorated classes only, ``isinstance(x, A | B)``, context managers of libraries outside the model, (e) a passive driver for generator methods (``run_direct``): a ``yield`` appends to the observation log and goes on, a
    ``yield from <generator>`` runs the sub-generator's body in place and evaluates to its return value."""

    _sink = None

    # -- (a)
    def native_call(self, f, args, kwargs, where):
        if isinstance(f, _Stub) or isinstance(getattr(f, "__self__", None), _Stub) or getattr(f, "_c15_stub", False):
            try:
                return f(*args, **kwargs)
            except AnalysisError:
                raise
            except TypeError as e:
                if "argument" in str(e):  # the model's signature (= the library's) does not fit the call
                    raise AnalysisError(f"C15 world model: call {where} does not fit the modelled library signature: {e}")
                raise self._raised(e)
            except Exception as e:
                raise self._raised(e)
        return Interp.native_call(self, f, args, kwargs, where)

    @staticmethod
    def _raised(e):
        r = Raised(type(e).__name__, str(e))
        r.exc = e
        return r

    def try_(self, st, env, mod, depth):
        # pyint.try_ with the handler's name bound to the model's exception object (``e.args``, ``repr(e)``) when there is one
        try:
            try:
                self.block(st.body, env, mod, depth)
            except Raised as r:
                for h in st.handlers:
                    names = ["BaseException"] if h.type is None else [last_attr(e) for e in (h.type.elts if isinstance(h.type, ast.Tuple) else [h.type])]
                    if any(self.exc_isa(r.name, n, mod) for n in names):
                        if h.name:
                            payload = getattr(r, "exc", None)
                            env[h.name] = payload if payload is not None else f"<exc:{r.name}>"
                        prev = env.get("$handling")
                        env["$handling"] = r.name
                        try:
                            self.block(h.body, env, mod, depth)
                        finally:
                            if prev is None:
                                env.pop("$handling", None)
                            else:
                                env["$handling"] = prev
                        break
                else:
                    raise
            else:
                self.block(st.orelse, env, mod, depth)
        finally:
            if st.finalbody:
                self.block(st.finalbody, env, mod, depth)

    # -- (b)
    def exc_isa(self, name, handler, mod):
        c = _SSL_EXC.get(name)
        if c is not None:
            return handler in {k.__name__ for k in c.__mro__}
        return Interp.exc_isa(self, name, handler, mod)

    # -- (c) + (e)
    def ev(self, e, env, mod, depth):
        if isinstance(e, ast.Subscript) and isinstance(e.ctx, ast.Load) and isinstance(e.value, (ast.Name, ast.Attribute)):
            base = Interp.ev(self, e.value, env, mod, depth)
            if isinstance(base, ClassRef):
                idx = self.ev(e.slice, env, mod, depth)
                try:
                    v = self.class_attr(base, idx, depth) if isinstance(idx, str) else None
                except AnalysisError:
                    v = None
                if not (isinstance(v, tuple) and v and v[0] == "$enum"):
                    raise Raised("KeyError", repr(idx))
                return v
        if isinstance(e, ast.YieldFrom) and not self._gen_targets and self._sink is not None:
            v = self.ev(e.value, env, mod, depth)
            if isinstance(v, Gen):
                if v.k or v.done:
                    raise AnalysisError("C15 harness: `yield from` of a partially consumed generator (not modelled)")
                v.done = True
                try:
                    self.block(v.node.body, dict(v.env), v.f.mod, v.depth)
                except _Return as r:
                    return r.value
                return None
            for x in self.iterate(v, e.value):
                self.do_yield(x)
            return None
        return Interp.ev(self, e, env, mod, depth)

    def run_direct(self, g, sink):
        if self._gen_targets or self._sink is not None:
            raise AnalysisError("C15 harness: nested top-level run")
        self._sink = sink
        try:
            try:
                self.block(g.node.body, dict(g.env), g.f.mod, g.depth)
            except _Return:
                pass
            g.done = True
        finally:
            self._sink = None

    def do_yield(self, value):
        cm = self._cm[-1] if self._cm else None
        if cm is not None and cm["state"] != "body" and len(self._gen_targets) == cm["gd"]:
            return Interp.do_yield(self, value)  # the `yield` of a repository @contextmanager function: pyint runs the with-body here
        if not self._gen_targets and self._sink is not None:
            self._sink.append(("yield", value))
            return None
        return Interp.do_yield(self, value)

    # -- (f) isinstance(x, A | B): pyint evaluates the union to ("$union", [classes]); its isinstance() built-in takes that tuple apart like a
    #    tuple of classes, which leaves the marker string in the list - put it together again (core bug worked around here)
    def isinstance_(self, v, classes):
        flat = []
        todo = list(classes)
        while todo:
            c = todo.pop(0)
            if isinstance(c, str) and c == "$union" and todo and isinstance(todo[0], list):
                todo = list(todo.pop(0)) + todo
            elif isinstance(c, tuple) and len(c) == 2 and c[0] == "$union":
                todo = list(c[1]) + todo
            elif isinstance(c, types.UnionType):
                todo = list(c.__args__) + todo
            else:
                flat.append(c)
        return Interp.isinstance_(self, v, flat)

    # -- (h) `case Cls(a, b)` for dataclasses: positions are the dataclass fields in order
    def match(self, pat, subj, env, mod, depth):
        if isinstance(pat, ast.MatchClass) and pat.patterns:
            cls = self.ev(pat.cls, env, mod, depth)
            if isinstance(cls, ClassRef):
                names = self._dataclass_fields(cls)
                if names is not None and len(pat.patterns) <= len(names):
                    if not self.isinstance_(subj, [cls]):
                        return False
                    new = ast.MatchClass(cls=pat.cls, patterns=[], kwd_attrs=list(names[: len(pat.patterns)]) + list(pat.kwd_attrs), kwd_patterns=list(pat.patterns) + list(pat.kwd_patterns))
                    ast.copy_location(new, pat)
                    return Interp.match(self, new, subj, env, mod, depth)
        return Interp.match(self, pat, subj, env, mod, depth)

    def _dataclass_fields(self, c):
        mro = self.model.mro(c.mod.rel, getattr(c.node, "_qual", c.node.name))
        for _, cc in mro:
            for st in cc.body:
                if isinstance(st, ast.Assign) and any(isinstance(t, ast.Name) and t.id == "__match_args__" for t in st.targets):
                    try:
                        return list(ast.literal_eval(st.value))
                    except Exception:
                        return None
        if not any(_is_dataclass(cc) for _, cc in mro):
            return None
        fields: dict = {}
        for _, cc in reversed(mro):
            if _is_dataclass(cc):
                for st in cc.body:
                    if isinstance(st, ast.AnnAssign) and isinstance(st.target, ast.Name) and "ClassVar" not in norm(st.annotation):
                        fields[st.target.id] = True
        return list(fields)

    # -- (i) `with`: pyint inlines repository @contextmanager functions and handles suppress() / nullcontext(); a context manager of a library
    #    outside the model is an _Opaque (its __enter__ / __exit__ have no effect on the modelled world)
    def stmt(self, st, env, mod, depth):
        if isinstance(st, ast.Raise) and isinstance(st.exc, ast.Name) and isinstance(env.get(st.exc.id), BaseException):
            raise self._raised(env[st.exc.id])
        return Interp.stmt(self, st, env, mod, depth)

    # -- (d) + (g)
    def instantiate(self, c, args, kwargs, depth, where):
        qual = getattr(c.node, "_qual", c.node.name)
        mro = self.model.mro(c.mod.rel, qual)
        ext = {last_attr(b) for _, cc in mro for b in cc.bases}
        if ext & {"Enum", "IntEnum", "Flag", "IntFlag", "StrEnum"} and len(args) == 1 and not kwargs:
            for _, cc in mro:
                for st in cc.body:
                    if isinstance(st, ast.Assign) and len(st.targets) == 1 and isinstance(st.targets[0], ast.Name):
                        member = self.class_attr(c, st.targets[0].id, depth)
                        if isinstance(member, tuple) and member and member[0] == "$enum" and member[3] is not None and member[3] == args[0] and type(member[3]) is type(args[0]):
                            return member
            raise Raised("ValueError", f"{args[0]!r} is not a valid {c.node.name}")
        if self.model.method(c.mod.rel, qual, "__init__") is not None or not any(_is_dataclass(cc) for _, cc in mro) or ext & {"Exception", "BaseException", "ValueError", "RuntimeError", "TypeError", "KeyError"}:
            return Interp.instantiate(self, c, args, kwargs, depth, where)
        fields: dict = {}
        for mm, cc in reversed(mro):
            if not _is_dataclass(cc):
                continue
            for st in cc.body:
                if isinstance(st, ast.AnnAssign) and isinstance(st.target, ast.Name) and "ClassVar" not in norm(st.annotation):
                    fields[st.target.id] = (st.value, mm)  # a redefinition keeps the field's position
        rec = Rec(c.node.name, _bases=tuple(cc.name for _, cc in mro[1:]) + tuple(ext), _impl=(c.mod.rel, qual))
        if len(args) > len(fields):
            raise Raised("TypeError", f"{c.node.name}: too many positional arguments")
        for name, v in zip(fields, args):
            object.__setattr__(rec, name, v)
        for k, v in kwargs.items():
            if k not in fields or k in rec.__dict__:
                raise Raised("TypeError", f"{c.node.name}: unexpected / repeated argument {k}")
            object.__setattr__(rec, k, v)
        for name, (default, mm) in fields.items():
            if name in rec.__dict__:
                continue
            if default is None:
                raise Raised("TypeError", f"{c.node.name}: missing argument {name}")
            if isinstance(default, ast.Call) and last_attr(default.func) == "field":
                kw = {k.arg: k.value for k in default.keywords}
                if "default_factory" in kw:
                    v = self.apply(self.ev(kw["default_factory"], {}, mm, depth), [], {}, depth)
                elif "default" in kw:
                    v = self.ev(kw["default"], {}, mm, depth)
                else:
                    raise Raised("TypeError", f"{c.node.name}: missing argument {name}")
            else:
                v = self.ev(default, {}, mm, depth)
            object.__setattr__(rec, name, v)
        return rec


class _CachedModel:
    """Model proxy caching the class-hierarchy queries (the tree does not change during a run)"""

    def __init__(self, m):
        self._m, self._mro, self._meth, self._dotted = m, {}, {}, {}

    def __getattr__(self, k):
        return getattr(self._m, k)

    def mro(self, rel, qual):
        k = (rel, qual)
        if k not in self._mro:
            self._mro[k] = self._m.mro(rel, qual)
        return self._mro[k]

    def method(self, rel, cls_qual, name):
        k = (rel, cls_qual, name)
        if k not in self._meth:
            r = None
            for m, c in self.mro(rel, cls_qual):
                r = next(((m, st) for st in c.body if isinstance(st, (ast.FunctionDef, ast.AsyncFunctionDef)) and st.name == name), None)
                if r:
                    break
            self._meth[k] = r
        return self._meth[k]

    def module_by_dotted(self, dotted):
        if dotted not in self._dotted:
            self._dotted[dotted] = self._m.module_by_dotted(dotted)
        return self._dotted[dotted]


class _Env:
    """what every world shares"""

    def __init__(self, ctx):
        self.ctx = ctx
        self.model = _CachedModel(ctx.model)
        self._option_defaults = None

    def interp(self, w):
        ssl_mod = _SSLModule(w)
        os_mod = _OsModule()
        quic_conf = types.SimpleNamespace(QuicConfiguration=_stub(lambda *a, **kw: self._quic_configuration(w, a, kw)))
        dataclasses_mod = types.SimpleNamespace(field=_stub(lambda default=None, default_factory=None, **kw: default_factory() if default_factory is not None else default))
        trusted = _Trusted({
            "OpenSSL.SSL": ssl_mod, "OpenSSL": types.SimpleNamespace(SSL=ssl_mod, crypto=_Opaque("OpenSSL.crypto")),
            "certifi": types.SimpleNamespace(where=_stub(lambda: CERTIFI)),
            "os": os_mod, "logging": _Logging(), "ipaddress": ipaddress, "ssl": _ssl_consts, "enum": enum, "collections": collections, "struct": struct, "re": re,
            "time": types.SimpleNamespace(time=_stub(lambda: 0.0), monotonic=_stub(lambda: 0.0), perf_counter=_stub(lambda: 0.0)),
            "aioquic.quic.configuration": quic_conf, "dataclasses": dataclasses_mod,
        })
        it = _WInterp(self.model, max_steps=200000)
        it.trusted = trusted  # (pyint copies the table it is given into a plain dict)
        return it

    @staticmethod
    def _quic_configuration(w, a, kw):
        if a:
            raise AnalysisError("C15 world model: QuicConfiguration called with positional arguments (keyword-only in aioquic)")
        return _QuicConfiguration(w, dict(kw))

    def option_default(self, it, name):
        """default of option ``name`` as declared by an ``add_option(name, typespec, default, ...)`` call in options.py / tlsconfig.py (any addon as
        a last resort), evaluated by the interpreter"""
        if self._option_defaults is None:
            self._option_defaults = {}
            self._scanned = set()
            for rel in (OPTS, T):
                self._scan_options(rel)
        if name not in self._option_defaults:
            for mod in self.model.all_modules("mitmproxy/addons"):
                self._scan_options(mod.rel)
        if name not in self._option_defaults:
            raise AnalysisError(f"C15 world model: option `{name}` is read but no add_option declaration with that name was found")
        mod, node = self._option_defaults[name]
        try:
            return it.ev(node, {}, mod, 0)
        except Raised as r:
            raise AnalysisError(f"C15 world model: default of option `{name}` raises {r.name}")

    def _scan_options(self, rel):
        if rel in self._scanned:
            return
        self._scanned.add(rel)
        mod = self.model.module(rel)
        for n in ast.walk(mod.tree):
            if isinstance(n, ast.Call) and last_attr(n.func) == "add_option":
                kw = {k.arg: k.value for k in n.keywords if k.arg}
                name = n.args[0] if n.args else kw.get("name")
                dflt = n.args[2] if len(n.args) > 2 else kw.get("default")
                if isinstance(name, ast.Constant) and isinstance(name.value, str) and dflt is not None:
                    self._option_defaults.setdefault(name.value, (mod, dflt))


SERVER_HOST = "origin.example"  # the server's address differs from every SNI of the worlds: an identity taken from the address is visible


def _connections(sni, client_sni=None):
    client = Rec("Client", _impl=(CONN, "Client"), _bases=("Connection",), _name="client", peername=("198.51.100.1", 50000), sockname=("198.51.100.2", 8080), sni=client_sni,
                 alpn=None, alpn_offers=[b"h2", b"http/1.1"], cipher_list=[], error=None, tls=False, transport_protocol="tcp", certificate_list=[], state=None,
                 timestamp_start=0.0, timestamp_end=None, timestamp_tls_setup=None, cipher=None, tls_version=None, mitmcert=None)
    server = Rec("Server", _impl=(CONN, "Server"), _bases=("Connection",), _name="server", address=(SERVER_HOST, 443), peername=("203.0.113.9", 443), sockname=None, sni=sni,
                 alpn=None, alpn_offers=[], cipher_list=[], error=None, tls=False, transport_protocol="tcp", certificate_list=[], state=None, via=None,
                 timestamp_start=None, timestamp_end=None, timestamp_tcp_setup=None, timestamp_tls_setup=None, cipher=None, tls_version=None)
    return client, server


class _ConfigRun:
    """one interpretation of TlsConfig.tls_start_server / quic_start_server in a concrete world"""

    def __init__(self, env, *, insecure, sni, client_sni=None, ca_file=None, ca_dir=None, identity_ok=1, quic=False):
        self.desc = (f"ssl_insecure={insecure}, sni={sni!r}, trusted_ca={ca_file!r}, trusted_confdir={ca_dir!r}" + (f", client sni={client_sni!r}" if client_sni is not None else "")
                     + ("" if identity_ok == 1 else f", OpenSSL refuses the identity ({identity_ok})"))
        self.w = w = _World(identity_ok=identity_ok)
        self.it = it = env.interp(w)
        opts = _Options({"ssl_insecure": insecure, "ssl_verify_upstream_trusted_ca": ca_file, "ssl_verify_upstream_trusted_confdir": ca_dir, "client_certs": None},
                        lambda name: env.option_default(it, name))
        it.overrides[(T, "ctx")] = types.SimpleNamespace(options=opts, master=_Opaque("ctx.master"), log=_NullLogger())
        self.client, self.server = _connections(sni, client_sni)
        context = Rec("Context", _name="context", client=self.client, server=self.server, layers=[], options=opts)
        if quic:
            self.data = Rec("QuicTlsData", _bases=("TlsData",), _name="tls_start", conn=self.server, context=context, ssl_conn=None, is_dtls=False, settings=None)
        else:
            self.data = Rec("TlsData", _name="tls_start", conn=self.server, context=context, ssl_conn=None, is_dtls=False)
        addon = Rec("TlsConfig", _impl=(T, "TlsConfig"), _name="tlsconfig")
        self.raised = None
        try:
            it.method(addon, "quic_start_server" if quic else "tls_start_server", self.data)
        except Raised as r:
            self.raised = r

    # -- what the proxy core gets
    def connection(self):
        conn = self.data.__dict__.get("ssl_conn")
        if not isinstance(conn, _Connection) or not isinstance(conn._context, _Context):
            raise AnalysisError(f"tls_start_server [{self.desc}]: tls_start.ssl_conn is {conn!r}, not an SSL.Connection created by the function (shape not modelled)")
        return conn

    def verify_in_force(self):
        """(mode, callback) of the connection: the last set_verify on the connection, else the last one on its context, else OpenSSL's default"""
        conn = self.connection()
        for calls in (conn.calls, conn._context.calls):
            sv = [c for c in calls if c[0] == "set_verify"]
            if sv:
                return sv[-1][1], sv[-1][2]
        return VERIFY_NONE, None

    def param_state(self):
        """host flags / host names / IP in force on the verify parameters of the connection"""
        conn = self.connection()
        me = ("X509_VERIFY_PARAM", conn._ssl)
        st = {"flags": 0, "hosts": [], "ip": None, "foreign": []}
        for e in self.w.log:
            if e[0] in ("hostflags", "set1_host", "add1_host", "set1_ip") and e[1] != me:
                st["foreign"].append(e)
            elif e[0] == "hostflags":
                st["flags"] = e[2]
            elif e[0] == "set1_host":
                st["hosts"] = [(e[2], e[3])]
            elif e[0] == "add1_host":
                st["hosts"].append((e[2], e[3]))
            elif e[0] == "set1_ip":
                st["ip"] = (e[2], e[3])
        _known([st["flags"], st["hosts"], st["ip"]], f"tls_start_server [{self.desc}]: identity bound to the verify parameters")
        for name, _ in st["hosts"]:
            if not isinstance(name, (bytes, bytearray, str)):
                raise AnalysisError(f"tls_start_server [{self.desc}]: host name handed to OpenSSL is {name!r} (not modelled)")
        st["hosts"] = [(n.encode("ascii", "replace") if isinstance(n, str) else bytes(n), k) for n, k in st["hosts"]]
        if st["ip"] is not None:
            if not isinstance(st["ip"][0], (bytes, bytearray)):
                raise AnalysisError(f"tls_start_server [{self.desc}]: address handed to OpenSSL is {st['ip'][0]!r} (not modelled)")
            st["ip"] = (bytes(st["ip"][0]), st["ip"][1])
        return st

    def trust_calls(self):
        out = [c for c in self.connection()._context.calls if c[0] in ("load_verify_locations", "set_default_verify_paths", "get_cert_store", "load_verify_directory", "load_verify_file")]
        _known(out, f"tls_start_server [{self.desc}]: trust store arguments")
        return out


def _known(values, what):
    """observations the rules compare must be values of the model, not of a library outside it"""
    todo = list(values) if isinstance(values, (list, tuple)) else [values]
    while todo:
        v = todo.pop()
        if isinstance(v, _Opaque):
            raise AnalysisError(f"{what}: computed by a library outside the model ({v!r})")
        if isinstance(v, (list, tuple)):
            todo.extend(v)
        elif isinstance(v, dict):
            todo.extend(v.values())


def _accepting_callback(run, cb):
    """does the verify callback accept a certificate OpenSSL rejected (preverify_ok = 0)?"""
    if cb is None:
        return False
    if not isinstance(cb, Func):
        raise AnalysisError(f"tls_start_server: verify callback {cb!r} is not a repository function (not modelled)")
    try:
        res = run.it.apply(cb, [run.connection(), _Opaque("x509"), 10, 0, 0], {}, 0)
    except Raised:
        return False  # pyOpenSSL treats a raising callback as a failed verification
    return run.it.truthy(res)


def _int(v, what):
    if isinstance(v, bool) or not isinstance(v, int):
        raise AnalysisError(f"{what} is {v!r}, not an integer the OpenSSL model understands")
    return v


def _r15_1(ctx, env):
    tss = ctx.func(T, "TlsConfig.tls_start_server")
    where = (T, "TlsConfig.tls_start_server", tss)
    bad = {False: [], True: []}
    cb_bad = []
    for insecure in (False, True):
        for sni in ("www.example.com", "192.0.2.7"):
            run = _ConfigRun(env, insecure=insecure, sni=sni)
            ctx.cells += 1
            ctx.require(run.raised is None, f"tls_start_server raises {run.raised} in the world [{run.desc}] (world not understood)")
            mode, cb = run.verify_in_force()
            mode = _int(mode, "the verify mode handed to set_verify")
            if insecure:
                if mode != VERIFY_NONE and not _accepting_callback(run, cb):
                    bad[True].append(f"[{run.desc}] mode {mode:#x}")
            else:
                if not mode & VERIFY_PEER:
                    bad[False].append(f"[{run.desc}] mode {mode:#x}")
                elif _accepting_callback(run, cb):
                    cb_bad.append(f"[{run.desc}] callback {getattr(cb.node, 'name', 'lambda')}")
    ctx.check(not bad[False], "R15.1", where, "verify mode of the server connection with ssl_insecure=False",
              f"the connection handed to the proxy core does not verify its peer although ssl_insecure is off (VERIFY_PEER not in force): {'; '.join(bad[False])}",
              desc="ssl_insecure=False -> VERIFY_PEER in force on tls_start.ssl_conn")
    ctx.check(not bad[True], "R15.1", where, "verify mode of the server connection with ssl_insecure=True",
              f"ssl_insecure does not disable verification (VERIFY_NONE not in force): {'; '.join(bad[True])}", desc="ssl_insecure=True -> VERIFY_NONE in force on tls_start.ssl_conn")
    ctx.check(not cb_bad, "R15.1", where, "verify callback of the server connection",
              f"a verify callback accepts certificates OpenSSL rejected, overriding the verdict: {'; '.join(cb_bad)}", desc="no verify callback overrides OpenSSL's verdict")
    # QUIC
    qss = ctx.func(T, "TlsConfig.quic_start_server")
    conv = _quic_converter(ctx)
    for insecure, want in ((False, _ssl_consts.CERT_REQUIRED), (True, _ssl_consts.CERT_NONE)):
        kw = _quic_world(ctx, env, conv, insecure, "/world/ca.pem", "/world/ca-dir")
        got = kw.get("verify_mode")
        ctx.check(got is want, "R15.1", (T, "TlsConfig.quic_start_server", qss), f"QUIC verify_mode with ssl_insecure={insecure}",
                  f"QuicConfiguration receives verify_mode={got!r}, expected {want!r}", desc=f"QUIC ssl_insecure={insecure} -> QuicConfiguration(verify_mode={want.name})")
    ctx.expect_instances("R15.1", 5)


def _quic_converter(ctx):
    """the function of the QUIC layer module that turns the addon's settings into aioquic's QuicConfiguration: found by what it does"""
    mod = ctx.model.module(QS)
    found = [(q, d) for q, d in mod.defs().items() if isinstance(d, ast.FunctionDef) and "." not in q and any(last_attr(c.func) == "QuicConfiguration" for c in calls_in(d))]
    ctx.require(len(found) == 1, f"{QS}: {len(found)} module-level functions build a QuicConfiguration (exactly one modelled)")
    ctx.func(QS, found[0][0])
    return found[0]


def _quic_world(ctx, env, conv, insecure, ca_file, ca_dir):
    """keyword arguments QuicConfiguration receives for the settings quic_start_server produces"""
    run = _ConfigRun(env, insecure=insecure, sni="www.example.com", ca_file=ca_file, ca_dir=ca_dir, quic=True)
    ctx.cells += 1
    ctx.require(run.raised is None, f"quic_start_server raises {run.raised} in the world [{run.desc}] (world not understood)")
    settings = run.data.__dict__.get("settings")
    ctx.require(isinstance(settings, Rec), f"quic_start_server leaves tls_start.settings = {settings!r} (shape not modelled)")
    conv_name, conv = conv
    a = conv.args
    params = [p.arg for p in a.posonlyargs + a.args + a.kwonlyargs]
    ctx.require(params, f"{conv_name} takes no parameters")
    values = {"is_client": True, "server_name": "www.example.com"}
    n_required = len(a.posonlyargs + a.args) - len(a.defaults)
    required = set(params[:n_required]) | {p.arg for p, d in zip(a.kwonlyargs, a.kw_defaults) if d is None}
    kwargs = {params[0]: settings}
    for p in params[1:]:
        if p in values:
            kwargs[p] = values[p]
        elif p in required:
            raise AnalysisError(f"{conv_name} has a new required parameter `{p}` (not modelled)")
    try:
        if a.posonlyargs:
            run.it.call(QS, conv_name, settings, **{k: v for k, v in kwargs.items() if k != params[0]})
        else:
            run.it.call(QS, conv_name, **kwargs)
    except Raised as r:
        raise AnalysisError(f"{conv_name} raises {r} on the settings of quic_start_server")
    ctx.require(len(run.w.quic_configs) == 1, f"{conv_name} builds {len(run.w.quic_configs)} QuicConfiguration objects (exactly one modelled)")
    kw = dict(run.w.quic_configs[0].kwargs)
    _known([kw.get(k) for k in ("verify_mode", "cafile", "capath", "server_name")], "QuicConfiguration(verify_mode=, cafile=, capath=, server_name=)")
    kw["$server_name_given"] = "server_name" in kwargs
    return kw


def _r15_2(ctx, env):
    tss = ctx.func(T, "TlsConfig.tls_start_server")
    where = (T, "TlsConfig.tls_start_server", tss)
    need = HOSTFLAG_BITS["X509_CHECK_FLAG_NO_PARTIAL_WILDCARDS"] | HOSTFLAG_BITS["X509_CHECK_FLAG_NEVER_CHECK_SUBJECT"]
    weak = HOSTFLAG_BITS["X509_CHECK_FLAG_ALWAYS_CHECK_SUBJECT"] | HOSTFLAG_BITS["X509_CHECK_FLAG_MULTI_LABEL_WILDCARDS"]
    worlds = [("DNS name", "www.example.com"), ("IPv4 literal", "192.0.2.7"), ("IPv6 literal", "2001:db8::1")]
    flag_bad = []
    seen_flags = set()
    for kind, sni in worlds:
        run = _ConfigRun(env, insecure=False, sni=sni)
        ctx.cells += 1
        ctx.require(run.raised is None, f"tls_start_server raises {run.raised} in the world [{run.desc}] (world not understood)")
        st = run.param_state()
        ctx.require(not st["foreign"], f"tls_start_server [{run.desc}] configures verify parameters of another connection: {st['foreign'][:2]} (not modelled)")
        flags = _int(st["flags"], "the host flags handed to X509_VERIFY_PARAM_set_hostflags")
        if kind == "DNS name":  # (host flags govern the matching of DNS names only)
            seen_flags.add(flags)
            if flags & need != need or flags & weak:
                flag_bad.append(f"[{run.desc}] {flags:#x}")
            name = sni.encode("idna")
            ok = st["ip"] is None and len(st["hosts"]) == 1 and st["hosts"][0][0] == name and st["hosts"][0][1] in (len(name), 0)
            why = f"host names {st['hosts']}, ip {st['ip']}; expected host {name!r} only"
            bad = "any valid certificate would be accepted for this server" if not st["hosts"] and st["ip"] is None else "the certificate is checked against another identity than the SNI"
        else:
            packed = ipaddress.ip_address(sni).packed
            ok = not st["hosts"] and st["ip"] is not None and st["ip"][0] == packed and st["ip"][1] == len(packed)
            why = f"host names {st['hosts']}, ip {st['ip']}; expected ip {packed!r} only"
            bad = "any valid certificate would be accepted for this server" if not st["hosts"] and st["ip"] is None else "the certificate is checked against another identity than the address in the SNI"
        ctx.check(ok, "R15.2", where, f"identity bound to the verify parameters of the connection, SNI is a {kind}",
                  f"[{run.desc}] {why}: {bad}", desc=f"{kind}: {'set1_host(idna name)' if kind == 'DNS name' else 'set1_ip(packed address)'} on this connection's param")
        # OpenSSL refuses the identity -> the function must not complete
        ref = _ConfigRun(env, insecure=False, sni=sni, identity_ok=0)
        ctx.cells += 1
        ctx.check(ref.raised is not None, "R15.2", where, f"failure to install the identity is not ignored, SNI is a {kind}",
                  f"[{ref.desc}] tls_start_server completes although OpenSSL did not accept the expected identity: the certificate would be checked against no name",
                  desc=f"{kind}: result of installing the identity is asserted")
    ctx.check(not flag_bad, "R15.2", where, "host flags in force on the verify parameters",
              f"host flags lack NO_PARTIAL_WILDCARDS|NEVER_CHECK_SUBJECT or contain a weakening flag (partial wildcards / Common Name fallback would be accepted): {'; '.join(flag_bad)}",
              desc=f"host flags in force = {', '.join(f'{f:#x}' for f in sorted(seen_flags))} (NO_PARTIAL_WILDCARDS | NEVER_CHECK_SUBJECT)")
    # the server connection has no SNI yet (the function derives it from the client's SNI / the server address): whatever it settles on is verified
    derived_bad = []
    for client_sni in ("asked-for.example", None):
        run = _ConfigRun(env, insecure=False, sni=None, client_sni=client_sni)
        ctx.cells += 1
        ctx.require(run.raised is None, f"tls_start_server raises {run.raised} in the world [{run.desc}] (world not understood)")
        final = run.server.__dict__.get("sni")
        ctx.require(isinstance(final, str) and final, f"tls_start_server [{run.desc}] completes with server.sni = {final!r} (shape not modelled)")
        st = run.param_state()
        mode, cb = run.verify_in_force()
        name = final.encode("idna")
        if not (_int(mode, "the verify mode handed to set_verify") & VERIFY_PEER) or _accepting_callback(run, cb) or st["ip"] is not None or [h for h, _ in st["hosts"]] != [name]:
            derived_bad.append(f"[{run.desc}] server.sni becomes {final!r}, verify mode {mode:#x}, host names {st['hosts']}, ip {st['ip']}")
    ctx.check(not derived_bad, "R15.2", where, "identity bound to the verify parameters when the SNI is derived by the function",
              f"the connection is not verified against the SNI the function settles on: {'; '.join(derived_bad)}", desc="SNI derived from the client's SNI / the server address: that name is verified")
    # QUIC: the name aioquic verifies the certificate against is the one the layer hands to the settings conversion
    kw = _quic_world(ctx, env, _quic_converter(ctx), False, None, None)
    if kw["$server_name_given"]:
        ctx.check(kw.get("server_name") == "www.example.com", "R15.2", (QS, _quic_converter(ctx)[0], _quic_converter(ctx)[1]), "QUIC server_name reaches QuicConfiguration",
                  f"QuicConfiguration receives server_name={kw.get('server_name')!r} instead of the name it was asked to verify ('www.example.com')", desc="QUIC: server_name reaches QuicConfiguration unchanged")
    nosni = _ConfigRun(env, insecure=False, sni="")
    ctx.cells += 1
    ctx.check(nosni.raised is not None, "R15.2", where, "no SNI and verification on -> raise",
              f"[{nosni.desc}] tls_start_server continues without SNI although verification is on: the certificate would be checked against no name", desc="without SNI and ssl_insecure off the function raises")
    ctx.expect_instances("R15.2", 9)


def _r15_3(ctx, env):
    if ctx.model.has(NT, "create_proxy_server_context"):
        where = (NT, "create_proxy_server_context", ctx.func(NT, "create_proxy_server_context"))
    else:  # (the function is found by interpretation, not by its name; the name only locates the finding)
        where = (T, "TlsConfig.tls_start_server", ctx.func(T, "TlsConfig.tls_start_server"))
    for ca_dir in (None, "/world/ca-dir"):
        for ca_file in (None, "/world/ca.pem"):
            run = _ConfigRun(env, insecure=False, sni="www.example.com", ca_file=ca_file, ca_dir=ca_dir)
            ctx.cells += 1
            ctx.require(run.raised is None, f"tls_start_server raises {run.raised} in the world [{run.desc}] (world not understood)")
            got = run.trust_calls()
            want = [("load_verify_locations", ca_file, ca_dir)] if (ca_file is not None or ca_dir is not None) else [("load_verify_locations", CERTIFI, None)]
            shown = [f"{c[0]}({', '.join(map(repr, c[1:]))})" if c[0] == "load_verify_locations" else f"{c[0]}(...)" for c in got]
            ctx.check(bool(got) and all(c == want[0] for c in got), "R15.3", where, f"trust store with trusted_confdir={ca_dir!r}, trusted_ca={ca_file!r}",
                      f"the context of the server connection loads {shown or 'no trust store'}, expected exactly load_verify_locations({want[0][1]!r}, {want[0][2]!r}) "
                      "(the configured CA file / directory; certifi's bundle only when nothing is configured)",
                      desc=f"trusted_confdir={ca_dir!r}, trusted_ca={ca_file!r}: load_verify_locations({want[0][1]!r}, {want[0][2]!r}) only")
    qss = ctx.func(T, "TlsConfig.quic_start_server")
    conv = _quic_converter(ctx)
    kw = _quic_world(ctx, env, conv, False, "/world/ca.pem", "/world/ca-dir")
    ctx.check(kw.get("cafile") == "/world/ca.pem" and kw.get("capath") == "/world/ca-dir", "R15.3", (T, "TlsConfig.quic_start_server", qss), "QUIC cafile/capath from the ssl_verify_upstream_trusted_* options",
              f"QuicConfiguration receives cafile={kw.get('cafile')!r}, capath={kw.get('capath')!r} for trusted_ca='/world/ca.pem', trusted_confdir='/world/ca-dir'", desc="QUIC: trust store options reach QuicConfiguration(cafile=, capath=)")
    ctx.expect_instances("R15.3", 5)


# ---------------------------------------------------------------------------------------------------
# R15.4, first half: the server TLS layer with a failing handshake

HS_ERRORS = [
    ("certificate verify failed (OpenSSL 3)", ([("SSL routines", "", "certificate verify failed")],)),
    ("certificate verify failed (OpenSSL 1.1)", ([("SSL routines", "tls_process_server_certificate", "certificate verify failed")],)),
    ("alert unknown ca", ([("SSL routines", "ssl3_read_bytes", "tlsv1 alert unknown ca")],)),
    ("alert bad certificate", ([("SSL routines", "", "sslv3 alert bad certificate")],)),
    ("wrong version number", ([("SSL routines", "", "wrong version number")],)),
    ("alert protocol version", ([("SSL routines", "", "tlsv1 alert protocol version")],)),
    ("unknown error queue", ([("x509 certificate routines", "", "some other failure"), ("SSL routines", "", "something went wrong")],)),
    ("error without arguments", ()),
]


def _failed_handshake(env, hs_error, pending, data):
    """-> (observation log, layer, server connection, pending command, crash)"""
    m = env.model
    w = _World(hs_error=hs_error)
    it = env.interp(w)
    client, server = _connections("www.example.com", "www.example.com")
    context = Rec("Context", _name="context", client=client, server=server, layers=[], options=_Options({"proxy_debug": False}, lambda name: env.option_default(it, name)))
    cls = m.cls(PT, "ServerTLSLayer")
    try:
        layer = it.instantiate(ClassRef(m.module(PT), cls), [context], {}, 0, "C15 harness")
    except Raised as r:
        raise AnalysisError(f"ServerTLSLayer(context) raises {r} in the interpretation")
    if not isinstance(layer, Rec) or layer.__dict__.get("conn") is not server or layer.__dict__.get("tunnel_connection") is not server:
        raise AnalysisError("ServerTLSLayer(context) does not tunnel context.server (constructor shape not modelled)")
    log = w.log

    def handle_event(event):
        log.append(("child", event))
        return []

    def put(name, value):
        # the harness puts the layer into the state "handshake in progress" through the attributes the layer keeps that state in: they must exist
        try:
            it.getattr(layer, name, None, 0)
        except AnalysisError:
            raise AnalysisError(f"ServerTLSLayer keeps no attribute `{name}` any more: the C15 harness cannot set up a handshake in progress (shape not modelled)")
        object.__setattr__(layer, name, value)

    put("child_layer", Rec("ChildLayer", _bases=("Layer",), _name="child", handle_event=_stub(handle_event)))
    put("tls", _Connection(w))
    state_cls = ClassRef(m.module(TU), m.cls(TU, "TunnelState"))
    put("tunnel_state", it.class_attr(state_cls, "ESTABLISHING", 0))
    cmd = None
    if pending:
        cmd = it.instantiate(ClassRef(m.module(CMDS), m.cls(CMDS, "OpenConnection")), [server], {}, 0, "C15 harness")
        object.__setattr__(cmd, "_name", "pending OpenConnection")
        put("command_to_reply_to", cmd)
    event = it.instantiate(ClassRef(m.module(EVTS), m.cls(EVTS, "DataReceived")), [server, data], {}, 0, "C15 harness")
    crash = None
    try:
        gen = it.method(layer, "_handle_event", event)
        if not isinstance(gen, Gen):
            raise AnalysisError("TunnelLayer._handle_event is not a generator function (shape not modelled)")
        it.run_direct(gen, log)
    except Raised as r:
        if r.name in ("AttributeError", "TypeError", "NameError", "NotImplementedError"):
            # far more likely a gap between the model and the code than a behaviour of the layer: refuse instead of reporting a violation
            raise AnalysisError(f"ServerTLSLayer with a failing handshake raises {r.name}: {r.msg[:160]} in the interpretation (model / code mismatch, not modelled)")
        crash = f"{r.name}: {r.msg}"[:160]
    return log, layer, server, cmd, crash


def _is(rec, cls_name):
    return isinstance(rec, Rec) and rec.isa(cls_name)


def _where(ctx, rel, qual):
    if ctx.model.has(rel, qual):
        return rel, qual, ctx.func(rel, qual)
    return TU, "TunnelLayer._handle_event", ctx.func(TU, "TunnelLayer._handle_event")


def _r15_4_layers(ctx, env):
    ctx.func(TU, "TunnelLayer._handle_event")
    ctx.model.cls(PT, "ServerTLSLayer")
    ctx.require([c.name for _, c in ctx.model.mro(PT, "ServerTLSLayer")][-1:] and "TunnelLayer" in [c.name for _, c in ctx.model.mro(PT, "ServerTLSLayer")], "ServerTLSLayer no longer derives from tunnel.TunnelLayer")
    # every OpenSSL error-queue entry the module tells apart (3-tuples of strings anywhere in layers/tls.py) is a world of its own, so that
    # each branch of the error classification is exercised whatever shape it has; the fixed kinds cover code that builds its tables otherwise
    kinds = [(k, e, True) for k, e in HS_ERRORS]
    covered = {e[0][-1] for _, e in HS_ERRORS if e}
    for node in ast.walk(ctx.model.module(PT).tree):
        if isinstance(node, ast.Tuple) and len(node.elts) == 3 and all(isinstance(x, ast.Constant) and isinstance(x.value, str) for x in node.elts):
            entry = tuple(x.value for x in node.elts)
            if entry not in covered:
                covered.add(entry)
                kinds.append((f"error queue ending in {entry!r}", ([entry],), False))
    for kind, hs_error, full in kinds:
        problems = {}  # aspect -> (where, text)
        n = 0
        for pending in (True, False) if full else (True,):
            for data in (b"\x16\x03\x03\x00\x02\x02\x28", b"\x15\x03\x03\xff\x80\x81", b"HTTP/1.1 400 Bad Request\r\n", b"")[: 4 if full else 2]:
                log, layer, server, cmd, crash = _failed_handshake(env, hs_error, pending, data)
                n += 1
                ctx.paths += 1
                world = f"[{kind}, {'the child layer asked for the connection' if pending else 'connection opened eagerly'}, {len(data)} bytes received]"
                ys = [e[1] for e in log if e[0] == "yield"]
                child = [e[1] for e in log if e[0] == "child"]
                err = server.__dict__.get("error")
                failed = [y for y in ys if _is(y, "TlsFailedServerHook")]
                closes = [y for y in ys if _is(y, "CloseConnection") and y.__dict__.get("connection") is server]
                state = layer.__dict__.get("tunnel_state")
                state_name = state[2] if isinstance(state, tuple) and len(state) == 4 and state[0] == "$enum" else repr(state)
                reported = bool(failed or closes or (isinstance(err, str) and err) or state_name == "CLOSED")
                if crash:
                    problems.setdefault("raises", (_where(ctx, PT, "TLSLayer.receive_handshake_data"), f"{world} the layer raises {crash}"))
                    continue
                if not reported:
                    problems.setdefault("reported", (_where(ctx, PT, "TLSLayer.receive_handshake_data"),
                                                     f"{world} the failed handshake is not treated as an error at all (tunnel state {state_name}, no hook, no close): a failed verification goes unnoticed"))
                    continue
                if not (isinstance(err, str) and err):
                    problems.setdefault("error text", (_where(ctx, PT, "TLSLayer.on_handshake_error"), f"{world} conn.error is {err!r} after the failed handshake"))
                hooks = [y._cls for y in ys if isinstance(y, Rec) and (y.isa("StartHook") or y._cls.endswith("Hook"))]
                if len(failed) != 1 or failed[0].__dict__.get("data") is None or getattr(failed[0].__dict__.get("data"), "__dict__", {}).get("conn") is not server:
                    problems.setdefault("hook", (_where(ctx, PT, "TLSLayer.on_handshake_error"), f"{world} hooks fired: {hooks or 'none'}; expected exactly one TlsFailedServerHook for the server connection"))
                elif any(h in ("TlsEstablishedServerHook", "TlsEstablishedClientHook", "TlsFailedClientHook") for h in hooks):
                    problems.setdefault("hook", (_where(ctx, PT, "TLSLayer.on_handshake_error"), f"{world} hooks fired: {hooks}; a failed server handshake fires TlsFailedServerHook only"))
                if not closes:
                    problems.setdefault("close", (_where(ctx, TU, "TunnelLayer.on_handshake_error"), f"{world} the connection is not closed (commands: {[getattr(y, '_cls', repr(y)) for y in ys]})"))
                if state_name != "CLOSED":
                    problems.setdefault("tunnel state", (_where(ctx, TU, "TunnelLayer._handshake_finished"), f"{world} the tunnel is {state_name} after the failed handshake, not CLOSED"))
                sent = [y for y in ys if _is(y, "SendData")]
                if sent:
                    problems.setdefault("data sent", (_where(ctx, PT, "TLSLayer.receive_handshake_data"), f"{world} {len(sent)} SendData command(s) after the failed handshake"))
                if pending:
                    occ = [c for c in child if _is(c, "OpenConnectionCompleted")]
                    ok = len(child) == 1 and len(occ) == 1 and occ[0].__dict__.get("command") is cmd and isinstance(occ[0].__dict__.get("reply"), str) and occ[0].__dict__.get("reply")
                    if not ok:
                        seen = [f"{c._cls}(reply={c.__dict__.get('reply')!r})" if _is(c, "OpenConnectionCompleted") else getattr(c, "_cls", repr(c)) for c in child]
                        problems.setdefault("completion", (_where(ctx, TU, "TunnelLayer._handshake_finished"),
                                                           f"{world} the child layer receives {seen or 'nothing'}; expected exactly OpenConnectionCompleted(<its command>, <the error text>)"))
                    elif failed and closes:
                        i_occ = next(i for i, e in enumerate(log) if e[0] == "child")
                        i_hook = next(i for i, e in enumerate(log) if e[0] == "yield" and e[1] is failed[0])
                        i_close = next(i for i, e in enumerate(log) if e[0] == "yield" and e[1] is closes[0])
                        if not (i_hook < i_occ and i_close < i_occ):
                            problems.setdefault("order", (_where(ctx, TU, "TunnelLayer._handle_event"), f"{world} the child layer is told about the failure before the tls_failed hook fired / the connection was closed"))
                elif child:
                    problems.setdefault("completion", (_where(ctx, TU, "TunnelLayer._handshake_finished"), f"{world} the child layer receives {[getattr(c, '_cls', repr(c)) for c in child]} although it waits for nothing"))
        for aspect, (where, text) in problems.items():
            ctx.fail("R15.4", where, f"failed server handshake ({kind}): {aspect}", text)
        if not problems:
            ctx.ok("R15.4", f"handshake SSL.Error [{kind}]: conn.error, one TlsFailedServerHook, close, tunnel CLOSED, OpenConnectionCompleted(cmd, err) after them, nothing sent ({n} runs)")


def _r15_4_http(ctx):
    m = ctx.model
    # (e) HTTP layer
    # HttpClient: the outcome of OpenConnection is followed by value (symbol `err`), whatever the local is called
    hc = ctx.func(HT, "HttpClient._handle_event")

    def hc_val(expr, st, sp):
        if isinstance(expr, ast.Yield) and isinstance(expr.value, ast.Call) and last_attr(expr.value.func) == "OpenConnection":
            return sym("err")
        return None

    def hc_label(node, st, sp):
        out = []
        for n in ast.walk(node):
            if isinstance(n, ast.Yield) and isinstance(n.value, ast.Call) and last_attr(n.value.func) == "OpenConnection":
                out.append(("open", " ".join(canon_chain(a, st, sp) or norm(a) for a in n.value.args)))
            elif isinstance(n, ast.YieldFrom):
                out.append(("delegate", norm(n.value)))
            elif isinstance(n, ast.Call) and last_attr(n.func) == "RegisterHttpConnection":
                args = list(n.args) + [k.value for k in n.keywords]
                tags = []
                for a_ in args:
                    v = sp.v(a_, st)
                    tags.append(v[1] if v[:1] == ("sym",) else "None" if v == C(None) else canon_chain(a_, st, sp) or norm(a_))
                out.append(("register", tuple(tags)))
        if isinstance(node, (ast.Assign, ast.AnnAssign)):
            for t_ in node.targets if isinstance(node, ast.Assign) else [node.target]:
                if canon_chain(t_, st, sp) in ("self.child_layer", "self._handle_event"):
                    out.append(("build", canon_chain(t_, st, sp)))
        return out

    def hc_atom(expr, st, sp):
        ts = truthiness_subject(expr)
        if ts is not None and sp.v(ts[0], st) == sym("err"):
            return ("ERR", ts[1])
        return None

    n = bad = 0
    for world in (True, False):
        spec = DSpec(label=hc_label, atom=hc_atom, val=hc_val, scenario={"ERR": world}, resolver=helper_resolver(ctx, "HttpClient", ("_handle_event",)))
        res, eng = run_d(hc.body, spec)
        for t, how, st in res:
            if how != "return":
                continue
            ctx.paths += 1
            opened = [e for e in t if e[0] == "open"]
            failed = world and bool(opened)
            reg = [e[1] for e in t if e[0] == "register"]
            builds = any(e[0] in ("build", "delegate") for e in t)
            ok = len(reg) == 1 and len(reg[0]) == 2 and reg[0][0] == "self.context.server" and reg[0][1] in (("err",) if failed else ("err", "None") if opened else ("None",))
            ok = ok and all(e[1] == "self.context.server" for e in opened)
            if failed:
                n += 1
                ok = ok and not builds  # a protocol layer may only be built when the connection attempt did not fail
            bad += not ok
    ctx.require(n > 0 or bad > 0, "HttpClient._handle_event: no path with a connection error")
    ctx.check(bad == 0, "R15.4", (HT, "HttpClient._handle_event", hc), "err -> RegisterHttpConnection(server, err), no protocol layer",
              f"{bad} path(s) build a client protocol layer without having established `not err`, or do not register the connection with the error", desc="HttpClient: error -> RegisterHttpConnection(server, err) only")
    # register_connection in the world `command.err is set`: what every waiting stream is answered with (the reply is followed by
    # value through temporaries, conditional expressions and extracted helpers - C08's analysis of the same function)
    rc, cmdp, paths = waiter_replies(ctx, True)
    replies = [e[2] for toks in paths for e in toks if e[0] == "complete"]
    ctx.require(replies, "HttpLayer.register_connection: no error path that answers a waiting stream")
    bad = sum(1 for r in replies if r != ("reply", "None", f"{cmdp}.err"))
    ctx.check(bad == 0, "R15.4", (HT, "HttpLayer.register_connection", rc), "command.err -> reply = (None, command.err)", f"{bad} error path(s) reply with a usable connection", desc="register_connection: error -> (None, err)")
    # make_server_connection + callers
    # (the reply of GetHttpConnection is followed by value: `conn`, `err` stand for the two unpacked elements whatever they are called)
    msc, outcomes, _ = server_connection_paths(ctx)
    n = bad = 0
    for evs, how, ret in outcomes[True]:
        n += 1
        pe = [e[1] for e in evs if e[0] == "protoerr"]
        ok = len(pe) == 1 and "ErrorCode.CONNECT_FAILED" in pe[0] and "err" in pe[0]
        ok = ok and how == "return" and ret == C(False) and not any(e[0] == "bind" and e[1] == "self.context.server" for e in evs)
        bad += not ok
    ctx.require(n > 0, "make_server_connection: no error path")
    ctx.check(bad == 0, "R15.4", (HT, "HttpStream.make_server_connection", msc), "err -> ResponseProtocolError(CONNECT_FAILED), return False",
              f"{bad} error path(s) do not end the flow with a CONNECT_FAILED protocol error / adopt the failed connection", desc="make_server_connection: error -> CONNECT_FAILED, False")
    callers = [q for q, d in m.module(HT).defs().items() if q.startswith("HttpStream.") and isinstance(d, (ast.FunctionDef,)) and d is not msc and calls_in(d, "self.make_server_connection")]
    ctx.require(len(callers) >= 2, f"callers of make_server_connection: {callers}")

    def resolver(call):
        return msc if call_name(call) == "self.make_server_connection" else None

    for q in callers:
        fn = ctx.func(HT, q)
        res, eng = traces_of(fn, FlowSpec(keep=lambda ev: ev[0] == "yield" or (ev[0] == "callx" and ev[1] == "ResponseProtocolError"), resolver=resolver, call_nodes=True, implicit_raises=False))
        n = bad = 0
        for t, how, st in res:
            i = index_of(t, lambda e: e[0] == "callx")
            if i < 0:
                continue
            n += 1
            ctx.paths += 1
            bad += any(e == ("yield", "SendHttp") for e in t[i:])
        ctx.require(n > 0, f"{q}: connection error path not found after inlining make_server_connection")
        ctx.check(bad == 0, "R15.4", (HT, q, fn), f"{q}: no SendHttp after a failed make_server_connection",
                  f"{bad} of {n} path(s) send HTTP messages after the server connection failed (e.g. certificate verification)", desc=f"{q}: nothing sent after a failed connection ({n} paths)")


def check(ctx):
    ctx.rule("R15.1", "verify mode in force on the server connection: VERIFY_PEER (no accepting callback) iff not ssl_insecure; QUIC CERT_REQUIRED iff not ssl_insecure")
    ctx.rule("R15.2", "host name / IP of the SNI in force on the connection's own verify parameters with strict host flags; refused identity or no SNI + verification -> raise")
    ctx.rule("R15.3", "trust store: exactly the configured CA file/dir loaded, certifi only when none is configured")
    ctx.rule("R15.4", "failed handshake -> conn.error, tls_failed hook, close, tunnel CLOSED, OpenConnectionCompleted(err) -> CONNECT_FAILED, nothing sent")
    ctx.trust("OpenSSL X509 verification (chain building, validity, host/IP matching under the configured flags); aioquic certificate verification")
    ctx.trust("the model of pyOpenSSL used by the interpretation: Context/Connection.set_verify (last call wins), load_verify_locations, X509_VERIFY_PARAM_set_hostflags / "
              "set1_host / set1_ip (replace), _openssl_assert raises on a false argument, SSL.WantReadError / ZeroReturnError are subclasses of SSL.Error")
    ctx.bounds.append("configuration worlds: ssl_insecure x {DNS, IPv4, IPv6, no SNI} x trust options set/unset x identity accepted/refused; handshake failure worlds: "
                      f"{len(HS_ERRORS)} SSL.Error kinds x pending OpenConnection yes/no x 4 received byte strings + every error-queue entry named in layers/tls.py x 2 byte strings")
    env = _Env(ctx)
    ctx.guard(_r15_1, ctx, env)
    ctx.guard(_r15_2, ctx, env)
    ctx.guard(_r15_3, ctx, env)
    ctx.guard(_r15_4_layers, ctx, env)
    ctx.guard(_r15_4_http, ctx)
    ctx.expect_instances("R15.4", len(HS_ERRORS) + 5)


MUTANTS = [
    Mutant("verify-modes-swapped", T, "        if ctx.options.ssl_insecure:\n            verify = net_tls.Verify.VERIFY_NONE\n        else:\n            verify = net_tls.Verify.VERIFY_PEER\n",
           "        if not ctx.options.ssl_insecure:\n            verify = net_tls.Verify.VERIFY_NONE\n        else:\n            verify = net_tls.Verify.VERIFY_PEER\n", "R15.1"),
    Mutant("verify-none-passed-to-context", T, "            verify=verify,\n", "            verify=net_tls.Verify.VERIFY_NONE,\n", "R15.1"),
    Mutant("verify-callback-accept-all", NT, "    context.set_verify(verify.value, None)\n", "    context.set_verify(verify.value, accept_all)\n", "R15.1"),
    Mutant("verify-enum-peer-is-none", NT, "    VERIFY_PEER = SSL.VERIFY_PEER\n", "    VERIFY_PEER = SSL.VERIFY_NONE\n", "R15.1"),
    Mutant("quic-cert-optional", T, "            tls_start.settings.verify_mode = ssl.CERT_REQUIRED\n", "            tls_start.settings.verify_mode = ssl.CERT_OPTIONAL\n", "R15.1"),
    Mutant("hostflags-drop-never-check-subject", T, "    | getattr(SSL._lib, \"X509_CHECK_FLAG_NEVER_CHECK_SUBJECT\", 0)  # type: ignore\n", "    | 0\n", "R15.2"),
    Mutant("hostflags-not-set", T, "            SSL._lib.X509_VERIFY_PARAM_set_hostflags(param, DEFAULT_HOSTFLAGS)  # type: ignore\n", "            pass\n", "R15.2"),
    Mutant("ip-branch-binds-nothing", T, "                ok = SSL._lib.X509_VERIFY_PARAM_set1_ip(param, ip, len(ip))  # type: ignore\n                SSL._openssl_assert(ok == 1)  # type: ignore\n", "                pass\n", "R15.2"),
    Mutant("set1-host-result-ignored", T, "                )  # type: ignore\n                SSL._openssl_assert(ok == 1)  # type: ignore\n            else:", "                )  # type: ignore\n            else:", "R15.2"),
    Mutant("host-name-from-address", T, "                host_name = server.sni.encode(\"idna\")\n", "                host_name = server.address[0].encode(\"idna\")\n", "R15.2"),
    Mutant("no-sni-continues-unverified", T, "        elif verify is not net_tls.Verify.VERIFY_NONE:\n            raise ValueError(\"Cannot validate certificate hostname without SNI\")\n", "", "R15.2"),
    Mutant("certifi-always", NT, "    if ca_path is None and ca_pemfile is None:\n        ca_pemfile = certifi.where()\n", "    if ca_path is None or ca_pemfile is None:\n        ca_pemfile = certifi.where()\n", "R15.3"),
    Mutant("trust-store-not-loaded-for-dir", NT, "    try:\n        context.load_verify_locations(ca_pemfile, ca_path)\n", "    try:\n        if ca_pemfile:\n            context.load_verify_locations(ca_pemfile, ca_path)\n", "R15.3"),
    Mutant("trust-options-swapped", T, "            ca_path=ctx.options.ssl_verify_upstream_trusted_confdir,\n            ca_pemfile=ctx.options.ssl_verify_upstream_trusted_ca,\n",
           "            ca_path=ctx.options.ssl_verify_upstream_trusted_ca,\n            ca_pemfile=ctx.options.ssl_verify_upstream_trusted_confdir,\n", "R15.3"),
    Mutant("connection-level-verify-none", T, "        tls_start.ssl_conn = SSL.Connection(ssl_ctx)\n        if server.sni:\n",
           "        tls_start.ssl_conn = SSL.Connection(ssl_ctx)\n        tls_start.ssl_conn.set_verify(SSL.VERIFY_NONE, None)\n        if server.sni:\n", "R15.1"),
    Mutant("derived-sni-not-verified", T, "        if server.sni is None:\n            server.sni = client.sni or server.address[0]\n\n        if not server.alpn_offers:\n            if client.alpn_offers:\n                if ctx.options.http2:",
           "        if server.sni is None:\n            server.sni = client.sni or server.address[0]\n            verify = net_tls.Verify.VERIFY_NONE\n\n        if not server.alpn_offers:\n            if client.alpn_offers:\n                if ctx.options.http2:", "R15.2"),
    Mutant("system-trust-store-added", NT, "        context.load_verify_locations(ca_pemfile, ca_path)\n", "        context.load_verify_locations(ca_pemfile, ca_path)\n        context.set_default_verify_paths()\n", "R15.3"),
    Mutant("quic-server-name-dropped", QS, "        server_name=server_name,\n", "        server_name=None,\n", "R15.2"),
    Mutant("peer-alert-swallowed", PT, "                err = last_err[2]\n", "                return False, None\n", "R15.4"),
    Mutant("ssl-error-treated-as-done", PT, "                err = f\"OpenSSL {e!r}\"\n            return False, err\n", "                err = f\"OpenSSL {e!r}\"\n                return True, None\n            return False, err\n", "R15.4"),
    Mutant("tunnel-skips-on-handshake-error", TU, "                        yield from self.on_handshake_error(err)\n                    if done or err:", "                        pass\n                    if done or err:", "R15.4"),
    Mutant("tls-failed-hook-dropped", PT, "        else:\n            yield TlsFailedServerHook(TlsData(self.conn, self.context, self.tls))\n", "        else:\n            pass\n", "R15.4"),
    Mutant("conn-error-not-set", PT, "        self.conn.error = err\n        if self.conn == self.context.client:\n            yield TlsFailedClientHook", "        if self.conn == self.context.client:\n            yield TlsFailedClientHook", "R15.4"),
    Mutant("handshake-finished-swallows-error", TU, "                events.OpenConnectionCompleted(self.command_to_reply_to, err)\n", "                events.OpenConnectionCompleted(self.command_to_reply_to, None)\n", "R15.4"),
    Mutant("register-error-replies-with-connection", HT, "            reply = (None, command.err)\n", "            reply = (command.connection, None)\n", "R15.4"),
    Mutant("httpclient-builds-layer-on-error", HT, "            err = yield commands.OpenConnection(self.context.server)\n        if not err:\n            if is_h3_alpn", "            err = yield commands.OpenConnection(self.context.server)\n        if True:\n            if is_h3_alpn", "R15.4"),
    Mutant("consume-body-sends-after-failed-connect", HT, "                ok = yield from self.make_server_connection()\n                if not ok:\n                    return\n\n                content = self.flow.request.raw_content",
           "                ok = yield from self.make_server_connection()\n\n                content = self.flow.request.raw_content", "R15.4"),
]
