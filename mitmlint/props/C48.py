"""C48 - exported commands reproduce the request and are shell-safe (narrow: shell-quoting taint).

Decided:
  R48.1 (taint) the strings returned by ``curl_command`` / ``httpie_command`` / ``request_content_for_console`` contain
        flow-derived text (method, URL, header names and values, host, port, peer address, body) only after ``shlex.quote``
        or - for the body - ``request_content_for_console`` (itself checked).  Tracked through ``args`` (append / += /
        list displays), f-strings, joins and the same-module helpers ``cleanup_request`` / ``pop_headers``.  Every key of the
        ``formats`` registry is classified (a new exporter fails closed).
  R48.2 (taint, per character) where request data is the FORMAT operand of a shell ``printf`` (the word right after
        ``printf`` in a command template), both ``%`` and ``\\`` must have been escaped (``%`` -> ``%%``, ``\\`` -> ``\\\\``) by a
        ``replace`` or by a character table applied as ``T.get(x, x)`` whose folded contents map them so; ``printf '%s' <data>``
        (data as argument) is accepted.  TODAY VIOLATED (F-C48, known finding): ``request_content_for_console`` escapes only
        the control characters, so a body containing a control character and ``%s`` / ``\\n`` text is re-interpreted by printf.
NOT decided: that the quoted arguments are the ones curl/httpie need (argument equality under a real shell), the httpie
here-string (``<<<``) appending a newline, and the raw export's parse-back (needs the HTTP/1 parser; see C01).
"""

from __future__ import annotations

import ast
import re

from ..core import AnalysisError
from ..core import norm
from ..model import enclosing_func
from ..model import qual_of
from ..model import walk_in_order
from ..selftest import Mutant
from ._helpers_G import expected_markers
from ._helpers_G import fold_tables
from ._helpers_G import load_positive
from ._helpers_G import Program
from ._helpers_G import SnippetModel
from ._helpers_G import TaintSpec

PROP = "C48"
REG = {
    "strength": "narrow",
    "technique": "taint (source/sanitiser/sink dataflow, same-module summaries) on the command builders + per-character escape "
    "tracking into printf format operands with constant folding of the escape table",
    "claim": "every flow-derived piece of the curl / httpie command strings passes shlex.quote (the body: request_content_for_console); "
    "request data used as a printf FORMAT operand must have % and \\ escaped - reported as known finding F-C48 on today's tree.",
    "note": "shlex.quote is trusted. Does not decide argument equality under a real shell nor the raw export round-trip.",
}

F = "mitmproxy/addons/export.py"
BUILDERS = ("curl_command", "httpie_command", "request_content_for_console")
SHELL_FORMATS = {"curl": "curl_command", "httpie": "httpie_command"}
NON_SHELL_FORMATS = {"raw": "raw", "raw_request": "raw_request", "raw_response": "raw_response"}
RCFC = "mitmproxy.addons.export.request_content_for_console"


class ShellSpec(TaintSpec):
    name = "R48.1"
    sanitisers = {
        "shlex.quote": "POSIX single-quote quoting: the result is one shell word whatever the input",
        RCFC: "the request body as one shell word (its own return value is a sink of R48.1; printf escaping: R48.2)",
    }

    def __init__(self, builders, dotted_prefix):
        self.builders = set(builders)
        self.sanitisers = dict(self.sanitisers)
        self.returns: list = []

    def is_entry(self, fn, an):
        return qual_of(fn) in self.builders

    def on_return(self, stmt, taint, frame):
        if frame.qual in self.builders:
            self.returns.append((frame.qual, stmt))
            frame.hit("shell", stmt, "return", taint, "command string")


# ---------------------------------------------------------------------------------------------------
# R48.2


def segments(node, mod):
    """Template -> [('c', text) | ('e', expr)] for f-strings, + chains, and %/.format with positional placeholders; None if
    ``node`` is not a template."""
    if isinstance(node, ast.JoinedStr):
        out = []
        for v in node.values:
            if isinstance(v, ast.Constant):
                out.append(("c", str(v.value)))
            else:
                out.append(("e", v.value))
        return out
    if isinstance(node, ast.BinOp) and isinstance(node.op, ast.Add):
        p = getattr(node, "_parent", None)
        if isinstance(p, ast.BinOp) and isinstance(p.op, ast.Add):
            return None
        parts = []

        def flat(n):
            if isinstance(n, ast.BinOp) and isinstance(n.op, ast.Add):
                flat(n.left)
                flat(n.right)
            else:
                parts.append(n)

        flat(node)
        out = []
        for x in parts:
            if isinstance(x, ast.Constant) and isinstance(x.value, str):
                out.append(("c", x.value))
            elif isinstance(x, ast.JoinedStr):
                out += segments(x, mod)
            else:
                out.append(("e", x))
        return out if any(k == "c" for k, _ in out) else None
    fmt = args = None
    if isinstance(node, ast.BinOp) and isinstance(node.op, ast.Mod) and isinstance(node.left, ast.Constant) and isinstance(node.left.value, str):
        fmt, args, pat = node.left.value, (list(node.right.elts) if isinstance(node.right, ast.Tuple) else [node.right]), r"%[sr]|%%"
    elif isinstance(node, ast.Call) and isinstance(node.func, ast.Attribute) and node.func.attr == "format" and isinstance(node.func.value, ast.Constant) \
            and isinstance(node.func.value.value, str):
        fmt, args, pat = node.func.value.value, list(node.args), r"\{\}|\{\{|\}\}"
        if node.keywords and "printf" in fmt:
            raise AnalysisError(f"printf template with keyword placeholders is not modelled: {norm(node)}")
    if fmt is None:
        return None
    out, pos, i = [], 0, 0
    for mt in re.finditer(pat, fmt):
        out.append(("c", fmt[pos:mt.start()]))
        pos = mt.end()
        if mt.group() in ("%%", "{{", "}}"):
            out.append(("c", mt.group()[0]))
            continue
        if i >= len(args):
            if "printf" in fmt:
                raise AnalysisError(f"printf template: more placeholders than arguments: {norm(node)}")
            return None
        out.append(("e", args[i]))
        i += 1
    out.append(("c", fmt[pos:]))
    if "printf" in fmt and (re.search(r"%\(|%[^sr%]|\{[^{}]+\}", fmt)):
        raise AnalysisError(f"printf template with placeholders R48.2 does not model: {norm(node)}")
    return out


PRINTF_FMT_POS = re.compile(r"(^|[\s;|&(`])printf\s+(--\s+)?['\"]?$")
PRINTF_LITERAL_FMT = re.compile(r"(^|[\s;|&(`])printf\s+(--\s+)?('[^']*'|\"[^\"$`]*\"|[^\s'\"$`]+)\s")


def printf_operands(node, mod):
    """[(role, expr)] for the interpolations of a command template that follow a ``printf`` word: role 'format' (the
    interpolation IS the format operand) or 'argument' (a literal format precedes it).  None if no printf is involved."""
    segs = segments(node, mod)
    if segs is None or not any(k == "c" and re.search(r"(^|[\s;|&(`])printf(\s|$)", t) for k, t in segs):
        return None
    out = []
    text = ""
    seen_printf = False
    for k, v in segs:
        if k == "c":
            text += v
            continue
        if PRINTF_FMT_POS.search(text):
            out.append(("format", v))
            seen_printf = True
        elif PRINTF_LITERAL_FMT.search(text) or seen_printf:
            out.append(("argument", v))
        text += "\x00"  # an interpolation is opaque text
    if not out:
        return []
    return out


ESCAPED = {"%": "%%", "\\": "\\\\"}


class PrintfSpec(TaintSpec):
    """One run per character c in {'%', '\\'}: data is clean once c has been escaped."""

    def __init__(self, char):
        self.char = char
        self.name = f"R48.2[{char}]"
        self.visited: dict[int, tuple] = {}

    def is_entry(self, fn, an):
        return True

    def _table_ok(self, name, call, frame):
        fn = frame.fn
        use_stmt = call
        while not isinstance(use_stmt, ast.stmt):
            use_stmt = use_stmt._parent
        tables = fold_tables(fn.body, {name}, f"{frame.mod.rel}::{frame.qual}")
        if name not in tables:
            return None
        for n in ast.walk(fn):  # every write happens before the use (the fold is flow-insensitive)
            if isinstance(n, ast.stmt) and n is not use_stmt and n.lineno > use_stmt.lineno and not isinstance(n, (ast.FunctionDef,)):
                from ._helpers_G import _writes_table

                if _writes_table(n, {name}) and n._parent is fn:
                    raise AnalysisError(f"{frame.mod.rel}::{frame.qual}: table {name} is written after it is applied (not modelled)")
        return tables[name].get(self.char) == ESCAPED[self.char]

    def sanitiser(self, call, dotted, frame):
        f = call.func
        if isinstance(f, ast.Attribute) and f.attr == "replace" and len(call.args) >= 2 and all(isinstance(a, ast.Constant) for a in call.args[:2]):
            if call.args[0].value == self.char and call.args[1].value == ESCAPED[self.char] and len(call.args) == 2:
                return f"replace({self.char!r}, {ESCAPED[self.char]!r})"
            return None
        if isinstance(f, ast.Attribute) and f.attr == "get" and isinstance(f.value, ast.Name) and f.value.id in frame.locals and len(call.args) == 2 \
                and isinstance(call.args[0], ast.Name) and isinstance(call.args[1], ast.Name) and call.args[0].id == call.args[1].id:
            ok = self._table_ok(f.value.id, call, frame)
            if ok:
                return f"character table {f.value.id} maps {self.char!r} to {ESCAPED[self.char]!r} (folded)"
        return None

    def _check(self, node, frame):
        ops = printf_operands(node, frame.mod)
        if ops is None:
            return
        rows = []
        for role, e in ops:
            t = frame.taint(e) if role == "format" else frozenset()
            rows.append((role, e, t))
            if t:
                frame.hit("printf", node, norm(e), t, "printf format operand")
        self.visited[id(node)] = (frame.mod.rel, frame.qual, node, rows)

    def on_node(self, node, frame):
        self._check(node, frame)

    def on_call(self, call, dotted, frame):
        self._check(call, frame)


def run_printf(model, mod):
    """-> {id(template): (rel, qual, node, {operand text: (role, expr, {char: origins})})}"""
    templates = [n for n in walk_in_order(mod.tree) if isinstance(n, (ast.JoinedStr, ast.BinOp, ast.Call)) and printf_operands(n, mod) is not None]
    fns = []
    for n in templates:
        fn = enclosing_func(n)
        if fn is None:
            raise AnalysisError(f"{mod.rel}:{n.lineno}: printf template outside a function is not modelled")
        if all(fn is not f for f in fns):
            fns.append(fn)
    res: dict = {}
    for ch in ("%", "\\"):
        spec = PrintfSpec(ch)
        prog = Program(model, spec)
        prog.run([(mod, fn) for fn in fns])
        for n in templates:
            if id(n) not in spec.visited:
                raise AnalysisError(f"{mod.rel}:{n.lineno}: printf template in {qual_of(n)} was not reached by the taint engine")
            rel, q, node, rows = spec.visited[id(n)]
            ent = res.setdefault(id(n), (rel, q, node, {}))
            for role, e, t in rows:
                r = ent[3].setdefault(norm(e), (role, e, {}))
                if t:
                    r[2][ch] = t
    return res


def check(ctx):
    m = ctx.model
    ctx.rule("R48.1", "flow-derived text reaches the curl/httpie command strings only through shlex.quote (body: request_content_for_console) - else the "
             "exported line runs other commands or passes other arguments")
    ctx.rule("R48.2", "request data used as a printf FORMAT operand has % and \\ escaped (else printf re-interprets %s / \\n sequences of the body)")
    ctx.trust("shlex.quote produces one POSIX shell word for any input")
    ctx.assume("a callee outside export.py returns data derived from its operands only")
    mod = m.module(F)
    for b in BUILDERS:
        ctx.func(F, b)
    # every registered export format is classified
    reg = m.const(F, "formats")
    ctx.require(isinstance(reg, ast.Call) and norm(reg.func) == "dict" and not reg.args and all(k.arg for k in reg.keywords), "export.formats is no longer `dict(name=function, ...)`")
    for k in reg.keywords:
        want = SHELL_FORMATS.get(k.arg) or NON_SHELL_FORMATS.get(k.arg)
        ctx.require(want is not None, f"export format {k.arg!r} is not classified as shell / non-shell by R48.1 (new exporter)")
        ctx.require(isinstance(k.value, ast.Name) and k.value.id == want, f"export format {k.arg!r} is now produced by {norm(k.value)} (R48.1 anchors {want})")
    ctx.require(set(SHELL_FORMATS) <= {k.arg for k in reg.keywords}, "curl / httpie vanished from export.formats")

    # ---- R48.1 ---------------------------------------------------------------------------------
    spec = ShellSpec(BUILDERS, mod.dotted)
    prog = Program(m, spec)
    fns = [(mod, d) for q, d in mod.defs().items() if isinstance(d, (ast.FunctionDef, ast.AsyncFunctionDef))]
    hits = prog.run(fns)
    for rel, q in prog.analysed:
        ctx.functions.add(f"{rel}::{q}")
    by_ret: dict[int, list] = {}
    for h in hits:
        by_ret.setdefault(id(h.node), []).append(h)
    seen = set()
    for q, st in spec.returns:
        if id(st) in seen:
            continue
        seen.add(id(st))
        hs = by_ret.get(id(st), [])
        if hs:
            for h in hs:
                for o in sorted(h.origins, key=lambda o: (o.text, o.via)):
                    ctx.fail("R48.1", (F, q, st), f"return {norm(st.value)[:60]} <- {o.text}",
                             f"flow-derived text reaches the command string without shlex.quote (path: {' > '.join(o.via) or 'direct'})", origin=o.text)
        else:
            ctx.ok("R48.1", f"{q}: return {norm(st.value)[:70]} carries only quoted flow data")
    quoted = [d for d, why in prog.discharged()]
    for d, why in prog.discharged():
        ctx.note(f"R48.1 discharged {d}: {why}")
    ctx.require(any("shlex.quote(arg)" in d for d in quoted) and any("request_content_for_console(request)" in d for d in quoted),
                "R48.1: the quoting of args / the body was not exercised (anchors changed shape)")
    ctx.expect_instances("R48.1", 4)

    # ---- R48.2 ---------------------------------------------------------------------------------
    res = run_printf(m, mod)
    for rel, q, node, rows in res.values():
        for text, (role, e, per_char) in rows.items():
            if role == "argument":
                ctx.ok("R48.2", f"{q}: printf with a literal format, {{{text}}} is an argument")
                continue
            if per_char:
                missing = " and ".join(repr(c) for c in sorted(per_char))
                roots = sorted({o.root for t in per_char.values() for o in t})
                ctx.fail("R48.2", (rel, q, node), f"printf format operand <- {', '.join(roots)}",
                         f"{{{text}}} is the FORMAT operand of printf and carries request data in which {missing} are not escaped "
                         f"(a body containing a control character and e.g. '%s' or '\\\\n' text is re-interpreted)",
                         operand=text, unescaped=sorted(per_char), origins=sorted({o.text for t in per_char.values() for o in t}))
            else:
                ctx.ok("R48.2", f"{q}: printf format operand {{{text}}} has % and \\ escaped")
    ctx.expect_instances("R48.2", 1)
    _would_be_repaired(ctx, mod, res)

    # both directions on the example file (the repository instance is a known finding, so the mutants alone cannot show the rule can be silent)
    pos = load_positive("R48_2.py")
    pres = run_printf(SnippetModel(pos), pos)
    marks = expected_markers(pos)
    want, clean = set(marks.get("EXPECT:R48.2", [])), set(marks.get("CLEAN:R48.2", []))
    got = {node.lineno for rel, q, node, rows in pres.values() if any(pc for role, e, pc in rows.values())}
    checked = {node.lineno for rel, q, node, rows in pres.values()}
    if got != want or not clean <= checked or len(want) < 4 or len(clean) < 3:
        raise AnalysisError(f"R48.2 examples: reported lines {sorted(got)}, expected {sorted(want)}; clean templates checked {sorted(clean & checked)} of {sorted(clean)}")
    ctx.note(f"R48.2 examples: {len(want)} defective printf templates reported, {len(clean)} repaired / argument-position templates silent")


def _would_be_repaired(ctx, mod, res):
    """The repository instance is a known finding, so no mutant can show R48.2 going silent on the real code.  Do it here: apply
    the natural repair (add '%' -> '%%' and '\\' -> '\\\\' to the escape table) to the source text IN MEMORY and require silence."""
    from ..model import Module

    bad = [(rel, q, node) for rel, q, node, rows in res.values() if any(pc for role, e, pc in rows.values())]
    if not bad:
        ctx.note("R48.2: no violated printf operand in export.py - repair self-test not applicable")
        return
    for rel, q, node in bad:
        fn = enclosing_func(node)
        gets = [c for c in walk_in_order(fn) if isinstance(c, ast.Call) and isinstance(c.func, ast.Attribute) and c.func.attr == "get" and isinstance(c.func.value, ast.Name)
                and len(c.args) == 2 and norm(c.args[0]) == norm(c.args[1])]
        tabs = {c.func.value.id for c in gets}
        defs = [s for s in fn.body if isinstance(s, ast.Assign) and len(s.targets) == 1 and isinstance(s.targets[0], ast.Name) and s.targets[0].id in tabs]
        if len(tabs) != 1 or len(defs) != 1:
            ctx.note(f"R48.2: {q} does not use a single character table - repair self-test skipped")
            continue
        t = defs[0].targets[0].id
        lines = mod.source.splitlines(keepends=True)
        pad = " " * defs[0].col_offset
        fix = f'{pad}{t}["%"] = "%%"\n{pad}{t}["\\\\"] = "\\\\\\\\"\n'
        lines.insert(defs[0].end_lineno, fix)
        repaired = Module(mod.rel, "".join(lines))
        pres = run_printf(SnippetModel(repaired), repaired)
        still = [n.lineno for r_, q_, n, rows in pres.values() if q_ == q and any(pc for role, e, pc in rows.values())]
        if still:
            raise AnalysisError(f"R48.2 self-test: the rule still fires after adding % and \\ to {t} in {q} (lines {still})")
        ctx.note(f"R48.2 self-test: with '%' and '\\' added to {t} (in memory) the rule is silent on {q}")


MUTANTS = [
    Mutant("curl-args-unquoted", F, "    command = \" \".join(shlex.quote(arg) for arg in args)\n", "    command = \" \".join(arg for arg in args)\n", "R48.1"),
    Mutant("httpie-args-unquoted", F, "    cmd = \" \".join(shlex.quote(arg) for arg in args)\n", "    cmd = \" \".join(args)\n", "R48.1"),
    Mutant("curl-body-raw", F, "        command += f\" -d {request_content_for_console(request)}\"\n", "        command += f\" -d '{request.get_text(strict=False)}'\"\n", "R48.1"),
    Mutant("httpie-body-raw", F, "        cmd += \" <<< \" + request_content_for_console(request)\n", "        cmd += \" <<< \" + request.text\n", "R48.1"),
    Mutant("curl-url-appended-after-quoting", F, "    args.append(request.pretty_url)\n\n    command = \" \".join(shlex.quote(arg) for arg in args)\n",
           "    command = \" \".join(shlex.quote(arg) for arg in args)\n    command += \" \" + request.pretty_url\n", "R48.1"),
    Mutant("curl-method-only-quoted-when-odd", F, "        args += [\"-X\", request.method]\n\n    args.append(request.pretty_url)\n\n    command = \" \".join(shlex.quote(arg) for arg in args)\n",
           "        args += [\"-X\", request.method]\n\n    args.append(request.pretty_url)\n\n    command = \" \".join(shlex.quote(arg) if \" \" in arg else arg for arg in args)\n", "R48.1"),
    Mutant("body-plain-branch-unquoted", F, "    return shlex.quote(escaped_text)\n", "    return \"'\" + escaped_text + \"'\"\n", "R48.1"),
    Mutant("body-printf-branch-unquoted", F, "        return f'\"$(printf {shlex.quote(escaped_text)})\"'\n", "        return f'\"$(printf \\'{escaped_text}\\')\"'\n", "R48.1"),
    # R48.2: the repository instance is the known finding F-C48; these add a *second* printf format operand (distinct construct)
    Mutant("httpie-body-through-printf", F, "        cmd += \" <<< \" + request_content_for_console(request)\n",
           "        cmd += \" <<< \" + '\"$(printf ' + shlex.quote(request.get_text(strict=False)) + ')\"'\n", "R48.2"),
    Mutant("curl-header-through-printf", F, "            args += [\"-H\", f\"{k}: {v}\"]\n", "            args += [\"-H\", \"$(printf %s)\" % shlex.quote(f\"{k}: {v}\")]\n", "R48.2"),
]
