"""C48 - exported commands reproduce the request and are shell-safe (decided by interpretation against a reference shell).

How: the exporters registered under ``formats["curl"]`` / ``formats["httpie"]`` of addons/export.py (found through the registry, whatever
they are called and however they are split into helpers) are *interpreted from their AST* (``XInterp`` = pyint; nothing of the repository
is imported or run) on a family of concrete flows whose method, URL, header names / values, host, server address and body carry shell
metacharacters, quotes, control characters, ``%`` and ``\\``.  The string they return is handed to a **reference evaluator of the shell
command language** (``_helpers_sh``: POSIX quoting / expansion rules + bash ``printf``, written from the specifications, self-tested on
every run) which yields what a shell would do with that line.

  R48.1 the line is ONE simple command ``curl ...`` / ``http ...`` whose words are literal: no second command, pipeline, redirection
        (httpie's ``<<<`` here-string excepted), parameter / arithmetic expansion, glob, tilde, brace, comment or command substitution
        running anything but ``printf``; its argument vector encodes the request: the URL as the one positional word, the method
        (``-X`` / httpie's first word), one ``"name: value"`` word per header (the headers the export deliberately leaves to the client -
        content-length, accept-encoding, and host / :authority when equal to the request's host - may be absent), ``--resolve`` exactly
        when export_preserve_original_ip applies, and - for text bodies - the body as the ``-d`` word / here-string.  A text request must
        not make the exporter raise; a flow without request / a binary body may raise CommandError.
  R48.2 where the body travels through a ``printf`` command substitution, the word the shell builds from it is the body.  TODAY VIOLATED
        (F-C48, known finding): the body is the FORMAT operand with only the control characters escaped, so ``%`` / ``\\`` sequences of
        a body that also contains a control character are re-interpreted (and a trailing newline is eaten by the substitution).
        The finding is attributed to the function that produces the printf word (outermost helper below the exporter).
NOT decided: curl's / httpie's own reading of the words (``-d @file``, ``-d`` implying POST for a GET with body, httpie item syntax),
the newline the here-string appends, non-bash shells without ``printf '\\xHH'``, and the raw export's parse-back (needs the HTTP/1 parser; see C01).
"""

from __future__ import annotations

import ast
import re
import shlex

from ..core import AnalysisError
from ..pyint import Func
from ..pyint import Raised
from ..pyint import Rec
from ..selftest import Mutant
from . import _helpers_sh as sh
from ._helpers_G import expected_markers
from ._helpers_G import load_positive
from ._helpers_xi import abstract_ok
from ._helpers_xi import RaiseOnRead
from ._helpers_xi import Stub
from ._helpers_xi import trusted_stdlib
from ._helpers_xi import XInterp

PROP = "C48"
REG = {
    "strength": "partial",
    "technique": "interpretation of the registered curl / httpie exporters (AST interpreter, helpers followed) on hostile concrete flows; the returned "
    "line is evaluated by a self-tested reference implementation of shell quoting / expansion / printf and its argument vector compared with the request",
    "claim": "for every flow of the domain the exported curl / httpie line is one simple command with literal words whose arguments encode the "
    "request's URL, method, headers and text body; a body routed through printf must be reproduced by it - reported as known finding F-C48 on today's tree.",
    "note": "Bounded: a finite family of flows (one hostile string per field at a time plus combinations). Trusted: the reference shell evaluator "
    "(self-tested on every run, cross-checked against bash during development), shlex as a library. Does not decide curl's / httpie's own option semantics "
    "nor the raw export round-trip.",
}

F = "mitmproxy/addons/export.py"
CTXF = "mitmproxy/ctx.py"
SHELL_FORMATS = ("curl", "httpie")
NON_SHELL_FORMATS = ("raw", "raw_request", "raw_response")
KNOWN_KEY_CONSTRUCT = "printf format operand <- request"  # ("request" = request data; kept verbatim: known_findings.json matches on it)
BODY_ENCODER = "request_content_for_console"  # the anchor the property names for "the body as a shell word"
BODY_ENCODER_ROLE = "<body encoder shared by the exporters>"  # the same role under another name

# hostile strings: every class of character the shell gives a meaning to (XCU 2.2 / 2.6), quotes of both kinds, printf's two
# special characters, control characters
HOSTILE = [
    "a b",
    "it's",
    'say "hi"',
    "$(touch /tmp/pwned)",
    "`touch /tmp/pwned`",
    "; touch /tmp/pwned ;",
    "| sh",
    "&& reboot",
    "> /tmp/out",
    "< /etc/passwd",
    "$HOME ${PATH}",
    "back\\slash \\n \\x41",
    "100% %s %d %%",
    "*.txt ?x [a-z]",
    "~root",
    "#frag",
    "{a,b}",
    "!hist",
    "'\"'\"'",
    "\"'; touch /tmp/pwned; '\"",
    "line1\nline2",
    "tab\there",
    "\x1b[31mred",
    "café 中",
    "(sub) shell",
    "x=1 y",
    "it's $(touch /tmp/pwned) `id` $HOME \\$x",
    'say "hi" $(touch /tmp/pwned) `id` ${HOME}',
    "'\"$(touch /tmp/pwned)`id`$HOME\\;|&<>*?~#!{}()[]%s\\n",
    "",
]
# bodies that route through the control-character branch
CONTROL_BODIES = [
    "a\x01b",
    "bell\x07 and\ttab\nnewline",
    "a\x01 100%s literal\\n end",
    "\x02%d %% \\\\ \\x41",
    "\x03'; touch /tmp/pwned; '",
    "\x04\"$(touch /tmp/pwned)\"",
    "\x05`id` $HOME",
    "ctl\x06 then trailing newline\n",
    "-v starts like an option\x08",
]


# ---------------------------------------------------------------------------------------------------
# the world: flows / requests / headers as the exporters see them (public API of mitmproxy.http / flow / connection)


class Headers(Stub):
    """multi-valued, case-insensitive header container (the subset of mitmproxy.http.Headers an exporter may use)"""

    _what = "request.headers"

    def __init__(self, fields):
        object.__setattr__(self, "_f", [(k, v) for k, v in fields])

    @property
    def fields(self):
        return tuple((k.encode("utf-8", "surrogateescape"), v.encode("utf-8", "surrogateescape")) for k, v in self._f)

    def items(self, multi=False):
        if multi:
            return list(self._f)
        out = {}
        for k, v in self._f:
            out.setdefault(k, []).append(v)
        return [(k, ", ".join(v)) for k, v in out.items()]

    def keys(self):
        return [k for k, _ in self.items()]

    def values(self):
        return [v for _, v in self.items()]

    def get_all(self, name):
        return [v for k, v in self._f if k.lower() == name.lower()]

    def get(self, name, default=None):
        vs = self.get_all(name)
        return ", ".join(vs) if vs else default

    def pop(self, name, *default):
        vs = self.get_all(name)
        if not vs:
            if default:
                return default[0]
            raise Raised("KeyError")
        object.__setattr__(self, "_f", [(k, v) for k, v in self._f if k.lower() != name.lower()])
        return ", ".join(vs)

    def copy(self):
        return Headers(self._f)

    def __contains__(self, name):
        return bool(self.get_all(name))

    def __getitem__(self, name):
        vs = self.get_all(name)
        if not vs:
            raise KeyError(name)
        return ", ".join(vs)

    def __delitem__(self, name):
        if name not in self:
            raise KeyError(name)
        self.pop(name)

    def __iter__(self):
        return iter(self.keys())

    def __len__(self):
        return len(self.keys())

    def __bool__(self):
        return bool(self._f)


class World:
    def __init__(self, tag, method="POST", host="example.com", port=80, path="/p?a=1", headers=None, body="payload", binary=False,
                 peer=("10.1.2.3", 80), preserve_ip=False, has_request=True, scheme="http"):
        self.tag = tag
        self.method, self.host, self.port, self.path, self.scheme = method, host, port, path, scheme
        self.url = f"{scheme}://{host}{'' if port == 80 else ':' + str(port)}{path}"
        self.headers = list(headers if headers is not None else [("host", host), ("content-length", "7"), ("accept-encoding", "gzip"), ("x-a", "1"), ("x-a", "2")])
        self.body, self.binary = body, binary
        self.peer, self.preserve_ip, self.has_request = peer, preserve_ip, has_request

    # -- what the property says the export must carry
    def redundant(self, k, v) -> bool:
        k = k.lower()
        return k in ("content-length", "accept-encoding") or (k in ("host", ":authority") and v == self.host)

    def required_headers(self):
        return [f"{k}: {v}" for k, v in self.headers if not self.redundant(k, v)]

    def optional_headers(self):
        return [f"{k}: {v}" for k, v in self.headers if self.redundant(k, v)] + ["content-length: 0"]

    def resolve(self):
        if self.preserve_ip and self.peer and self.peer[0] and self.host != self.peer[0]:
            return f"{self.host}:{self.port}:[{self.peer[0]}]"
        return None

    # -- the records
    def request(self):
        w = self
        content = None if self.body is None else (b"\xff\xfe\x00binary\x80" if self.binary else self.body.encode("utf-8"))

        def get_text(strict=True):
            if w.body is None:
                return None
            if w.binary:
                if strict:
                    raise Raised("ValueError", "undecodable body")
                return content.decode("utf-8", "surrogateescape")
            return w.body

        def get_content(strict=True):
            return content

        r = Rec(
            "Request", _bases=("Message",), _name="request",
            method=self.method, scheme=self.scheme, host=self.host, port=self.port, path=self.path, url=self.url, pretty_url=self.url,
            pretty_host=self.host, authority=self.host if self.port == 80 else f"{self.host}:{self.port}", http_version="HTTP/1.1",
            headers=Headers(self.headers), content=content, raw_content=content, trailers=None, stream=False,
            timestamp_start=0.0, timestamp_end=1.0, is_http10=False, is_http11=True, is_http2=False, is_http3=False,
            text=RaiseOnRead("ValueError") if self.binary else self.body,
            get_text=abstract_ok(get_text), get_content=abstract_ok(get_content),
            decode=abstract_ok(lambda strict=True: None), encode=abstract_ok(lambda *a, **k: None),
        )

        def cp():
            c = w.request()
            object.__setattr__(c, "headers", Headers(r.headers._f))
            return c

        object.__setattr__(r, "copy", abstract_ok(cp))
        return r

    def flow(self):
        server = Rec("Server", _bases=("Connection",), _name="server_conn", peername=self.peer, address=(self.host, self.port), sni=None, ip_address=self.peer, tls=False, timestamp_start=0.0)
        client = Rec("Client", _bases=("Connection",), _name="client_conn", peername=("192.0.2.7", 51234), sockname=("192.0.2.1", 8080), tls=False)
        if not self.has_request:
            return Rec("TCPFlow", _bases=("Flow",), _name="flow", server_conn=server, client_conn=client, id="flow-id", type="tcp", metadata={}, error=None, live=False, marked="", comment="")
        return Rec("HTTPFlow", _bases=("Flow",), _name="flow", request=self.request(), response=None, server_conn=server, client_conn=client, id="flow-id", type="http", metadata={}, error=None,
                   live=False, marked="", comment="", websocket=None, intercepted=False, is_replay=None)


def worlds():
    out = [
        World("plain POST"),
        World("GET without body", method="GET", body=None, headers=[("host", "example.com"), ("x-a", "1")]),
        World("GET with empty body", method="GET", body="", headers=[("host", "example.com")]),
        World("POST without body", body=None),
        World("PUT, other port", method="PUT", port=8443, scheme="https"),
        World("host header differs", headers=[("host", "other.example"), ("x-a", "1")]),
        World(":authority equal to host", headers=[(":authority", "example.com"), ("x-a", "1")]),
        World(":authority differs", headers=[(":authority", "other.example"), ("x-a", "1")]),
        World("preserve ip", preserve_ip=True),
        World("preserve ip, same address", preserve_ip=True, host="10.1.2.3"),
        World("preserve ip, no peername", preserve_ip=True, peer=None),
        World("no headers", headers=[]),
        World("binary body", binary=True),
        World("flow without request", has_request=False),
    ]
    for n, h in enumerate(HOSTILE):
        if h:
            out.append(World(f"method #{n}", method=h))
            out.append(World(f"header name #{n}", headers=[("host", "example.com"), (h, "v")]))
        out.append(World(f"url #{n}", path="/p?q=" + h))
        out.append(World(f"header value #{n}", headers=[("host", "example.com"), ("x-h", h), ("x-a", "1")]))
        out.append(World(f"body #{n}", body=h))
        if h:
            out.append(World(f"host #{n}", host=h, preserve_ip=True, headers=[("host", h), ("x-a", "1")]))
            out.append(World(f"server address #{n}", peer=(h, 80), preserve_ip=True))
            out.append(World(f"everything #{n}", method=h, host=h, path="/" + h, headers=[(h, h), ("x-h", h)], body=h, peer=(h, 1), preserve_ip=True))
    for n, b in enumerate(CONTROL_BODIES):
        out.append(World(f"control body #{n}", body=b))
        out.append(World(f"control body #{n} (GET)", method="GET", body=b))
    return out


# ---------------------------------------------------------------------------------------------------
# running an exporter


def trusted():
    return trusted_stdlib()


def interp(model) -> XInterp:
    it = XInterp(model, trusted_modules=trusted())
    it.log_enabled = True
    return it


def registry(ctx, it):
    """format name -> Func, from the evaluated ``formats`` table of export.py (whatever its spelling: dict(...), literal, built in steps)"""
    mod = ctx.model.module(F)
    ctx.require(mod.assigns("formats"), "export.formats (the registry of export formats) vanished")
    reg = it.module_global(F, "formats")
    ctx.require(isinstance(reg, dict) and reg and all(isinstance(k, str) for k in reg), f"export.formats does not evaluate to a name -> function table: {reg!r}")
    for k, v in reg.items():
        ctx.require(k in SHELL_FORMATS or k in NON_SHELL_FORMATS, f"export format {k!r} is not classified as shell / non-shell by R48.1 (new exporter)")
        ctx.require(isinstance(unwrap(v)[0], Func) and isinstance(unwrap(v)[0].node, (ast.FunctionDef, ast.Lambda)), f"export format {k!r} is not bound to a function of the repository: {v!r}")
    ctx.require(set(SHELL_FORMATS) <= set(reg), "curl / httpie vanished from export.formats")
    return {k: Exporter(*unwrap(reg[k])) for k in SHELL_FORMATS}


def unwrap(v):
    """registry value -> (repository function, leading arguments, keyword arguments): a function, or a functools.partial of one"""
    import functools

    args, kwargs = (), {}
    while isinstance(v, functools.partial):
        args, kwargs = tuple(v.args) + args, {**v.keywords, **kwargs}
        v = v.func
    return getattr(v, "_pyint_func", v), args, kwargs


class Exporter:
    def __init__(self, func, args, kwargs):
        self.func, self.args, self.kwargs = func, args, kwargs
        self.node, self.mod = func.node, func.mod


def run_export(it, model, func, world):
    """-> ('ok', text, log) | ('raise', name, log)"""
    options = Rec("Options", _name="ctx.options", export_preserve_original_ip=world.preserve_ip)
    it.overrides[(CTXF, "options")] = options
    it.log = []
    it.steps = 0
    o = it.outcome(lambda: it.call_value(func.func, *func.args, world.flow(), **func.kwargs))
    return o, list(it.log)


CURL_TAKES_VALUE = {"-H": "H", "--header": "H", "-X": "X", "--request": "X", "-d": "D", "--data": "D", "--data-raw": "D", "--data-binary": "D", "--data-ascii": "D", "--resolve": "R"}
CURL_FLAGS = {"--compressed"}


def decode_curl(cmd: sh.Cmd):
    """curl argument vector -> {'H': [...], 'X': [...], 'D': [(word, tags)], 'R': [...], 'pos': [...], 'flags': [...]}"""
    out = {"H": [], "X": [], "D": [], "R": [], "pos": [], "flags": []}
    a, info = cmd.argv, cmd.info
    i = 1
    while i < len(a):
        w = a[i]
        if w in CURL_TAKES_VALUE and i + 1 < len(a):
            k = CURL_TAKES_VALUE[w]
            out[k].append((a[i + 1], info[i + 1]) if k == "D" else a[i + 1])
            i += 2
        elif w in CURL_FLAGS:
            out["flags"].append(w)
            i += 1
        else:
            out["pos"].append(w)
            i += 1
    return out


def decode_httpie(cmd: sh.Cmd):
    a = cmd.argv
    return {"X": a[1:2], "pos": a[2:3], "H": a[3:], "D": list(zip(cmd.herestrings, cmd.hs_info)), "R": [], "flags": []}


def multiset_diff(have, required, optional):
    """(missing required, unexpected) as lists"""
    have = list(have)
    missing = []
    for r in required:
        if r in have:
            have.remove(r)
        else:
            missing.append(r)
    extra = []
    opt = list(optional)
    for h in have:
        if h in opt:
            opt.remove(h)
        else:
            extra.append(h)
    return missing, extra


def judge(fmt, world, outcome):
    """-> [(rule, aspect, message)] for one exporter run"""
    probs = []
    if outcome[0] == "raise":
        may = (not world.has_request) or (world.binary and world.body)
        if not (may and outcome[1] == "CommandError"):
            probs.append(("R48.1", "raises", f"raises {outcome[1]} instead of producing a command"))
        return probs
    line = outcome[1]
    if not isinstance(line, str):
        raise AnalysisError(f"{fmt} exporter returned {type(line).__name__}, not str, in the interpreted model")
    if not world.has_request:
        probs.append(("R48.1", "raises", "produces a command for a flow without request"))
        return probs
    try:
        t = sh.run(line)
    except sh.ShellSyntaxError as e:
        return [("R48.1", "not a complete shell command", f"the shell cannot complete the line ({e})")]
    for ev in t.events:
        if ev[0] == "command":
            probs.append(("R48.1", "runs another command", f"the line makes the shell run `{ev[1]}`"))
        elif ev[0] in ("operator", "subshell"):
            probs.append(("R48.1", "not one simple command", f"unquoted {ev[1]!r} ends / combines commands"))
        elif ev[0] == "redirect":
            probs.append(("R48.1", "redirection", f"unquoted redirection {ev[1]!r}"))
        else:
            probs.append(("R48.1", "shell expansion of request data", f"the shell performs {ev[0]} {' '.join(map(str, ev[1:]))}".rstrip()))
    if len(t.commands) != 1:
        probs.append(("R48.1", "not one simple command", f"{len(t.commands)} commands: {[c.argv[:1] for c in t.commands]}"))
    if not t.commands:
        return probs
    cmd = t.commands[0]
    prog = "curl" if fmt == "curl" else "http"
    if cmd.argv[:1] != [prog]:
        probs.append(("R48.1", "command name", f"the command run is {cmd.argv[:1]}, not {prog}"))
        return probs
    d = decode_curl(cmd) if fmt == "curl" else decode_httpie(cmd)
    if fmt == "httpie" and cmd.herestrings and len(cmd.herestrings) > 1:
        probs.append(("R48.1", "redirection", "several here-strings"))
    if d["pos"] != [world.url]:
        probs.append(("R48.1", "URL", f"positional words {d['pos']!r}, expected the URL {world.url!r} alone"))
    if fmt == "curl":
        if not (d["X"] == [world.method] or (world.method == "GET" and d["X"] == [])):
            probs.append(("R48.1", "method", f"-X words {d['X']!r} for method {world.method!r}"))
    elif d["X"] != [world.method]:
        probs.append(("R48.1", "method", f"method word {d['X']!r} for method {world.method!r}"))
    missing, extra = multiset_diff(d["H"], world.required_headers(), world.optional_headers())
    if missing or extra:
        probs.append(("R48.1", "header set", f"header words missing {missing!r} / unexpected {extra!r}"))
    res = world.resolve()
    if d["R"] != ([res] if res else []) and fmt == "curl":
        probs.append(("R48.1", "resolve", f"--resolve words {d['R']!r}, expected {[res] if res else []!r} (export_preserve_original_ip={world.preserve_ip})"))
    if world.binary:
        return probs
    body = world.body or ""
    want = [body] if body else []
    got = [w for w, _ in d["D"]]
    if got != want:
        via_printf = any("printf" in tags for _, tags in d["D"])
        if via_printf and len(got) == 1 and want:
            fmts = [p[0] for p in t.printf]
            probs.append(("R48.2", "printf", f"the shell's printf turns the format {fmts[-1][:60]!r} into {got[0][:60]!r}, the body is {body[:60]!r}"))
        else:
            probs.append(("R48.1", "body", f"body words {[g[:60] for g in got]!r}, expected {[w[:60] for w in want]!r}"))
    return probs


def blame(fmt_func, log, line):
    """the function that produced the printf word: a repository function below the exporter whose (string) result contains a printf
    substitution and is part of the exported line - request_content_for_console if it is one of them, else the outermost one; the
    exporter itself if there is none.  -> qualname"""
    top = getattr(fmt_func.node, "_qual", getattr(fmt_func.node, "name", "<lambda>"))
    cands = [(depth, i, qual) for i, (depth, rel, qual, res) in enumerate(log) if rel == F and isinstance(res, str) and "printf" in res and res in line and qual != top]
    if not cands:
        return top
    if any(q == BODY_ENCODER for _, _, q in cands):
        return BODY_ENCODER  # the anchor the property names, wherever it sits in the chain of helpers
    cands.sort(key=lambda c: (c[0], -c[1]))
    return cands[0][2]


# ---------------------------------------------------------------------------------------------------


def check_reference(ctx):
    """the reference shell must behave as its specification examples say, accept a correct encoder and reject the defective one -
    otherwise it decides nothing (AnalysisError)"""
    bad = sh.selftest()
    if bad:
        raise AnalysisError(f"reference shell self-test failed: {bad[:3]}")
    bodies = [h for h in HOSTILE if h] + CONTROL_BODIES

    def ansi_c(text):  # a correct encoder: bash ANSI-C quoting
        return "$'" + "".join("\\\\" if c == "\\" else "\\'" if c == "'" else f"\\x{ord(c):02x}" if ord(c) < 32 else c for c in text) + "'"

    def printf_fixed(text):  # printf -- with % and \ escaped as well (correct except for trailing newlines, which $() removes)
        esc = "".join("%%" if c == "%" else "\\\\" if c == "\\" else f"\\x{ord(c):02x}" if ord(c) < 32 else c for c in text)
        return f'"$(printf -- {shlex.quote(esc)})"'

    def printf_today(text):
        esc = "".join(f"\\x{ord(c):02x}" if ord(c) < 32 else c for c in text)
        return f'"$(printf {shlex.quote(esc)})"'

    def word(enc, b):
        t = sh.run("curl -d " + enc(b))
        return t.commands[0].argv[2] if len(t.commands) == 1 and len(t.commands[0].argv) == 3 and not t.events else None

    if any(word(ansi_c, b) != b for b in bodies):
        raise AnalysisError("reference shell: a correctly ANSI-C quoted body is not reproduced")
    if any(word(printf_fixed, b) != b for b in bodies if not b.endswith("\n")):
        raise AnalysisError("reference shell: a printf word with % and \\ escaped is not reproduced")
    if all(word(printf_today, b) == b for b in CONTROL_BODIES):
        raise AnalysisError("reference shell: the defective printf encoding (only control characters escaped) is reproduced for every body")
    if any(word(shlex.quote, b) != b for b in bodies):
        raise AnalysisError("reference shell: shlex.quote(body) is not reproduced")
    ctx.note(f"reference shell: {len(sh.SELFTEST) + len(sh.SELFTEST_ERRORS)} specification examples, 3 reference encoders on {len(bodies)} bodies behave as specified")


def check_examples(ctx):
    """both directions on the example file, by the same pipeline (interpret, evaluate with the reference shell): the repository instance of
    R48.2 is a known finding, so the mutants alone cannot show that the rule can be silent on a repaired encoder"""
    pos = load_positive("R48_2.py")
    marks = expected_markers(pos)
    want, clean = set(marks.get("EXPECT:R48.2", [])), set(marks.get("CLEAN:R48.2", []))
    it = XInterp(ctx.model, trusted_modules=trusted())
    got, checked = set(), set()
    for q, fn in pos.defs().items():
        if not isinstance(fn, ast.FunctionDef):
            continue
        lines = {n.lineno for n in ast.walk(fn) if isinstance(n, ast.Return)} & (want | clean)
        if len(lines) != 1:
            continue
        line = lines.pop()
        checked.add(line)
        bad = False
        uses_suffix = "x-suffix" in ast.unparse(fn)  # (this example appends a header value to the body)
        for b in [b for b in CONTROL_BODIES if not b.endswith("\n") and not b.startswith("-")] + ["plain %s \\n"]:  # (trailing newlines removed by $() / a leading '-' read as an option are not what the examples are about)
            for suffix in ("", "%s\\n"):
                w = World("example", body=b, headers=[("x-suffix", suffix)] if suffix else [])
                o = it.outcome(lambda: it.apply(Func(pos, fn), [w.request()], {}, 0))
                if o[0] != "ok" or not isinstance(o[1], str):
                    raise AnalysisError(f"R48.2 example {q}: not interpretable ({o})")
                try:
                    t = sh.run("curl -d " + o[1])
                except sh.ShellSyntaxError:
                    bad = True
                    continue
                words = t.commands[0].argv[2:] if t.commands else []
                if t.events or len(t.commands) != 1 or words != [b + suffix if uses_suffix else b]:
                    bad = True
        if bad:
            got.add(line)
    if got != want or not clean <= checked or len(want) < 4 or len(clean) < 3:
        raise AnalysisError(f"R48.2 examples: reported lines {sorted(got)}, expected {sorted(want)}; clean encoders checked {sorted(clean & checked)} of {sorted(clean)}")
    ctx.note(f"R48.2 examples: {len(want)} defective printf encoders reported, {len(clean)} repaired / argument-position encoders silent")


def check(ctx):
    m = ctx.model
    ctx.rule("R48.1", "the exported curl / httpie line, evaluated by the reference shell, is one simple command with literal words whose arguments encode the "
             "request's URL, method, headers, --resolve and text body - else the line runs other commands or sends another request")
    ctx.rule("R48.2", "a body routed through a printf command substitution is reproduced by it (else printf re-interprets %s / \\n sequences of the body)")
    ctx.trust("reference evaluator of shell quoting / expansion / bash printf (mitmlint/props/_helpers_sh.py, self-tested on every run)")
    ctx.trust("shlex as a library (its quoting is *checked* through the reference shell, not assumed)")
    ctx.assume("request / flow objects behave like mitmproxy.http.Request / HTTPFlow for the attributes the exporters read (world model in C48.py)")
    check_reference(ctx)
    it = interp(m)
    exporters = registry(ctx, it)
    ws = worlds()
    ctx.bounds.append(f"{len(ws)} concrete flows per exporter: {len(HOSTILE)} hostile strings in each field separately and together, {len(CONTROL_BODIES)} control-character bodies")
    results = {}  # fmt -> (func, qual, seen findings, groups, number of bodies reproduced through printf)
    for fmt, func in exporters.items():
        qual = getattr(func.node, "_qual", getattr(func.node, "name", "<lambda>"))
        ctx.functions.add(f"{func.mod.rel}::{qual}")
        where = (func.mod.rel, qual, func.node)
        seen: dict = {}
        groups: dict = {}
        printf_ok = 0
        for w in ws:
            (o, log) = run_export(it, m, func, w)
            ctx.cells += 1
            for _, rel, q, _res in log:
                ctx.functions.add(f"{rel}::{q}")
            probs = judge(fmt, w, o)
            line = o[1] if o[0] == "ok" and isinstance(o[1], str) else ""
            grp = re.sub(r" #\d+.*", "", w.tag)
            groups.setdefault(grp, [0, 0])[0] += 1
            if not probs:
                groups[grp][1] += 1
                if "printf" in line:
                    printf_ok += 1
            for rule, aspect, msg in probs:
                if rule == "R48.2":
                    key = (rule, blame(func, log, line))
                    if key not in seen:
                        seen[key] = [(None, KNOWN_KEY_CONSTRUCT, f"{fmt} export, {w.tag}: {msg} - request data is the FORMAT operand of printf with '%' / '\\' not escaped "
                                      f"(a body containing a control character and e.g. '%s' or '\\n' text is re-interpreted). Line: {line[:120]!r}", rule), []]
                else:
                    key = (rule, aspect)
                    if key not in seen:
                        seen[key] = [(where, f"{fmt} export: {aspect}", f"{w.tag}: {msg}. Line: {line[:160]!r}", rule), []]
                seen[key][1].append(w.tag)
        results[fmt] = (func, qual, seen, groups, printf_ok)
    # attribution of R48.2: the function that builds the printf word.  A function blamed from EVERY exporter is the shared body encoder
    # (today: request_content_for_console, the anchor named by the property); if it has been renamed it is reported under its role.
    blamed = [{k[1] for k in seen if k[0] == "R48.2"} for _, _, seen, _, _ in results.values()]
    shared = set.intersection(*blamed) if blamed else set()
    for fmt, (func, qual, seen, groups, printf_ok) in results.items():
        for key, ((whr, construct, reason, rule), tags) in seen.items():
            if rule == "R48.2":
                bq = key[1]
                label = bq if bq == BODY_ENCODER or bq not in shared else BODY_ENCODER_ROLE
                whr = (F, label, m.module(F).get(bq) or func.node)
            ctx.fail(rule, whr, construct, reason + f" [{len(tags)} flows of the domain: {', '.join(tags[:6])}{' ...' if len(tags) > 6 else ''}]", flows=tags[:40])
        for g, (n, good) in groups.items():
            if good == n:
                ctx.ok("R48.1", f"{fmt} ({qual}): {g} - {n} flow(s): one simple command, literal words, arguments encode the request")
        if not any(r == "R48.2" for r, _ in seen):
            ctx.ok("R48.2", f"{fmt} ({qual}): {printf_ok} bodies routed through printf are reproduced by it" if printf_ok else f"{fmt} ({qual}): no body is routed through printf")
    ctx.expect_instances("R48.1", 16)
    ctx.expect_instances("R48.2", 1)
    check_examples(ctx)


MUTANTS = [
    Mutant("curl-args-unquoted", F, "    command = \" \".join(shlex.quote(arg) for arg in args)\n", "    command = \" \".join(arg for arg in args)\n", "R48.1"),
    Mutant("httpie-args-unquoted", F, "    cmd = \" \".join(shlex.quote(arg) for arg in args)\n", "    cmd = \" \".join(args)\n", "R48.1"),
    Mutant("curl-body-raw", F, "        command += f\" -d {request_content_for_console(request)}\"\n", "        command += f\" -d '{request.get_text(strict=False)}'\"\n", "R48.1"),
    Mutant("httpie-body-raw", F, "        cmd += \" <<< \" + request_content_for_console(request)\n", "        cmd += \" <<< \" + request.text\n", "R48.1"),
    Mutant("curl-url-appended-after-quoting", F, "    args.append(request.pretty_url)\n\n    command = \" \".join(shlex.quote(arg) for arg in args)\n",
           "    command = \" \".join(shlex.quote(arg) for arg in args)\n    command += \" \" + request.pretty_url\n", "R48.1"),
    Mutant("curl-method-only-quoted-when-odd", F, "        args += [\"-X\", request.method]\n\n    args.append(request.pretty_url)\n\n    command = \" \".join(shlex.quote(arg) for arg in args)\n",
           "        args += [\"-X\", request.method]\n\n    args.append(request.pretty_url)\n\n    command = \" \".join(shlex.quote(arg) if \" \" in arg else arg for arg in args)\n", "R48.1"),
    Mutant("body-plain-branch-unquoted", F, "    return shlex.quote(escaped_text)\n", "    return \"'\" + escaped_text + \"'\"\n", "R48.1"),
    Mutant("body-printf-branch-unquoted", F, "        return f'\"$(printf {shlex.quote(escaped_text)})\"'\n", "        return f'\"$(printf \\'{escaped_text}\\')\"'\n", "R48.1"),
    Mutant("double-quoted-arguments", F, "    command = \" \".join(shlex.quote(arg) for arg in args)\n", "    command = \" \".join('\"' + arg.replace('\\\\', '\\\\\\\\').replace('\"', '\\\\\"') + '\"' if \"'\" in arg else shlex.quote(arg) for arg in args)\n", "R48.1"),
    Mutant("curl-repeated-headers-folded", F, "    for k, v in request.headers.items(multi=True):\n        if k.lower() == \"accept-encoding\":", "    for k, v in request.headers.items():\n        if k.lower() == \"accept-encoding\":", "R48.1"),
    Mutant("curl-header-value-through-dead-printf", F, "            args += [\"-H\", f\"{k}: {v}\"]\n", "            args += [\"-H\", \"$(printf %s)\" % shlex.quote(f\"{k}: {v}\")]\n", "R48.1"),
    Mutant("curl-method-dropped", F, "        args += [\"-X\", request.method]\n", "        args += [\"-X\", request.method.upper()]\n", "R48.1"),
    Mutant("resolve-without-option", F, "        ctx.options.export_preserve_original_ip\n        and server_addr\n", "        server_addr\n", "R48.1"),
    Mutant("httpie-url-before-method", F, "    args = [\"http\", request.method, url]\n", "    args = [\"http\", url, request.method]\n", "R48.1"),
    # R48.2: the repository instance is the known finding F-C48; these route the body through a *second* printf (attributed to the exporter: distinct finding)
    Mutant("httpie-body-through-printf", F, "        cmd += \" <<< \" + request_content_for_console(request)\n",
           "        cmd += \" <<< \" + '\"$(printf ' + shlex.quote(request.get_text(strict=False)) + ')\"'\n", "R48.2"),
    Mutant("curl-body-through-printf", F, "        command += f\" -d {request_content_for_console(request)}\"\n",
           "        command += ' -d \"$(printf ' + shlex.quote(request.get_text(strict=False)) + ')\"'\n", "R48.2"),
]
