"""E5 `mayraise` - exception-escape sets vs. handler coverage (shared by C36, C25, C47, C44, C13).

What is computed
    For a region (a function, or a list of statements inside a function) the set of *escapes*
    (exception type, raiser site) that can leave the region:
      * every explicit ``raise X`` reachable over the resolved call graph, and
      * the MODELLED implicit raisers below, applied only to data the rule declares untrusted,
    filtered by the enclosing ``try/except`` (exception class hierarchy: Python builtins + stdlib by
    introspection of the *analyser's* interpreter, repository classes via the model's MRO) and propagated
    over calls resolved with ``ctx.model`` (module functions, imported names, ``self.``/``cls.``/``super()``
    methods via the MRO, nested closures, constructors, ``@contextmanager`` bodies around ``with``
    blocks, property setters of annotated locals, rule-declared class-hierarchy dispatch).

Kinds of untrusted data (declared by the rule for the entry names, propagated flow-insensitively)
    "V"  the *type/structure* is trusted, the *content* is not (bytes from the wire, ints unpacked from them)
    "A"  nothing is trusted (a value decoded from tnetstring / JSON: any of None/bool/int/float/str/bytes/list/dict)

Modelled implicit raisers (DESIGN E5 + OverflowError/RecursionError where magnitude/depth is data driven)
    d[k] / d.pop(k) without default      KeyError  (A: also IndexError/TypeError; trusted container + untrusted key: KeyError/IndexError)
    seq[i] (non-slice) on V              IndexError
    assert <mentions untrusted>          AssertionError
    int(x) / float(x)                    ValueError (A: + TypeError, int(A) + OverflowError)
    a, b = x  (x of kind A)              ValueError, TypeError
    x.decode(..) / str(x, enc)           UnicodeDecodeError ("idna": UnicodeError); errors=replace/ignore/... -> none
    x.encode(..)                         UnicodeEncodeError ("idna": UnicodeError)
    struct unpack*/pack on untrusted     struct.error
    f(*x) / f(**x) with x of kind A      TypeError
    attribute / method on kind A         AttributeError ; operators / iteration / len() on kind A -> TypeError
    recursion carrying untrusted data    RecursionError (unless the rule names the bound)
  Everything else raises nothing *in the model*.  A call that receives untrusted data and can neither be
  resolved nor found in the tables is an AnalysisError (strict), never a silent pass.

Nothing here imports or executes repository code.
"""

from __future__ import annotations

import ast
import builtins
import importlib
import sys
from dataclasses import dataclass

from ..core import AnalysisError
from ..core import norm as _norm_uncached
from ..model import attr_chain
from ..model import decorators
from ..model import enclosing_func
from ..model import qual_of
from ..model import stmts_of
from ..paths import BUILTIN_EXC_PARENTS



def norm(node_or_text) -> str:
    """core.norm with a per-node cache (the engine asks for the same texts many times)."""
    if isinstance(node_or_text, ast.AST):
        t = getattr(node_or_text, "_ntext", None)
        if t is None:
            t = _norm_uncached(node_or_text)
            try:
                node_or_text._ntext = t
            except AttributeError:
                pass
        return t
    return _norm_uncached(node_or_text)


# ---------------------------------------------------------------------------------------------------
# exception class hierarchy


class ExcHierarchy:
    """Canonical names: builtin -> 'KeyError'; stdlib -> 'struct.error'; repository class -> its short name."""

    THIRD_PARTY_PARENT = "Exception"

    def __init__(self, model):
        self.model = model
        self.parents: dict[str, list[str]] = {}
        for k, v in BUILTIN_EXC_PARENTS.items():
            self.parents[k] = [v]
        for name in dir(builtins):
            obj = getattr(builtins, name)
            if isinstance(obj, type) and issubclass(obj, BaseException):
                self._add_py(obj)
        self.parents["struct.error"] = ["Exception"]
        self.parents["CancelledError"] = ["BaseException"]
        self.third_party: set[str] = set()

    def _pyname(self, cls) -> str:
        if cls.__module__ == "builtins":
            return cls.__name__
        return f"{cls.__module__}.{cls.__qualname__}"

    def _add_py(self, cls) -> str:
        n = self._pyname(cls)
        if cls is BaseException:
            self.parents.setdefault(n, [])
            return n
        if n not in self.parents or n in BUILTIN_EXC_PARENTS:
            self.parents[n] = [self._pyname(b) for b in cls.__bases__ if issubclass(b, BaseException)]
            for b in cls.__bases__:
                if issubclass(b, BaseException):
                    self._add_py(b)
        return n

    def canon(self, mod, expr) -> str:
        """Canonical exception class name of an expression naming a class (or a call of it)."""
        if isinstance(expr, ast.Call):
            expr = expr.func
        k = (mod.rel, norm(expr))
        c = self.__dict__.setdefault("_canon_cache", {})
        if k not in c:
            c[k] = self._canon(mod, expr)
        return c[k]

    def _canon(self, mod, expr) -> str:
        text = attr_chain(expr)
        if not text:
            raise AnalysisError(f"{mod.rel}: exception expression of unmodelled shape: {norm(expr)}")
        r = self.model.resolve_name(mod, expr)
        if r is not None and isinstance(r[1], ast.ClassDef):
            return self._add_repo(r[0], r[1])
        head = text.split(".")[0]
        if "." not in text and head not in mod.imports:
            if text in self.parents:
                return text
            obj = getattr(builtins, text, None)
            if isinstance(obj, type) and issubclass(obj, BaseException):
                return self._add_py(obj)
            raise AnalysisError(f"{mod.rel}: cannot resolve exception class {text!r}")
        # imported: stdlib by introspection, third party as a leaf below Exception
        target = mod.imports.get(head, head).split(".") + text.split(".")[1:]
        top = target[0]
        if top in sys.stdlib_module_names:
            for i in range(len(target) - 1, 0, -1):
                try:
                    m = importlib.import_module(".".join(target[:i]))
                except Exception:
                    continue
                obj = m
                try:
                    for a in target[i:]:
                        obj = getattr(obj, a)
                except AttributeError:
                    break
                if isinstance(obj, type) and issubclass(obj, BaseException):
                    n = self._add_py(obj)
                    if n == "struct.error":
                        self.parents[n] = ["Exception"]
                    return n
                break
            raise AnalysisError(f"{mod.rel}: {text!r} is not an exception class of the standard library")
        if top == "mitmproxy":
            raise AnalysisError(f"{mod.rel}: cannot resolve repository exception class {text!r}")
        n = ".".join(target)
        self.parents.setdefault(n, [self.THIRD_PARTY_PARENT])
        self.third_party.add(n)
        return n

    def _add_repo(self, m, c) -> str:
        n = c.name
        if n in self.parents and getattr(self, "_repo", {}).get(n) not in (None, (m.rel, c._qual)):
            raise AnalysisError(f"two repository exception classes share the name {n}")
        self.__dict__.setdefault("_repo", {})[n] = (m.rel, c._qual)
        if n not in self.parents:
            self.parents[n] = []  # guard against cycles
            self.parents[n] = [self.canon(m, b) for b in c.bases if not isinstance(b, ast.Subscript)]
        return n

    def ancestors(self, exc: str) -> set[str]:
        out, todo = set(), [exc]
        while todo:
            e = todo.pop()
            if e in out:
                continue
            out.add(e)
            todo.extend(self.parents.get(e, []))
        return out

    def isa(self, exc: str, handler: str) -> bool:
        return handler in self.ancestors(exc)


# ---------------------------------------------------------------------------------------------------
# guard facts: conditions known to hold at a node (control dependence + short-circuit + early exits)


def _terminates(stmts) -> bool:
    return bool(stmts) and isinstance(stmts[-1], (ast.Raise, ast.Return, ast.Continue, ast.Break))


def _flatten(expr, val, out):
    if isinstance(expr, ast.UnaryOp) and isinstance(expr.op, ast.Not):
        _flatten(expr.operand, not val, out)
    elif isinstance(expr, ast.BoolOp) and isinstance(expr.op, ast.And) and val:
        for v in expr.values:
            _flatten(v, True, out)
    elif isinstance(expr, ast.BoolOp) and isinstance(expr.op, ast.Or) and not val:
        for v in expr.values:
            _flatten(v, False, out)
    else:
        out.append((expr, val))


def _pos(n):
    return (getattr(n, "lineno", 0), getattr(n, "col_offset", 0))


def _end(n):
    return (getattr(n, "end_lineno", 0), getattr(n, "end_col_offset", 0))


def names_in(expr) -> set[str]:
    out = set()
    for n in ast.walk(expr):
        if isinstance(n, ast.Name):
            out.add(n.id)
        elif isinstance(n, ast.Attribute):
            ch = attr_chain(n)
            if ch:
                out.add(ch)
    return out


def _writes(fn):
    """(position, written-name) pairs of every rebinding / destructive update in ``fn``."""
    cached = getattr(fn, "_writes_cache", None)
    if cached is not None:
        return cached
    out = []
    fn._writes_cache = out
    for n in ast.walk(fn):
        tg = []
        if isinstance(n, ast.Assign):
            tg = n.targets
        elif isinstance(n, (ast.AugAssign, ast.AnnAssign)):
            tg = [n.target]
        elif isinstance(n, (ast.For, ast.AsyncFor)):
            tg = [n.target]
        elif isinstance(n, ast.NamedExpr):
            tg = [n.target]
        elif isinstance(n, ast.Delete):
            tg = n.targets
        elif isinstance(n, ast.Call) and isinstance(n.func, ast.Attribute) and n.func.attr in (
            "pop", "clear", "remove", "popitem", "popleft", "__delitem__", "discard"):
            ch = attr_chain(n.func.value)
            if ch:
                out.append((_pos(n), ch))
        for t in tg:
            for e in ast.walk(t):
                if isinstance(e, (ast.Name, ast.Attribute)) and isinstance(getattr(e, "ctx", None), (ast.Store, ast.Del)):
                    ch = attr_chain(e)
                    if ch:
                        out.append((_pos(n), ch))
                if isinstance(e, ast.Subscript) and isinstance(e.ctx, ast.Del):
                    ch = attr_chain(e.value)
                    if ch:
                        out.append((_pos(n), ch))
    return out


def guards_at(node, fn) -> list[tuple[ast.AST, bool]]:
    """Conditions (expr, truth) that hold whenever ``node`` is evaluated, judged structurally.  A condition
    is dropped when one of the names it mentions may be rebound between its evaluation and ``node``."""
    cached = getattr(node, "_guards_cache", None)
    if cached is not None and cached[0] is fn:
        return cached[1]
    out = _guards_at(node, fn)
    try:
        node._guards_cache = (fn, out)
    except AttributeError:
        pass
    return out


def _guards_at(node, fn):
    raw: list[tuple[ast.AST, bool, tuple]] = []  # (expr, val, position after which it holds)
    child, p = node, getattr(node, "_parent", None)
    while p is not None and child is not fn:
        if isinstance(p, ast.If) or isinstance(p, ast.While):
            if any(child is s for s in p.body):
                raw.append((p.test, True, _end(p.test)))
            elif isinstance(p, ast.If) and any(child is s for s in p.orelse):
                raw.append((p.test, False, _end(p.test)))
        elif isinstance(p, ast.IfExp):
            if child is p.body:
                raw.append((p.test, True, _end(p.test)))
            elif child is p.orelse:
                raw.append((p.test, False, _end(p.test)))
        elif isinstance(p, ast.BoolOp):
            for v in p.values:
                if v is child:
                    break
                raw.append((v, isinstance(p.op, ast.And), _end(v)))
        # early exits / asserts among the preceding siblings of the same block
        for field in ("body", "orelse", "finalbody"):
            blk = getattr(p, field, None)
            if isinstance(blk, list) and any(child is s for s in blk):
                for s in blk:
                    if s is child:
                        break
                    if isinstance(s, ast.If) and not s.orelse and _terminates(s.body):
                        raw.append((s.test, False, _end(s)))
                    elif isinstance(s, ast.Assert):
                        raw.append((s.test, True, _end(s)))
        child, p = p, getattr(p, "_parent", None)
    flat: list[tuple[ast.AST, bool, tuple]] = []
    for e, v, at in raw:
        tmp: list = []
        _flatten(e, v, tmp)
        flat.extend((a, b, at) for a, b in tmp)
    # one level of variable resolution: `ok = a and b` ... `if ok:`
    more = []
    for e, v, at in flat:
        if isinstance(e, ast.Name) and v:
            defs = [n for n in ast.walk(fn) if isinstance(n, ast.Assign) and len(n.targets) == 1
                    and isinstance(n.targets[0], ast.Name) and n.targets[0].id == e.id]
            if len(defs) == 1 and _end(defs[0]) <= at:
                tmp = []
                _flatten(defs[0].value, True, tmp)
                more.extend((a, b, _end(defs[0])) for a, b in tmp if not isinstance(a, ast.Name))
    flat.extend(more)
    writes = _writes(fn)
    use = _pos(node)
    # loops containing the use: writes anywhere inside such a loop count when the guard is outside of it
    loops = []
    q = getattr(node, "_parent", None)
    while q is not None and q is not fn:
        if isinstance(q, (ast.While, ast.For, ast.AsyncFor)):
            loops.append(q)
        q = getattr(q, "_parent", None)
    out = []
    for e, v, at in flat:
        ns = names_in(e)
        unstable = False
        for wpos, wname in writes:
            if not any(wname == x or x.startswith(wname + ".") for x in ns):
                continue
            if at <= wpos < use:
                unstable = True
            for L in loops:
                if _pos(L) <= wpos <= _end(L) and not (_pos(L) <= at <= _end(L)):
                    unstable = True
        if not unstable:
            out.append((e, v))
    return out


def _len_lower_bound(guards, seq_text: str) -> int:
    """Largest n such that the guards prove len(seq) >= n."""
    best = 0
    for e, v in guards:
        if not (isinstance(e, ast.Compare) and len(e.ops) == 1):
            continue
        l, r, op = e.left, e.comparators[0], e.ops[0]

        def is_len(x):
            return isinstance(x, ast.Call) and isinstance(x.func, ast.Name) and x.func.id == "len" and len(x.args) == 1 and norm(x.args[0]) == seq_text

        def const(x):
            return x.value if isinstance(x, ast.Constant) and isinstance(x.value, int) and not isinstance(x.value, bool) else None

        if is_len(l) and const(r) is not None:
            c = const(r)
        elif is_len(r) and const(l) is not None:
            c = const(l)
            op = {ast.Lt: ast.Gt, ast.Gt: ast.Lt, ast.LtE: ast.GtE, ast.GtE: ast.LtE}.get(type(op), type(op))()
        else:
            continue
        lb = None
        if v:
            if isinstance(op, ast.Eq) or isinstance(op, ast.GtE):
                lb = c
            elif isinstance(op, ast.Gt):
                lb = c + 1
        else:
            if isinstance(op, ast.Lt):
                lb = c
            elif isinstance(op, ast.LtE):
                lb = c + 1
        if lb is not None:
            best = max(best, lb)
    return best


def _membership_guarded(guards, key_text: str, cont_text: str) -> bool:
    for e, v in guards:
        if isinstance(e, ast.Compare) and len(e.ops) == 1 and norm(e.left) == key_text and norm(e.comparators[0]) == cont_text:
            if (isinstance(e.ops[0], ast.In) and v) or (isinstance(e.ops[0], ast.NotIn) and not v):
                return True
    return False


def bounded_strings(node, fn, name: str, mod=None):
    """The finite set of constants the local ``name`` is known to equal whenever ``node`` is evaluated, or None when it is not bounded:
    a true guard ``name in (<constants>)`` / ``name in TABLE`` (module-level literal) / ``name == c`` / a disjunction of those, or an
    enclosing ``match name: case c1 | c2:`` arm (``name`` not rebound in between)."""

    def literal(e):
        if isinstance(e, ast.Name) and mod is not None:
            vals = mod.assigns(e.id)
            e = vals[0] if len(vals) == 1 else None
        if isinstance(e, ast.Call) and isinstance(e.func, ast.Name) and e.func.id in ("frozenset", "set", "tuple", "list") and len(e.args) == 1 and not e.keywords:
            e = e.args[0]
        if isinstance(e, (ast.List, ast.Tuple, ast.Set)) and e.elts and all(isinstance(x, ast.Constant) for x in e.elts):
            return [x.value for x in e.elts]
        if isinstance(e, ast.Dict) and e.keys and all(isinstance(x, ast.Constant) for x in e.keys):
            return [x.value for x in e.keys]
        return None

    def of_test(e):
        if isinstance(e, ast.BoolOp) and isinstance(e.op, ast.Or):
            parts = [of_test(v) for v in e.values]
            return None if any(p is None for p in parts) else [x for p in parts for x in p]
        if isinstance(e, ast.Compare) and len(e.ops) == 1:
            l, r = e.left, e.comparators[0]
            if isinstance(e.ops[0], ast.In) and isinstance(l, ast.Name) and l.id == name:
                return literal(r)
            if isinstance(e.ops[0], ast.Eq):
                for a, b in ((l, r), (r, l)):
                    if isinstance(a, ast.Name) and a.id == name and isinstance(b, ast.Constant):
                        return [b.value]
        return None

    def of_pattern(p):
        if isinstance(p, ast.MatchValue) and isinstance(p.value, ast.Constant):
            return [p.value.value]
        if isinstance(p, ast.MatchOr):
            parts = [of_pattern(x) for x in p.patterns]
            return None if any(x is None for x in parts) else [x for q in parts for x in q]
        if isinstance(p, ast.MatchAs) and p.pattern is not None:
            return of_pattern(p.pattern)
        return None

    best = None
    for e, val in guards_at(node, fn):
        got = of_test(e) if val else None
        if got is not None and (best is None or len(got) < len(best)):
            best = got
    child, p = node, getattr(node, "_parent", None)
    while p is not None and child is not fn:
        if isinstance(p, ast.match_case) and any(child is s for s in p.body):
            m = getattr(p, "_parent", None)
            if isinstance(m, ast.Match) and isinstance(m.subject, ast.Name) and m.subject.id == name:
                got = of_pattern(p.pattern)
                rebound = any(wname == name and _end(m.subject) <= wpos < _pos(node) for wpos, wname in _writes(fn))
                if got is not None and not rebound and (best is None or len(got) < len(best)):
                    best = got
        child, p = p, getattr(p, "_parent", None)
    return best


# ---------------------------------------------------------------------------------------------------
# the engine

_RANK ={None: 0, "V": 1, "A": 2}


def join(*ks):
    best = None
    for k in ks:
        if _RANK[k] > _RANK[best]:
            best = k
    return best


@dataclass(frozen=True)
class Esc:
    exc: str
    rel: str
    qual: str
    text: str  # normalised raiser construct
    why: str
    line: int = 0

    def site(self) -> str:
        return f"{self.rel}::{self.qual} `{self.text}`"


@dataclass
class Summary:
    escapes: frozenset
    ret: object  # kind


LENIENT_DECODE = ("replace", "ignore", "backslashreplace", "surrogateescape", "surrogatepass", "xmlcharrefreplace", "namereplace")

# methods of builtin containers / bytes / str / file objects that raise nothing in the model when the
# receiver's *type* is what the code expects (kind V or trusted); on kind A they add AttributeError.
SAFE_METHODS = frozenset(
    "startswith endswith lower upper strip lstrip rstrip split rsplit partition rpartition splitlines join replace hex "
    "tobytes isdigit isalpha isalnum isspace isascii find rfind count items keys values get copy read peek tell seek readline "
    "append appendleft extend add update setdefault clear insert sort reverse format removeprefix removesuffix title capitalize "
    "casefold zfill ljust rjust center expandtabs translate bit_length is_eof cast release union intersection difference "
    "issubset issuperset isdisjoint discard popitem most_common total_seconds write flush "
    "match search fullmatch sub subn findall finditer group groups groupdict start end span".split()
)

# builtin functions: name -> (exceptions on V, exceptions on A, result kind: 'join' | None | 'V' | 'A')
BUILTIN_CALLS = {
    "int": (("ValueError",), ("ValueError", "TypeError", "OverflowError"), "V"),
    "float": (("ValueError",), ("ValueError", "TypeError"), "V"),
    "len": ((), ("TypeError",), "V"),
    "tuple": ((), ("TypeError",), "join"), "list": ((), ("TypeError",), "join"), "set": ((), ("TypeError",), "join"),
    "frozenset": ((), ("TypeError",), "join"), "dict": ((), ("TypeError", "ValueError"), "join"),
    "sorted": ((), ("TypeError",), "join"), "reversed": ((), ("TypeError",), "join"), "sum": ((), ("TypeError",), "join"),
    "min": ((), ("TypeError",), "join"), "max": ((), ("TypeError",), "join"), "zip": ((), ("TypeError",), "join"),
    "enumerate": ((), ("TypeError",), "join"), "iter": ((), ("TypeError",), "join"), "map": ((), ("TypeError",), "join"),
    "filter": ((), ("TypeError",), "join"), "all": ((), ("TypeError",), None), "any": ((), ("TypeError",), None),
    "bytes": ((), ("TypeError", "ValueError"), "join"), "bytearray": ((), ("TypeError", "ValueError"), "join"),
    "memoryview": ((), ("TypeError",), "join"), "ord": ((), ("TypeError",), "V"), "chr": ((), ("TypeError", "ValueError"), "V"),
    "abs": ((), ("TypeError",), "join"), "round": ((), ("TypeError",), "join"), "divmod": ((), ("TypeError",), "join"),
    "range": ((), ("TypeError",), "V"), "hash": ((), ("TypeError",), None),
    "str": ((), (), "join"), "repr": ((), (), "join"), "bool": ((), (), None), "isinstance": ((), (), None),
    "issubclass": ((), (), None), "hasattr": ((), (), None), "type": ((), (), None), "id": ((), (), None), "callable": ((), (), None),
    "print": ((), (), None), "format": ((), (), "join"), "vars": ((), ("TypeError",), "join"), "next": ((), ("TypeError",), "join"),
    "object": ((), (), None), "slice": ((), (), "join"), "bin": ((), ("TypeError",), "V"),
}

DEFAULT_EXTERNALS = {
    # resolved dotted name (or text as written) -> (exceptions when fed untrusted data, result kind or 'join')
    "copy.deepcopy": ((), "join"), "copy.copy": ((), "join"), "typing.cast": ((), "join"),
    "typing.get_origin": ((), None), "typing.get_args": ((), None), "typing.get_type_hints": ((), None),
    "dataclasses.fields": ((), None), "time.time": ((), None), "uuid.uuid4": ((), None),
    "io.BytesIO": ((), "V"), "bytes.fromhex": (("ValueError",), "V"), "int.from_bytes": ((), "V"),
    "base64.b64encode": ((), "V"), "base64.b64decode": (("ValueError",), "V"),
    "json.loads": (("ValueError",), "A"), "json.dumps": (("TypeError", "ValueError"), "V"),
    "re.match": ((), "V"), "re.search": ((), "V"), "re.sub": ((), "V"), "re.fullmatch": ((), "V"), "re.split": ((), "V"),
    "ipaddress.ip_address": (("ValueError",), "V"), "ipaddress.IPv4Address": (("ValueError",), "V"),
    "ipaddress.IPv6Address": (("ValueError",), "V"),
    "itertools.chain": ((), "join"), "itertools.chain.from_iterable": ((), "join"),
    "warnings.warn": ((), None), "os.path.expanduser": ((), "V"),
}


@dataclass
class Config:
    externals: dict = None  # extends DEFAULT_EXTERNALS
    dispatch: dict = None  # method name -> [(rel, qual), ...]   (class-hierarchy dispatch chosen by the rule)
    dynamic: object = None  # f(frame, call) -> None | [(rel, qual)...] | ("raises", excs, kind)
    returns: dict = None  # "rel::qual" -> kind override of the return value
    bounded_recursion: dict = None  # "rel::qual" -> reason why the recursion depth is not data driven
    discharge: object = None  # f(frame, exc, node, why) -> reason | None
    attr_on_any: bool = True
    safe_methods: frozenset = frozenset()
    skip_explicit: object = None  # f(frame, raise_node) -> reason | None   (named suppressions)
    strict: bool = True
    local_types: object = None  # f(frame) -> {local name | attribute chain: (rel, class qual)}: types the rule knows beyond the annotations (annotations win)
    taint_through_mutation: bool = False  # opt-in: `buf.extend(x)` / `lst.append(x)` with untrusted x makes the container untrusted (kind V)


class _CachedModel:
    """Memoising facade over model.Model (resolve_name / mro / method hit the file system and are asked repeatedly)."""

    def __init__(self, model):
        self._m = model
        self._rn: dict = {}
        self._mro: dict = {}
        self._meth: dict = {}

    def __getattr__(self, name):
        return getattr(self._m, name)

    def resolve_name(self, mod, expr):
        k = (mod.rel, norm(expr))
        if k not in self._rn:
            self._rn[k] = self._m.resolve_name(mod, expr)
        return self._rn[k]

    def mro(self, rel, qual):
        k = (rel, qual)
        if k not in self._mro:
            self._mro[k] = self._m.mro(rel, qual)
        return self._mro[k]

    def method(self, rel, qual, name):
        k = (rel, qual, name)
        if k not in self._meth:
            r = None
            for m, c in self.mro(rel, qual):
                for st in c.body:
                    if isinstance(st, (ast.FunctionDef, ast.AsyncFunctionDef)) and st.name == name:
                        r = (m, st)
                        break
                if r:
                    break
            self._meth[k] = r
        return self._meth[k]


def cached_model(model):
    cm = getattr(model, "_H_cached", None)
    if cm is None:
        cm = _CachedModel(model)
        model._H_cached = cm
    return cm


class MayRaise:
    def __init__(self, ctx, cfg: Config | None = None):
        self.ctx = ctx
        self.model = cached_model(ctx.model)
        self.cfg = cfg or Config()
        self.h = ExcHierarchy(self.model)
        self.ext = dict(DEFAULT_EXTERNALS)
        self.ext.update(self.cfg.externals or {})
        self.memo: dict = {}
        self.done: set = set()
        self.stack: list = []
        self.changed = False
        self.edges: dict = {}
        self._edge_done: set = set()
        self.entry_flag: dict = {}
        self.unmodelled: set = set()
        self.final: set = set()
        self.unstable_reads = 0
        self.discharged: dict = {}
        self.functions: set = set()
        self.sites = 0

    # ---- public -----------------------------------------------------------------------------------
    def function(self, rel: str, qual: str, kinds: dict) -> Summary:
        mod = self.model.module(rel)
        fn = self.model.func(rel, qual)
        return self._fix(lambda: self.summ(mod, fn, dict(kinds)))

    def region(self, rel: str, qual: str, stmts, kinds: dict) -> frozenset:
        """Escapes of the statement list ``stmts`` (inside function rel::qual) under the entry kinds."""
        mod = self.model.module(rel)
        fn = self.model.func(rel, qual)

        def once():
            fr = _Frame(self, mod, fn, dict(kinds), (rel, qual + "#region", _envkey(kinds)))
            # kinds are propagated inside the region only; the rule supplies the entry kinds
            return Summary(frozenset(fr.settle_and_collect(stmts)), None)

        return self._fix(once).escapes

    def _fix(self, thunk):
        for _ in range(12):
            self.changed = False
            self.done = set()
            res = thunk()
            if not self.changed:
                return res
        raise AnalysisError("mayraise: escape sets did not stabilise in 12 rounds")

    def key_of_region(self, rel, qual, kinds):
        return (rel, qual + "#region", _envkey(kinds))

    def chain(self, key, esc: Esc) -> list[str]:
        out = []
        seen = set()
        while (key, esc) in self.edges and key not in seen:
            seen.add(key)
            text, nxt = self.edges[(key, esc)]
            out.append(f"{key[1].replace('#region', '')}: {text}")
            key = nxt
        out.append(f"{esc.qual}: {esc.text} -> {esc.exc} ({esc.why})")
        return out

    # ---- summaries --------------------------------------------------------------------------------
    def summ(self, mod, fn, env: dict, self_kind=None) -> Summary:
        key = (mod.rel, fn._qual, _envkey(env))
        if key in self.final:
            return self.memo[key]
        if key in self.done:
            self.unstable_reads += 1
            return self.memo[key]
        if key in self.stack:
            self.unstable_reads += 1
            return self.memo.get(key, Summary(frozenset(), None))
        self.stack.append(key)
        self.functions.add(f"{mod.rel}::{fn._qual}")
        reads0 = self.unstable_reads
        try:
            fr = _Frame(self, mod, fn, env, key)
            body = stmts_of(fn)
            esc = frozenset(fr.settle_and_collect(body))
            ret = fr.ret
            ov = (self.cfg.returns or {}).get(f"{mod.rel}::{fn._qual}")
            if ov is not None:
                ret = ov
        finally:
            self.stack.pop()
        old = self.memo.get(key)
        new = Summary(esc | (old.escapes if old else frozenset()), join(ret, old.ret if old else None))
        if old is None or old.escapes != new.escapes or old.ret != new.ret:
            self.changed = True
        self.memo[key] = new
        self.done.add(key)
        if self.unstable_reads == reads0:
            self.final.add(key)  # nothing in its call tree depended on an unfinished summary: final for good
        return new

    # ---- small resolvers --------------------------------------------------------------------------
    def struct_format(self, mod, expr):
        """Format string if ``expr`` denotes a module/class level ``struct.Struct("fmt")`` constant."""
        val = None
        if isinstance(expr, ast.Name):
            vals = mod.assigns(expr.id)
            val = vals[-1] if vals else None
            if val is None and expr.id in mod.imports:
                r = self._resolve_const(mod, expr)
                val = r
        elif isinstance(expr, ast.Attribute):
            val = self._resolve_const(mod, expr)
        if isinstance(val, ast.Call) and norm(val.func) in ("struct.Struct", "Struct") and val.args and isinstance(val.args[0], ast.Constant):
            return val.args[0].value
        return None

    def _resolve_const(self, mod, expr):
        """Value node of `Cls.ATTR` / `module.NAME` / imported NAME, else None."""
        if isinstance(expr, ast.Attribute):
            r = self.model.resolve_name(mod, expr.value)
            if r is not None and isinstance(r[1], ast.ClassDef):
                for m, c in self.model.mro(r[0].rel, r[1]._qual):
                    for st in c.body:
                        if isinstance(st, ast.AnnAssign) and isinstance(st.target, ast.Name) and st.target.id == expr.attr and st.value is not None:
                            return st.value
                        if isinstance(st, ast.Assign) and any(isinstance(t, ast.Name) and t.id == expr.attr for t in st.targets):
                            return st.value
                return None
            ch = attr_chain(expr.value)
            if ch and ch.split(".")[0] in mod.imports:
                target = mod.imports[ch.split(".")[0]].split(".") + ch.split(".")[1:]
                m = self.model.module_by_dotted(".".join(target))
                if m is not None:
                    vals = m.assigns(expr.attr)
                    return vals[-1] if vals else None
        elif isinstance(expr, ast.Name) and expr.id in mod.imports:
            target = mod.imports[expr.id].split(".")
            m = self.model.module_by_dotted(".".join(target[:-1]))
            if m is not None:
                vals = m.assigns(target[-1])
                return vals[-1] if vals else None
        return None

    def _const_with_module(self, mod, expr):
        """(defining Module, value node) of a module-level constant spelled ``NAME`` / imported ``NAME`` / ``module.NAME`` that is bound
        exactly once in its module; None otherwise (classes, functions, rebinding, locals are not constants)."""
        if isinstance(expr, ast.Name):
            if expr.id in mod.imports:
                target = mod.imports[expr.id].split(".")
                m = self.model.module_by_dotted(".".join(target[:-1])) if len(target) > 1 else None
                name = target[-1]
            else:
                m, name = mod, expr.id
        elif isinstance(expr, ast.Attribute):
            ch = attr_chain(expr.value)
            if not ch or ch.split(".")[0] not in mod.imports:
                return None
            target = mod.imports[ch.split(".")[0]].split(".") + ch.split(".")[1:]
            m, name = self.model.module_by_dotted(".".join(target)), expr.attr
        else:
            return None
        if m is None or m.get(name) is not None:
            return None
        vals = m.assigns(name)
        if len(vals) != 1:
            return None
        if any(isinstance(n, ast.Global) and name in n.names for n in ast.walk(m.tree)):
            return None
        return m, vals[0]

    def handler_names(self, mod, expr, _depth: int = 0) -> list[str]:
        """Canonical exception class names denoted by the type expression of an ``except`` clause / ``suppress(..)`` argument: a class, a
        tuple of those (also ``(*A, B)`` and ``A + B``), or a module-level constant (of this or an imported repository module) bound once
        to such an expression - ``except _MALFORMED_DATA_ERRORS as e`` catches exactly what the tuple it names lists."""
        if _depth > 6:
            raise AnalysisError(f"{mod.rel}: exception tuple constants nested too deeply: {norm(expr)[:60]}")
        if isinstance(expr, ast.Tuple):
            out = []
            for e in expr.elts:
                out.extend(self.handler_names(mod, e.value if isinstance(e, ast.Starred) else e, _depth + 1))
            return out
        if isinstance(expr, ast.BinOp) and isinstance(expr.op, ast.Add):
            return self.handler_names(mod, expr.left, _depth + 1) + self.handler_names(mod, expr.right, _depth + 1)
        if isinstance(expr, (ast.Name, ast.Attribute)):
            r = self.model.resolve_name(mod, expr)
            if r is None or not isinstance(r[1], ast.ClassDef):
                c = self._const_with_module(mod, expr)
                if c is not None and isinstance(c[1], (ast.Tuple, ast.BinOp, ast.Name, ast.Attribute)):
                    return self.handler_names(c[0], c[1], _depth + 1)
        return [self.h.canon(mod, expr)]

    def returned_exception_classes(self, mod, fn) -> list[str]:
        """Exception classes an *exception factory* can return (``raise make_error(x)``): every ``return`` of ``fn`` must return a freshly
        constructed exception ``Cls(...)`` (directly, through a local bound once to it, or ``A(..) if c else B(..)``)."""
        out = []

        def of(e, depth=0):
            if isinstance(e, ast.IfExp):
                return of(e.body, depth) + of(e.orelse, depth)
            if isinstance(e, ast.Name) and depth < 3:
                defs = [n for n in _own_nodes(fn) if isinstance(n, (ast.Assign, ast.AnnAssign)) and n.value is not None
                        and any(isinstance(t, ast.Name) and t.id == e.id for t in (n.targets if isinstance(n, ast.Assign) else [n.target]))]
                if len(defs) == 1:
                    return of(defs[0].value, depth + 1)
            if isinstance(e, ast.Call) and attr_chain(e.func):
                return [self.h.canon(mod, e)]
            raise AnalysisError(f"mayraise: {mod.rel}::{fn._qual} is raised as an exception factory but returns `{norm(e)[:60]}`")

        rets = [n for n in _own_nodes(fn) if isinstance(n, ast.Return)]
        if not rets or any(r.value is None for r in rets) or _has_yield(fn):
            raise AnalysisError(f"mayraise: {mod.rel}::{fn._qual} is raised as an exception factory but does not return an exception on every path")
        for r in rets:
            out.extend(of(r.value))
        for name in out:
            if not self.h.isa(name, "BaseException"):
                raise AnalysisError(f"mayraise: {mod.rel}::{fn._qual} returns {name}, which is not an exception class")
        return out

    def resolved_dotted(self, mod, func_expr) -> str:
        ch = attr_chain(func_expr)
        if not ch:
            return ""
        head = ch.split(".")[0]
        if head in mod.imports:
            return ".".join(mod.imports[head].split(".") + ch.split(".")[1:])
        return ch


LOGGING_METHODS = frozenset("debug info warning warn error critical exception log isEnabledFor".split())


def _module_logger(eng, mod, name: str, depth: int = 0) -> bool:
    """Module-level ``name`` of ``mod`` is a ``logging.Logger``: bound only at module level, every binding being
    ``logging.getLogger(..)`` / ``getLogger(..)`` (imported from logging) / ``<module logger>.getChild(..)``, or imported from a
    repository module where that holds."""
    cache = eng.__dict__.setdefault("_logger_names", {})
    k = (mod.rel, name)
    if k in cache:
        return cache[k]
    cache[k] = False  # cycles
    ok = False
    if depth <= 4:
        if name in mod.imports:
            target = mod.imports[name].split(".")
            m = eng.model.module_by_dotted(".".join(target[:-1])) if len(target) > 1 else None
            ok = m is not None and m is not mod and _module_logger(eng, m, target[-1], depth + 1)
        else:
            vals = mod.assigns(name)
            # every binding of the global: module-scope stores (functions / classes have their own scope) + `global name` anywhere
            stores = sum(1 for n in _own_nodes(mod.tree) if isinstance(n, ast.Name) and n.id == name and isinstance(n.ctx, (ast.Store, ast.Del)))
            stores += sum(1 for n in ast.walk(mod.tree) if isinstance(n, ast.Global) and name in n.names)
            ok = bool(vals) and stores == len(vals)
            for v in vals:
                if not ok:
                    break
                f = v.func if isinstance(v, ast.Call) else None
                if isinstance(f, ast.Attribute) and f.attr == "getLogger":
                    ok = eng.resolved_dotted(mod, f) == "logging.getLogger"
                elif isinstance(f, ast.Name):
                    ok = mod.imports.get(f.id) == "logging.getLogger"
                elif isinstance(f, ast.Attribute) and f.attr == "getChild" and isinstance(f.value, ast.Name):
                    ok = _module_logger(eng, mod, f.value.id, depth + 1)
                else:
                    ok = False
    cache[k] = ok
    return ok


def _envkey(env: dict):
    return tuple(sorted((k, v) for k, v in env.items() if v is not None))


def _is_cm(fn) -> bool:
    return any(d.split(".")[-1] in ("contextmanager", "asynccontextmanager") for d in decorators(fn))


def _has_yield(fn) -> bool:
    for n in _own_nodes(fn):
        if isinstance(n, (ast.Yield, ast.YieldFrom)):
            return True
    return False


def _own_nodes(fn):
    """Nodes of ``fn`` not inside nested function / class / lambda definitions."""
    todo = list(ast.iter_child_nodes(fn))
    while todo:
        n = todo.pop()
        if isinstance(n, (ast.FunctionDef, ast.AsyncFunctionDef, ast.ClassDef, ast.Lambda)):
            continue
        yield n
        todo.extend(ast.iter_child_nodes(n))


def _enclosing_class(model, mod, fn):
    p = getattr(fn, "_parent", None)
    while p is not None and not isinstance(p, ast.ClassDef):
        if isinstance(p, (ast.FunctionDef, ast.AsyncFunctionDef)):
            p = getattr(p, "_parent", None)
            continue
        p = getattr(p, "_parent", None)
    return p


class _Frame:
    def __init__(self, eng: MayRaise, mod, fn, env: dict, key, yield_body=None):
        self.eng = eng
        self.mod = mod
        self.fn = fn
        self.env = dict(env)
        self.key = key
        self.cur: set = set()
        self.collecting = False
        self.ret = None
        self.handling: list = []  # stack of (handler var name | None, frozenset[Esc])
        self.yield_body = yield_body
        self.types: dict = {}  # local name -> (Module, ClassDef) from annotations
        self._env_changed = False
        self.cls = _enclosing_class(eng.model, mod, fn)
        a = fn.args
        for arg in a.posonlyargs + a.args + a.kwonlyargs:
            if arg.annotation is not None:
                self._note_type(arg.arg, arg.annotation)
        for n in _own_nodes(fn):
            if isinstance(n, ast.AnnAssign) and isinstance(n.target, ast.Name):
                self._note_type(n.target.id, n.annotation)
        if eng.cfg.local_types is not None:
            for name, (rel, qual) in (eng.cfg.local_types(self) or {}).items():
                c = eng.model.module(rel).get(qual)
                if name not in self.types and isinstance(c, ast.ClassDef):
                    self.types[name] = (eng.model.module(rel), c)

    # ---- driving ----------------------------------------------------------------------------------
    def settle(self, stmts):
        """Flow-insensitive propagation of kinds: repeat until the environment is stable."""
        self.collecting = False
        for _ in range(8):
            self._env_changed = False
            self.cur = set()
            self.block(stmts)
            if not self._env_changed:
                return
        raise AnalysisError(f"mayraise: kinds did not stabilise in {self.mod.rel}::{self.fn._qual}")

    def settle_and_collect(self, stmts) -> set:
        """settle + collect in one go: collect on every pass and keep the collection of the first pass that leaves the
        environment unchanged."""
        for _ in range(8):
            self._env_changed = False
            self.collecting = True
            self.cur = set()
            self.ret = None
            self.block(stmts)
            if not self._env_changed:
                return self.cur
        raise AnalysisError(f"mayraise: kinds did not stabilise in {self.mod.rel}::{self.fn._qual}")

    def collect(self, stmts) -> set:
        self.collecting = True
        self.cur = set()
        self.block(stmts)
        return self.cur

    # ---- recording --------------------------------------------------------------------------------
    def add(self, exc: str, node, why: str):
        if not self.collecting:
            return
        self.eng.sites += 1
        d = self.eng.cfg.discharge
        if d is not None:
            reason = d(self, exc, node, why)
            if reason:
                self.eng.discharged[f"{self.mod.rel}::{self.fn._qual} `{norm(node)[:70]}` {exc}"] = reason
                return
        self.cur.add(Esc(exc, self.mod.rel, self.fn._qual, norm(node)[:90], why, getattr(node, "lineno", 0)))

    def bind(self, target, k):
        if isinstance(target, ast.Starred):
            target = target.value
        if isinstance(target, (ast.Tuple, ast.List)):
            for e in target.elts:
                self.bind(e, k)
            return
        name = target.id if isinstance(target, ast.Name) else attr_chain(target)
        if not name:
            return
        new = join(self.env.get(name), k)
        if new != self.env.get(name):
            self.env[name] = new
            self._env_changed = True

    def kind_of_name(self, name: str):
        return self.env.get(name)

    def tainted_in(self, expr) -> bool:
        for n in ast.walk(expr):
            if isinstance(n, ast.Name) and self.env.get(n.id):
                return True
            if isinstance(n, ast.Attribute):
                ch = attr_chain(n)
                if ch and self.env.get(ch):
                    return True
        return False

    def _note_type(self, name, ann):
        if isinstance(ann, ast.Constant) and isinstance(ann.value, str):
            try:
                ann = ast.parse(ann.value, mode="eval").body
            except SyntaxError:
                return
        if isinstance(ann, ast.BinOp):  # X | None
            ann = ann.left
        r = self.eng.model.resolve_name(self.mod, ann) if isinstance(ann, (ast.Name, ast.Attribute)) else None
        if r is not None and isinstance(r[1], ast.ClassDef):
            self.types[name] = r

    # ---- statements -------------------------------------------------------------------------------
    def block(self, stmts):
        for s in stmts:
            self.stmt(s)

    def _sub(self, stmts) -> set:
        saved = self.cur
        self.cur = set()
        self.block(stmts)
        out, self.cur = self.cur, saved
        return out

    def stmt(self, s):
        if isinstance(s, (ast.FunctionDef, ast.AsyncFunctionDef, ast.ClassDef, ast.Pass, ast.Import, ast.ImportFrom,
                          ast.Global, ast.Nonlocal, ast.Break, ast.Continue)):
            return
        if isinstance(s, ast.Expr):
            if isinstance(s.value, ast.Yield) and self.yield_body is not None:
                if s.value.value is not None:
                    self.ev(s.value.value)
                self.cur |= self.yield_body()
                return
            self.ev(s.value)
            return
        if isinstance(s, ast.Assign):
            k = self.ev(s.value)
            for t in s.targets:
                self.assign(t, k, s.value, s)
            return
        if isinstance(s, ast.AnnAssign):
            if isinstance(s.target, ast.Name):
                self._note_type(s.target.id, s.annotation)
            if s.value is not None:
                k = self.ev(s.value)
                self.assign(s.target, k, s.value, s)
            return
        if isinstance(s, ast.AugAssign):
            k = self.ev(s.value)
            kt = self.ev_load_of(s.target)
            if "A" in (k, kt):
                self.add("TypeError", s, "operator on untrusted-type data")
            self.assign(s.target, join(k, kt), s.value, s)
            return
        if isinstance(s, ast.Return):
            if s.value is not None:
                self.ret = join(self.ret, self.ev(s.value))
            return
        if isinstance(s, ast.Delete):
            for t in s.targets:
                if isinstance(t, ast.Subscript):
                    self.subscript(t, store=True)
                else:
                    self.ev_children(t)
            return
        if isinstance(s, ast.Raise):
            self.raise_(s)
            return
        if isinstance(s, ast.Assert):
            self.ev(s.test)
            if self.tainted_in(s.test):
                self.add("AssertionError", s, "assert on untrusted data")
            return
        if isinstance(s, ast.If):
            self.ev(s.test)
            self.block(s.body)
            self.block(s.orelse)
            return
        if isinstance(s, ast.While):
            self.ev(s.test)
            self.block(s.body)
            self.block(s.orelse)
            return
        if isinstance(s, (ast.For, ast.AsyncFor)):
            self.iterate(s.target, s.iter, s)
            self.block(s.body)
            self.block(s.orelse)
            return
        if isinstance(s, (ast.With, ast.AsyncWith)):
            self.with_(s, 0)
            return
        if isinstance(s, ast.Try):
            self.try_(s)
            return
        if isinstance(s, ast.Match):
            self.ev(s.subject)
            ks = self.ev(s.subject)
            for c in s.cases:
                for n in ast.walk(c.pattern):
                    if isinstance(n, (ast.MatchAs, ast.MatchStar)) and n.name:
                        self.bind(ast.Name(id=n.name, ctx=ast.Store()), ks)
                    if isinstance(n, ast.MatchMapping) and n.rest:
                        self.bind(ast.Name(id=n.rest, ctx=ast.Store()), ks)
                if c.guard is not None:
                    self.ev(c.guard)
                self.block(c.body)
            return
        raise AnalysisError(f"mayraise: statement of unmodelled shape in {self.mod.rel}::{self.fn._qual}: {norm(s)[:80]}")

    def assign(self, target, k, value, stmt):
        if isinstance(target, (ast.Tuple, ast.List)):
            if k == "A":
                self.add("ValueError", stmt, "tuple-unpacking of untrusted-structure data")
                self.add("TypeError", stmt, "tuple-unpacking of untrusted-structure data")
            for e in target.elts:
                self.assign(e, k, value, stmt)
            return
        if isinstance(target, ast.Starred):
            self.assign(target.value, k, value, stmt)
            return
        if isinstance(target, ast.Subscript):
            self.subscript(target, store=True)
            return
        if isinstance(target, ast.Attribute):
            kr = self.ev(target.value)
            if kr == "A" and self.eng.cfg.attr_on_any:
                self.add("AttributeError", target, "attribute store on untrusted-type data")
            self.property_access(target, store=True, value_kind=k)
        self.bind(target, k)

    def iterate(self, target, it, node):
        ki = self.ev(it)
        if ki == "A":
            is_items = isinstance(it, ast.Call) and isinstance(it.func, ast.Attribute) and it.func.attr in ("items",) and not it.args
            if not is_items:
                self.add("TypeError", it, "iteration over untrusted-type data")
            if isinstance(target, (ast.Tuple, ast.List)) and not is_items:
                self.add("ValueError", node.target if hasattr(node, "target") else it, "tuple-unpacking of untrusted-structure data")
                self.add("TypeError", node.target if hasattr(node, "target") else it, "tuple-unpacking of untrusted-structure data")
        self.bind(target, ki)
        # attribute / subscript loop targets are not used in the analysed code
        if not isinstance(target, (ast.Name, ast.Tuple, ast.List)):
            raise AnalysisError(f"mayraise: loop target of unmodelled shape: {norm(target)}")

    def raise_(self, s):
        eng = self.eng
        if self.eng.cfg.skip_explicit is not None and self.collecting:
            reason = self.eng.cfg.skip_explicit(self, s)
            if reason:
                eng.discharged[f"{self.mod.rel}::{self.fn._qual} `{norm(s)[:70]}`"] = reason
                return
        if s.exc is None:
            if not self.handling:
                raise AnalysisError(f"mayraise: bare raise outside a handler in {self.mod.rel}::{self.fn._qual}")
            self.cur |= self.handling[-1][1]
            return
        exc = s.exc
        if isinstance(exc, ast.Name):
            for name, caught in reversed(self.handling):
                if name == exc.id:
                    self.cur |= caught
                    return
            # a local holding an exception instance: e = TypeError(...)
            defs = [n for n in _own_nodes(self.fn) if isinstance(n, ast.Assign) and any(isinstance(t, ast.Name) and t.id == exc.id for t in n.targets)]
            if defs:
                if len(defs) != 1 or not isinstance(defs[0].value, ast.Call):
                    raise AnalysisError(f"mayraise: `raise {exc.id}` with an unmodelled definition in {self.mod.rel}::{self.fn._qual}")
                exc = defs[0].value
        if isinstance(exc, ast.Call):
            t = self.resolve_call(exc) if isinstance(exc.func, (ast.Name, ast.Attribute)) else None
            if t is not None and t[0] == "fn" and t[2].name not in ("__init__", "__post_init__", "__new__") and not _is_cm(t[2]):
                # `raise make_error(x)`: the helper runs (its own raisers count) and what it returns is raised
                self.call(exc)
                if s.cause is not None and not isinstance(s.cause, (ast.Name, ast.Constant)):
                    self.ev(s.cause)
                for name in eng.returned_exception_classes(t[1], t[2]):
                    if self.collecting:
                        eng.sites += 1
                        self.cur.add(Esc(name, self.mod.rel, self.fn._qual, norm(s)[:90], f"explicit raise of what {t[2]._qual}() returns", s.lineno))
                return
            for a in exc.args:
                self.ev(a)
            for kw in exc.keywords:
                self.ev(kw.value)
        name = eng.h.canon(self.mod, exc)
        if s.cause is not None and not isinstance(s.cause, (ast.Name, ast.Constant)):
            self.ev(s.cause)
        if self.collecting:
            self.eng.sites += 1
            self.cur.add(Esc(name, self.mod.rel, self.fn._qual, norm(s)[:90], "explicit raise", s.lineno))

    def try_(self, s):
        eng = self.eng
        body = self._sub(s.body)
        handlers = []
        for h in s.handlers:
            if h.type is None:
                names = ["BaseException"]
            else:
                names = eng.handler_names(self.mod, h.type)  # classes, tuples, and module-level constants holding them
            handlers.append((h, names, set()))
        for e in body:
            for h, names, caught in handlers:
                if any(eng.h.isa(e.exc, n) for n in names):
                    caught.add(e)
                    break
            else:
                self.cur.add(e)
        for h, names, caught in handlers:
            if h.name:
                self.bind(ast.Name(id=h.name, ctx=ast.Store()), None)
            self.handling.append((h.name, frozenset(caught)))
            try:
                self.block(h.body)
            finally:
                self.handling.pop()
        self.block(s.orelse)
        self.block(s.finalbody)

    def with_(self, s, i):
        if i == len(s.items):
            self.block(s.body)
            return
        item = s.items[i]
        ce = item.context_expr
        body_thunk = lambda: self._sub_with(s, i + 1)  # noqa: E731
        if isinstance(ce, ast.Call):
            target = self.resolve_call(ce)
            if target and target[0] == "fn" and _is_cm(target[2]):
                _, m2, f2, env2 = target
                for a in ce.args:
                    self.ev(a)
                for kw in ce.keywords:
                    self.ev(kw.value)
                fr = _Frame(self.eng, m2, f2, env2, (m2.rel, f2._qual, _envkey(env2)), yield_body=body_thunk)
                fr.collecting = False
                # kinds inside the context manager: one settle pass with the body contributing nothing
                saved_collect = self.collecting
                self.collecting = False
                fr.settle(stmts_of(f2))
                self.collecting = saved_collect
                if self.collecting:
                    got = fr.collect(stmts_of(f2))
                    for e in got:
                        self.eng.edges.setdefault((self.key, e), (f"with {norm(ce)[:60]}", fr.key))
                    self.cur |= got
                else:
                    self.cur |= body_thunk()
                if item.optional_vars is not None:
                    self.bind(item.optional_vars, None)
                return
            if norm(ce.func) in ("contextlib.suppress", "suppress"):
                names = [n for a in ce.args for n in self.eng.handler_names(self.mod, a.value if isinstance(a, ast.Starred) else a)]
                got = body_thunk()
                self.cur |= {e for e in got if not any(self.eng.h.isa(e.exc, n) for n in names)}
                return
        k = self.ev(ce)
        if item.optional_vars is not None:
            self.bind(item.optional_vars, k)
        self.cur |= body_thunk()

    def _sub_with(self, s, i) -> set:
        saved = self.cur
        self.cur = set()
        self.with_(s, i)
        out, self.cur = self.cur, saved
        return out

    # ---- expressions ------------------------------------------------------------------------------
    def ev_children(self, e):
        k = None
        for c in ast.iter_child_nodes(e):
            if isinstance(c, ast.expr):
                k = join(k, self.ev(c))
        return k

    def ev_load_of(self, target):
        if isinstance(target, ast.Name):
            return self.env.get(target.id)
        if isinstance(target, ast.Attribute):
            ch = attr_chain(target)
            return self.env.get(ch) if ch else self.ev(target.value)
        if isinstance(target, ast.Subscript):
            return self.subscript(target, store=False)
        return None

    def ev(self, e):
        """Kind of the value of ``e``; modelled raisers are recorded on the way."""
        if e is None or isinstance(e, ast.Constant):
            return None
        if isinstance(e, ast.Name):
            return self.env.get(e.id)
        if isinstance(e, ast.Attribute):
            ch = attr_chain(e)
            if ch and ch in self.env:
                return join(self.env[ch], self.property_access(e, store=False, value_kind=None))
            k = self.ev(e.value)
            if k == "A" and self.eng.cfg.attr_on_any:
                self.add("AttributeError", e, "attribute of untrusted-type data")
            kp = self.property_access(e, store=False, value_kind=None)
            return join(k, kp)
        if isinstance(e, ast.Subscript):
            return self.subscript(e, store=False)
        if isinstance(e, ast.Call):
            return self.call(e)
        if isinstance(e, ast.BinOp):
            a, b = self.ev(e.left), self.ev(e.right)
            if "A" in (a, b) and not (isinstance(e.op, ast.Mod) and isinstance(e.left, ast.Constant)):
                self.add("TypeError", e, "operator on untrusted-type data")
            return join(a, b)
        if isinstance(e, ast.UnaryOp):
            k = self.ev(e.operand)
            if isinstance(e.op, ast.Not):
                return None
            if k == "A":
                self.add("TypeError", e, "operator on untrusted-type data")
            return k
        if isinstance(e, ast.BoolOp):
            return join(*[self.ev(v) for v in e.values])
        if isinstance(e, ast.Compare):
            ks = [self.ev(e.left)] + [self.ev(c) for c in e.comparators]
            for i, op in enumerate(e.ops):
                if isinstance(op, (ast.Lt, ast.LtE, ast.Gt, ast.GtE)) and "A" in (ks[i], ks[i + 1]):
                    self.add("TypeError", e, "ordering comparison on untrusted-type data")
                if isinstance(op, (ast.In, ast.NotIn)) and ks[i + 1] == "A":
                    self.add("TypeError", e, "membership test on untrusted-type data")
            return None
        if isinstance(e, ast.IfExp):
            self.ev(e.test)
            return join(self.ev(e.body), self.ev(e.orelse))
        if isinstance(e, (ast.Tuple, ast.List, ast.Set)):
            k = None
            for x in e.elts:
                if isinstance(x, ast.Starred):
                    kx = self.ev(x.value)
                    if kx == "A":
                        self.add("TypeError", x, "unpacking of untrusted-type data")
                else:
                    kx = self.ev(x)
                k = join(k, kx)
            return "V" if k else None  # a display has a trusted structure
        if isinstance(e, ast.Dict):
            k = None
            for kk, vv in zip(e.keys, e.values):
                if kk is None:
                    kx = self.ev(vv)
                    if kx == "A":
                        self.add("TypeError", vv, "unpacking of untrusted-type data")
                    k = join(k, kx)
                else:
                    k = join(k, self.ev(kk), self.ev(vv))
            return "V" if k else None
        if isinstance(e, ast.JoinedStr):
            k = None
            for v in e.values:
                if isinstance(v, ast.FormattedValue):
                    k = join(k, self.ev(v.value))
            return "V" if k else None
        if isinstance(e, ast.FormattedValue):
            return self.ev(e.value)
        if isinstance(e, ast.NamedExpr):
            k = self.ev(e.value)
            self.bind(e.target, k)
            return k
        if isinstance(e, (ast.ListComp, ast.SetComp, ast.GeneratorExp, ast.DictComp)):
            for g in e.generators:
                self.iterate(g.target, g.iter, g)
                for c in g.ifs:
                    self.ev(c)
            if isinstance(e, ast.DictComp):
                k = join(self.ev(e.key), self.ev(e.value))
            else:
                k = self.ev(e.elt)
            return "V" if k else None
        if isinstance(e, ast.Lambda):
            return None  # not executed here
        if isinstance(e, (ast.Await, ast.YieldFrom)):
            return self.ev(e.value)
        if isinstance(e, ast.Yield):
            k = self.ev(e.value) if e.value is not None else None
            self.ret = join(self.ret, k)
            return None
        if isinstance(e, ast.Starred):
            return self.ev(e.value)
        if isinstance(e, ast.Slice):
            return join(self.ev(e.lower), self.ev(e.upper), self.ev(e.step))
        raise AnalysisError(f"mayraise: expression of unmodelled shape in {self.mod.rel}::{self.fn._qual}: {norm(e)[:80]}")

    def subscript(self, e, store: bool):
        kb = self.ev(e.value)
        is_slice = isinstance(e.slice, ast.Slice)
        ki = self.ev(e.slice)
        if kb is None and ki is None:
            return None
        guards = None
        if kb == "A":
            if is_slice:
                self.add("TypeError", e, "slice of untrusted-type data")
            else:
                for x in ("KeyError", "IndexError", "TypeError"):
                    if x == "KeyError":
                        if guards is None:
                            guards = guards_at(e, self.fn)
                        if _membership_guarded(guards, norm(e.slice), norm(e.value)):
                            continue
                    if store and x != "TypeError":
                        continue
                    self.add(x, e, "subscript of untrusted-type data")
            return "A"
        if is_slice:
            return join(kb, ki) and "V"
        # non-slice on V content, or trusted container indexed by an untrusted key
        guards = guards_at(e, self.fn)
        if kb == "V":
            if store and ki is None and not isinstance(e.slice, ast.Constant):
                return "V"
            c = e.slice.value if isinstance(e.slice, ast.Constant) and isinstance(e.slice.value, int) else None
            if c is not None and c >= 0 and _len_lower_bound(guards, norm(e.value)) > c:
                return "V"
            if c is not None and c < 0 and _len_lower_bound(guards, norm(e.value)) >= -c:
                return "V"
            if _membership_guarded(guards, norm(e.slice), norm(e.value)):
                return "V"
            self.add("IndexError", e, "index into untrusted-length data")
            if not isinstance(e.slice, ast.Constant) or not isinstance(e.slice.value, int):
                if ki is not None and not store:
                    pass
            return "V"
        # trusted container, untrusted key
        if store:
            return None
        if _membership_guarded(guards, norm(e.slice), norm(e.value)):
            return "V"
        self.add("KeyError", e, "trusted container indexed by an untrusted key")
        self.add("IndexError", e, "trusted container indexed by an untrusted key")
        return "V"

    def property_access(self, e: ast.Attribute, store: bool, value_kind):
        """`self.attr` / `<annotated local>.attr` that is a property of a repository class: analyse it."""
        cls = None
        recv_kind = None
        if isinstance(e.value, ast.Name):
            if e.value.id == "self" and self.cls is not None:
                cls = (self.mod, self.cls)
            elif e.value.id in self.types:
                cls = self.types[e.value.id]
            recv_kind = self.env.get(e.value.id)
        elif isinstance(e.value, ast.Attribute) and attr_chain(e.value) in self.types:  # receiver chain typed by the rule (Config.local_types)
            cls = self.types[attr_chain(e.value)]
            recv_kind = self.env.get(attr_chain(e.value))
        if cls is None:
            return None
        pk = (cls[0].rel, cls[1]._qual, e.attr, store)
        pc = self.eng.__dict__.setdefault("_prop_cache", {})
        if pk not in pc:
            found = None
            for m, c in self.eng.model.mro(cls[0].rel, cls[1]._qual):
                for st in c.body:
                    if isinstance(st, (ast.FunctionDef, ast.AsyncFunctionDef)) and st.name == e.attr:
                        decs = decorators(st)
                        if not store and any(d in ("property", "functools.cached_property", "cached_property") for d in decs):
                            found = (m, st)
                        elif store and f"{e.attr}.setter" in decs:
                            found = (m, st)
                if found or any(isinstance(st, (ast.FunctionDef, ast.AsyncFunctionDef)) and st.name == e.attr for st in c.body):
                    break
            pc[pk] = found
        found = pc[pk]
        if not found:
            return None
        m, f = found
        env2 = {}
        if recv_kind:
            env2["self"] = recv_kind
        if isinstance(e.value, ast.Name) and e.value.id == "self":
            env2.update({k: v for k, v in self.env.items() if k == "self" or k.startswith("self.")})
        if store:
            params = [a.arg for a in f.args.args]
            if len(params) >= 2 and value_kind:
                env2[params[1]] = value_kind
        if not env2:
            # no untrusted data flows in: only explicit raises matter
            pass
        return self.into(m, f, env2, e)

    def _depth_bounded(self, call, f, env2):
        """Accepted idiom for bounded direct recursion: the recursive call passes ``p + c`` (c > 0) for a parameter p that
        never carries untrusted data, under a guard that bounds p by a constant (``if p >= LIMIT: raise`` before the call)."""
        if f is not self.fn or not isinstance(call, ast.Call):
            return None
        params = [a.arg for a in f.args.posonlyargs + f.args.args]
        bound = {}
        for i, a in enumerate(call.args):
            if i < len(params) and not isinstance(a, ast.Starred):
                bound[params[i]] = a
        for kw in call.keywords:
            if kw.arg:
                bound[kw.arg] = kw.value
        for p, a in bound.items():
            if env2.get(p) is not None or self.env.get(p) is not None:
                continue
            if not (isinstance(a, ast.BinOp) and isinstance(a.op, ast.Add) and isinstance(a.left, ast.Name) and a.left.id == p
                    and isinstance(a.right, ast.Constant) and isinstance(a.right.value, int) and a.right.value > 0):
                continue
            for e, v in guards_at(call, self.fn):
                if not (isinstance(e, ast.Compare) and len(e.ops) == 1 and isinstance(e.left, ast.Name) and e.left.id == p):
                    continue
                lim = e.comparators[0]
                is_const = isinstance(lim, ast.Constant) or (isinstance(lim, ast.Name) and not self._is_local(lim.id) and self.mod.assigns(lim.id))
                if not is_const:
                    continue
                op = e.ops[0]
                if (isinstance(op, (ast.GtE, ast.Gt)) and not v) or (isinstance(op, (ast.Lt, ast.LtE)) and v):
                    return f"recursion depth counted in parameter `{p}` and bounded by `{norm(e)}`"
        return None

    def into(self, m, f, env2, node, dispatched=False):
        """Analyse callee ``f`` and import its escapes; returns its return kind.  ``dispatched``: the edge is an
        over-approximation (class-hierarchy / rule-declared dispatch), so a cycle through it is no evidence of recursion."""
        key = (m.rel, f._qual, _envkey(env2))
        eng = self.eng
        if key in eng.stack and any(v for v in env2.values()):
            i = eng.stack.index(key)
            approx = dispatched or any(eng.entry_flag.get(k) for k in eng.stack[i + 1:])
            reason = (eng.cfg.bounded_recursion or {}).get(f"{m.rel}::{f._qual}")
            if not approx and not reason:
                reason = self._depth_bounded(node, f, env2)
            if approx:
                pass
            elif reason:
                eng.discharged[f"{m.rel}::{f._qual} recursion"] = reason
            else:
                self.add("RecursionError", node, f"recursion through {f._qual} whose depth is driven by untrusted data")
        elif key not in eng.stack:
            eng.entry_flag[key] = dispatched
        s = eng.summ(m, f, env2)
        if self.collecting:
            mark = (self.key, key, len(s.escapes))
            if mark not in eng._edge_done:
                eng._edge_done.add(mark)
                text = norm(node)[:70]
                for x in s.escapes:
                    eng.edges.setdefault((self.key, x), (text, key))
            self.cur |= s.escapes
        return s.ret

    # ---- calls ------------------------------------------------------------------------------------
    def arg_kinds(self, call):
        pos, kw, star, dstar = [], {}, None, None
        for a in call.args:
            if isinstance(a, ast.Starred):
                k = self.ev(a.value)
                if k == "A":
                    self.add("TypeError", call, "f(*x) with untrusted-structure x")
                star = join(star, k)
            else:
                pos.append(self.ev(a))
        for k_ in call.keywords:
            k = self.ev(k_.value)
            if k_.arg is None:
                if k == "A":
                    self.add("TypeError", call, "f(**x) with untrusted-structure x")
                dstar = join(dstar, k)
            else:
                kw[k_.arg] = k
        return pos, kw, star, dstar

    def bind_params(self, f, pos, kw, star, dstar, skip_first: bool, recv_kind=None, carry_self=False):
        env2 = {}
        a = f.args
        params = [x.arg for x in a.posonlyargs + a.args]
        if skip_first and params:
            first = params[0]
            params = params[1:]
            if recv_kind:
                env2[first] = recv_kind
            if carry_self and first == "self":
                env2.update({k: v for k, v in self.env.items() if k.startswith("self.") and v})
        for i, p in enumerate(params):
            k = None
            if i < len(pos):
                k = pos[i]
            elif p in kw:
                k = kw[p]
            else:
                k = join(star, dstar)
            if k:
                env2[p] = k
        if a.vararg is not None:
            k = join(star, *pos[len(params):]) if len(pos) > len(params) or star else None
            if k:
                env2[a.vararg.arg] = k
        for x in a.kwonlyargs:
            k = kw.get(x.arg, dstar)
            if k:
                env2[x.arg] = k
        if a.kwarg is not None:
            extra = [v for n, v in kw.items() if n not in params and n not in [x.arg for x in a.kwonlyargs]]
            k = join(dstar, *extra)
            if k:
                env2[a.kwarg.arg] = k
        return env2

    def _nested_def(self, name):
        cache = self.fn.__dict__.setdefault("_nested_cache", {})
        if name in cache:
            return cache[name]
        found = None
        f = self.fn
        while f is not None and found is None:
            todo = list(ast.iter_child_nodes(f))
            while todo:
                n = todo.pop()
                if isinstance(n, (ast.FunctionDef, ast.AsyncFunctionDef)):
                    if n.name == name and n is not f:
                        found = n
                        break
                    continue
                if isinstance(n, (ast.ClassDef, ast.Lambda)):
                    continue
                todo.extend(ast.iter_child_nodes(n))
            f = enclosing_func(f)
        cache[name] = found
        return found

    def _is_local(self, name) -> bool:
        loc = getattr(self.fn, "_locals_cache", None)
        if loc is None:
            a = self.fn.args
            loc = {x.arg for x in a.posonlyargs + a.args + a.kwonlyargs}
            if a.vararg:
                loc.add(a.vararg.arg)
            if a.kwarg:
                loc.add(a.kwarg.arg)
            for n in _own_nodes(self.fn):
                if isinstance(n, ast.Name) and isinstance(n.ctx, ast.Store):
                    loc.add(n.id)
            self.fn._locals_cache = loc
        return name in loc

    def is_logger(self, e, _depth=0) -> bool:
        """``e`` denotes the stdlib ``logging`` module or a ``logging.Logger``: the imported module itself, ``logging.getLogger(..)``,
        ``<logger>.getChild(..)``, or a module-level name (of this module, or imported from a repository module) whose every binding in
        its module is such an expression.  Locals, attributes of objects and anything rebound elsewhere are not loggers."""
        if _depth > 4:
            return False
        mod = self.mod
        if isinstance(e, ast.Call) and isinstance(e.func, ast.Attribute):
            if e.func.attr == "getLogger":
                return self.eng.resolved_dotted(mod, e.func) == "logging.getLogger" and not self._is_local(attr_chain(e.func).split(".")[0])
            if e.func.attr == "getChild":
                return self.is_logger(e.func.value, _depth + 1)
            return False
        if isinstance(e, ast.Call) and isinstance(e.func, ast.Name):
            return mod.imports.get(e.func.id) == "logging.getLogger" and not self._is_local(e.func.id)
        if not isinstance(e, ast.Name) or self._is_local(e.id):
            return False
        if mod.imports.get(e.id) == "logging":
            return True
        return _module_logger(self.eng, mod, e.id, _depth)

    def _method_kind(self, f):
        decs = decorators(f)
        if "staticmethod" in decs:
            return "static"
        if "classmethod" in decs:
            return "class"
        return "inst"

    def constructor(self, m, c):
        """-> list of ('fn', Module, FunctionDef) to analyse when class ``c`` is instantiated (may be empty)."""
        model = self.eng.model
        out = []
        r = model.method(m.rel, c._qual, "__init__")
        if r is not None:
            out.append(r)
        else:
            r = model.method(m.rel, c._qual, "__post_init__")
            if r is not None:
                out.append(r)
        return out

    def resolve_call(self, call):
        """('fn', Module, FunctionDef, env2) | ('multi', [(Module, FunctionDef, env2)...]) | ('raises', excs, kind) | None"""
        eng, model = self.eng, self.eng.model
        saved = self.collecting
        # argument kinds are computed by the caller (self.call); here only for the binding
        self.collecting = False
        try:
            pos, kw, star, dstar = self.arg_kinds(call)
        finally:
            self.collecting = saved
        f = call.func

        def mk(m, fn_, skip, recv=None, carry=False):
            return ("fn", m, fn_, self.bind_params(fn_, pos, kw, star, dstar, skip, recv, carry))

        def for_class(m, c):
            ts = self.constructor(m, c)
            if not ts:
                return ("raises", (), "V" if any([*pos, *kw.values(), star, dstar]) else None)
            m2, f2 = ts[0]
            recv = "V" if any([*pos, *kw.values(), star, dstar]) and f2.name == "__post_init__" else None
            return mk(m2, f2, True, recv)

        if isinstance(f, ast.Name):
            nd = self._nested_def(f.id)
            if nd is not None:
                env2 = dict(self.env)
                env2.update(self.bind_params(nd, pos, kw, star, dstar, False))
                return ("fn", self.mod, nd, env2)
            if f.id == "cls" and self.cls is not None and self._is_local("cls"):
                return for_class(self.mod, self.cls)
            if self._is_local(f.id):
                return None
            r = model.resolve_name(self.mod, f)
            if r is not None:
                if isinstance(r[1], ast.ClassDef):
                    return for_class(*r)
                return mk(r[0], r[1], False)
            return None
        if isinstance(f, ast.Attribute):
            v = f.value
            # super().m(...)
            if isinstance(v, ast.Call) and isinstance(v.func, ast.Name) and v.func.id == "super" and self.cls is not None:
                mro = model.mro(self.mod.rel, self.cls._qual)[1:]
                for m, c in mro:
                    for st in c.body:
                        if isinstance(st, (ast.FunctionDef, ast.AsyncFunctionDef)) and st.name == f.attr:
                            return mk(m, st, self._method_kind(st) != "static", self.env.get("self"), carry=True)
                return None
            if isinstance(v, ast.Name) and v.id in ("self", "cls") and self.cls is not None and self._is_local(v.id):
                r = model.method(self.mod.rel, self.cls._qual, f.attr)
                if r is not None:
                    return mk(r[0], r[1], self._method_kind(r[1]) != "static", self.env.get(v.id), carry=(v.id == "self"))
                return None
            if isinstance(v, ast.Name) and v.id in self.types and not self.env.get(v.id) == "A":
                tm, tc = self.types[v.id]
                r = model.method(tm.rel, tc._qual, f.attr)
                if r is not None:
                    return mk(r[0], r[1], self._method_kind(r[1]) != "static", self.env.get(v.id))
            vch = attr_chain(v) if isinstance(v, ast.Attribute) else None
            if vch and vch in self.types and not self.env.get(vch) == "A":  # receiver chain typed by the rule (Config.local_types)
                tm, tc = self.types[vch]
                r = model.method(tm.rel, tc._qual, f.attr)
                if r is not None:
                    return mk(r[0], r[1], self._method_kind(r[1]) != "static", self.env.get(vch))
            ch = attr_chain(f)
            if ch and not self._is_local(ch.split(".")[0]):
                r = model.resolve_name(self.mod, f)
                if r is not None:
                    if isinstance(r[1], ast.ClassDef):
                        return for_class(*r)
                    fn_ = r[1]
                    owner = getattr(fn_, "_parent", None)
                    if isinstance(owner, ast.ClassDef):
                        kind = self._method_kind(fn_)
                        return mk(r[0], fn_, kind == "class")
                    return mk(r[0], fn_, False)
        return None

    def _table_entries(self, name, _depth=0):
        """Value nodes (Names) of the module-level dict display bound to ``name``; ``**OTHER`` / ``A | B`` of further such tables are expanded.
        None when ``name`` is not such a table."""
        vals = self.mod.assigns(name)
        if not vals or _depth > 4:
            return None

        def of(e):
            if isinstance(e, ast.Dict) and e.values:
                out = []
                for k, v in zip(e.keys, e.values):
                    if k is None:
                        sub = self._table_entries(v.id, _depth + 1) if isinstance(v, ast.Name) and not self._is_local(v.id) else None
                        if sub is None:
                            return None
                        out.extend(sub)
                    elif isinstance(v, ast.Name):
                        out.append(v)
                    else:
                        return None
                return out
            if isinstance(e, ast.BinOp) and isinstance(e.op, ast.BitOr):
                a, b = of(e.left), of(e.right)
                return None if a is None or b is None else a + b
            if isinstance(e, ast.Name) and not self._is_local(e.id):
                return self._table_entries(e.id, _depth + 1)
            return None

        return of(vals[-1])

    def _dispatch_table(self, f):
        """Name of the module-level table when the callee expression ``f`` is ``TABLE[key]`` or a local bound exactly once (in this function)
        to ``TABLE[key]`` / ``TABLE.get(key[, default])``; None otherwise."""

        def table_of(e):
            if isinstance(e, ast.Subscript) and isinstance(e.value, ast.Name) and not self._is_local(e.value.id):
                return e.value.id
            if isinstance(e, ast.Call) and isinstance(e.func, ast.Attribute) and e.func.attr == "get" and isinstance(e.func.value, ast.Name) \
                    and not self._is_local(e.func.value.id) and 1 <= len(e.args) <= 2:
                return e.func.value.id
            return None

        if isinstance(f, ast.Subscript):
            return table_of(f)
        if isinstance(f, ast.Name) and self._is_local(f.id) and self._nested_def(f.id) is None:
            binds = [n for n in _own_nodes(self.fn) if isinstance(n, (ast.Assign, ast.AnnAssign, ast.NamedExpr)) and getattr(n, "value", None) is not None
                     and any(isinstance(t, ast.Name) and t.id == f.id for t in (n.targets if isinstance(n, ast.Assign) else [n.target]))]
            stores = [n for n in _own_nodes(self.fn) if isinstance(n, ast.Name) and n.id == f.id and isinstance(n.ctx, ast.Store)]
            params = {a.arg for a in self.fn.args.posonlyargs + self.fn.args.args + self.fn.args.kwonlyargs}
            if len(binds) == 1 and len(stores) == 1 and f.id not in params:
                return table_of(binds[0].value)
        return None

    def call(self, call):
        eng = self.eng
        f = call.func
        # the callee expression itself (receiver, subscripted tables ...)
        recv_kind = None
        if isinstance(f, ast.Attribute):
            recv_kind = self.ev(f.value)
        elif not isinstance(f, ast.Name):
            self.ev(f)
        pos, kw, star, dstar = self.arg_kinds(call)
        tainted = any([recv_kind, star, dstar, *pos, *kw.values()])
        targets = None
        approx = False
        dyn = eng.cfg.dynamic(self, call) if eng.cfg.dynamic is not None else None
        if dyn is not None:
            approx = True
            if dyn and dyn[0] == "raises":
                for x in dyn[1]:
                    self.add(x, call, "declared by the rule for this dynamic call")
                return join(recv_kind, star, dstar, *pos, *kw.values()) if dyn[2] == "join" else dyn[2]
            targets = []
            for rel, qual in dyn:
                m = eng.model.module(rel)
                d = m.get(qual)
                if isinstance(d, ast.ClassDef):
                    for m2, f2 in self.constructor(m, d):
                        targets.append((m2, f2, self.bind_params(f2, pos, kw, star, dstar, True, "V" if tainted and f2.name == "__post_init__" else None)))
                else:
                    f2 = eng.model.func(rel, qual)
                    skip = isinstance(getattr(f2, "_parent", None), ast.ClassDef) and self._method_kind(f2) != "static" and isinstance(f, ast.Attribute)
                    targets.append((m, f2, self.bind_params(f2, pos, kw, star, dstar, skip, recv_kind)))
        tbl = self._dispatch_table(f) if targets is None else None
        if tbl is not None:
            # dispatch through a module-level literal table of functions: TABLE[key](...), or a local bound once to TABLE[key] / TABLE.get(key)
            entries = self._table_entries(tbl)
            if entries:
                targets = []
                for v in entries:
                    r = eng.model.resolve_name(self.mod, v)
                    if r is None or not isinstance(r[1], (ast.FunctionDef, ast.AsyncFunctionDef)):
                        raise AnalysisError(f"mayraise: table {tbl} holds a non-function {v.id}")
                    targets.append((r[0], r[1], self.bind_params(r[1], pos, kw, star, dstar, False)))
        if targets is None:
            # struct
            sk = self.struct_call(call, recv_kind, tainted)
            if sk is not NotImplemented:
                return sk
            t = self.resolve_call(call)
            if t is not None:
                if t[0] == "raises":
                    return t[2]
                targets = [(t[1], t[2], t[3])]
        if targets is None and isinstance(f, ast.Attribute) and f.attr in (eng.cfg.dispatch or {}):
            targets = []
            approx = True
            for rel, qual in eng.cfg.dispatch[f.attr]:
                m = eng.model.module(rel)
                f2 = eng.model.func(rel, qual)
                targets.append((m, f2, self.bind_params(f2, pos, kw, star, dstar, self._method_kind(f2) != "static", recv_kind)))
        if targets is not None:
            k = None
            for m, f2, env2 in targets:
                if _is_cm(f2):
                    continue
                k = join(k, self.into(m, f2, env2, call, dispatched=approx))
            # constructing an object: the result is an object of a trusted type
            if targets and targets[0][1].name in ("__init__", "__post_init__"):
                return "V" if tainted else None
            return k
        # builtin functions / methods of builtin types / externals
        if isinstance(f, ast.Name) and not self._is_local(f.id) and f.id not in self.mod.imports:
            obj = getattr(builtins, f.id, None)
            if isinstance(obj, type) and issubclass(obj, BaseException):
                return None  # constructing an exception object raises nothing
        if isinstance(f, ast.Name) and not self._is_local(f.id) and f.id in BUILTIN_CALLS and f.id not in self.mod.imports:
            return self.builtin_call(call, pos, kw, star, dstar)
        if isinstance(f, ast.Name) and f.id in ("getattr", "setattr") and not self._is_local(f.id):
            return self.getsetattr(call, pos)
        dotted = eng.resolved_dotted(self.mod, f)
        for name in (dotted, attr_chain(f) or ""):
            if name and name in eng.ext:
                excs, kind = eng.ext[name]
                if tainted:
                    for x in excs:
                        self.add(x, call, f"{name} on untrusted data")
                allk = join(recv_kind, star, dstar, *pos, *kw.values())
                return allk if kind == "join" else (kind if tainted else None)
        if isinstance(f, ast.Attribute):
            km = self.method_call(call, recv_kind, pos, kw)
            if km is not NotImplemented:
                return km
            if ("." + f.attr) in eng.ext:
                excs, kind = eng.ext["." + f.attr]
                if tainted:
                    for x in excs:
                        self.add(x, call, f".{f.attr} on untrusted data")
                allk = join(recv_kind, star, dstar, *pos, *kw.values())
                return allk if kind == "join" else (kind if tainted else None)
        if not tainted:
            return None
        if isinstance(f, ast.Attribute) and f.attr in LOGGING_METHODS and self.is_logger(f.value):
            # logging.debug(...) / <module logger>.debug("...%r", untrusted): the arguments were evaluated above; the logging package
            # formats lazily and swallows formatting errors (Handler.handleError only prints), the call returns None
            return None
        if eng.cfg.strict:
            raise AnalysisError(
                f"mayraise: call on untrusted data that is neither resolved nor in the tables: {self.mod.rel}::{self.fn._qual} `{norm(call)[:90]}`"
            )
        eng.unmodelled.add(f"{self.mod.rel}::{self.fn._qual} `{norm(call)[:90]}`")
        return join(recv_kind, star, dstar, *pos, *kw.values())

    def struct_call(self, call, recv_kind, tainted):
        f = call.func
        if not isinstance(f, ast.Attribute):
            return NotImplemented
        meth = f.attr
        is_mod = isinstance(f.value, ast.Name) and self.mod.imports.get(f.value.id) == "struct" and not self._is_local(f.value.id)
        fmt = None if is_mod else self.eng.struct_format(self.mod, f.value)
        if not is_mod and fmt is None:
            return NotImplemented
        if meth in ("unpack", "unpack_from", "iter_unpack", "pack", "pack_into"):
            if tainted:
                d = self.eng.cfg.discharge
                self.add("struct.error", call, f"struct {meth} on untrusted data")
            return "V" if tainted else None
        if meth in ("calcsize", "Struct"):
            return None
        return NotImplemented

    def builtin_call(self, call, pos, kw, star, dstar):
        name = call.func.id
        on_v, on_a, res = BUILTIN_CALLS[name]
        allk = join(star, dstar, *pos, *kw.values())
        if name == "str" and len(call.args) >= 2 and allk:
            self._decode_like(call, call.args[1], None, "decode")
            return "V"
        if name == "int" and len(call.args) >= 1 and pos and pos[0] is None:
            allk = None  # int(<trusted>, base)
        if allk == "A":
            for x in on_a:
                self.add(x, call, f"{name}() on untrusted-type data")
        elif allk == "V":
            for x in on_v:
                self.add(x, call, f"{name}() on untrusted content")
        if res == "join":
            return allk
        return res if allk else None

    def _decode_like(self, call, enc_node, errors_node, meth):
        enc = enc_node.value if isinstance(enc_node, ast.Constant) else ("utf-8" if enc_node is None else None)
        errors = errors_node.value if isinstance(errors_node, ast.Constant) else ("strict" if errors_node is None else None)
        if errors in LENIENT_DECODE:
            return
        if enc is not None and isinstance(enc, str) and enc.lower() == "idna":
            self.add("UnicodeError", call, f".{meth}('idna') on untrusted content (raises plain UnicodeError)")
        elif meth == "decode":
            self.add("UnicodeDecodeError", call, ".decode() on untrusted content")
        else:
            self.add("UnicodeEncodeError", call, ".encode() on untrusted content")

    def method_call(self, call, recv_kind, pos, kw):
        f = call.func
        meth = f.attr
        argk = join(*pos, *kw.values())
        if recv_kind is None and argk is None:
            return None
        if recv_kind == "A" and self.eng.cfg.attr_on_any:
            self.add("AttributeError", call, f".{meth}() on untrusted-type data")
        if meth in ("decode", "encode") and recv_kind:
            enc = call.args[0] if call.args else next((k.value for k in call.keywords if k.arg == "encoding"), None)
            err = call.args[1] if len(call.args) > 1 else next((k.value for k in call.keywords if k.arg == "errors"), None)
            self._decode_like(call, enc, err, meth)
            return "V"
        if meth == "pop":
            has_default = len(call.args) >= 2 or any(k.arg == "default" for k in call.keywords)
            guards = guards_at(call, self.fn)
            guarded = bool(call.args) and _membership_guarded(guards, norm(call.args[0]), norm(f.value))
            if recv_kind == "A":
                if not has_default and not guarded:
                    self.add("KeyError", call, ".pop(k) without default on untrusted data")
                    self.add("IndexError", call, ".pop(i) on untrusted data")
                return "A"
            if not has_default and not guarded and (argk or recv_kind):
                if call.args:
                    self.add("KeyError", call, ".pop(k) without default, untrusted key")
                self.add("IndexError", call, ".pop() on untrusted-length data")
            return join(recv_kind, argk) and "V"
        if meth in ("index", "remove") and (recv_kind or argk):
            self.add("ValueError", call, f".{meth}() on untrusted content")
            return "V"
        if self.eng.cfg.taint_through_mutation and argk and meth in ("extend", "append", "appendleft", "add", "update", "insert", "write") \
                and isinstance(f.value, (ast.Name, ast.Attribute)) and attr_chain(f.value):
            self.bind(f.value, join(recv_kind, "V"))  # the container now holds untrusted content (flow-insensitive, settles over the passes)
        if meth in SAFE_METHODS or meth in self.eng.cfg.safe_methods:
            if recv_kind == "A" and meth in ("get", "items", "keys", "values", "copy", "setdefault"):
                return "A"
            return "A" if recv_kind == "A" else "V"
        if recv_kind == "A":
            return "A"  # AttributeError recorded above; whatever the method does is the object's business
        return NotImplemented

    def getsetattr(self, call, pos):
        name = call.func.id
        if name == "getattr":
            if len(call.args) == 2 and any(pos):
                self.add("AttributeError", call, "getattr without default on untrusted data")
            return join(*pos)
        # setattr(obj, k, v): property setters of an annotated local, k ranging over a guarding literal list
        obj, k, v = call.args
        if ((isinstance(obj, ast.Name) and obj.id in self.types) or (isinstance(obj, ast.Attribute) and attr_chain(obj) in self.types)) and isinstance(k, ast.Name):
            names = None
            for e, val in guards_at(call, self.fn):
                if val and isinstance(e, ast.Compare) and len(e.ops) == 1 and isinstance(e.ops[0], ast.In) and norm(e.left) == k.id \
                        and isinstance(e.comparators[0], (ast.List, ast.Tuple, ast.Set)):
                    names = [x.value for x in e.comparators[0].elts if isinstance(x, ast.Constant)]
            if names is None:
                names = bounded_strings(call, self.fn, k.id, self.mod)  # `k == "a" or k == "b"`, `match k: case "a" | "b"`, `k in TABLE`
            if names is None:
                raise AnalysisError(f"mayraise: setattr with an unbounded attribute name: {norm(call)}")
            for n in names:
                fake = ast.Attribute(value=obj, attr=n, ctx=ast.Store())
                self.property_access(fake, store=True, value_kind=pos[2])
            return None
        if any(pos[1:]) and self.eng.cfg.strict and not (isinstance(obj, ast.Name) and obj.id == "self"):
            raise AnalysisError(f"mayraise: setattr of untrusted data on an untyped object: {self.mod.rel}::{self.fn._qual} `{norm(call)}`")
        return None


# ---------------------------------------------------------------------------------------------------
# class-hierarchy helpers for the rules (cheap: only modules whose text mentions the needle are parsed)


def modules_mentioning(model, needle, sub: str = "mitmproxy", exclude=("mitmproxy/contrib/",)):
    out = []
    for p in sorted((model.repo / sub).rglob("*.py")):
        rel = p.relative_to(model.repo).as_posix()
        if any(rel.startswith(x) for x in exclude):
            continue
        try:
            text = model.source(rel)
        except AnalysisError:
            continue
        if hasattr(needle, "search"):
            hit = needle.search(text) is not None
        else:
            hit = any(n in text for n in ((needle,) if isinstance(needle, str) else needle))
        if hit:
            out.append(model.module(rel))
    return out


def subclasses_of(model, base: str, needle: str | None = None):
    """[(Module, ClassDef)] of classes having a class named ``base`` among their proper ancestors; only modules whose
    source mentions ``needle`` (default: the base name) are considered."""
    out = []
    import re

    for m in modules_mentioning(model, needle or re.compile(r"^\s*class\s+\w+\s*\([^)]*\b" + re.escape(base) + r"\b", re.M)):
        for q, d in m.defs().items():
            if isinstance(d, ast.ClassDef):
                anc = [c.name for _, c in model.mro(m.rel, q)[1:]]
                if base in anc:
                    out.append((m, d))
    return out


def implementors(model, base: str, method: str):
    """[(rel, 'Class.method')] for every subclass of ``base`` that defines ``method`` itself."""
    out = []
    for m in modules_mentioning(model, f"def {method}"):
        for q, d in m.defs().items():
            if isinstance(d, ast.ClassDef) and any(isinstance(st, (ast.FunctionDef, ast.AsyncFunctionDef)) and st.name == method for st in d.body):
                anc = [c.name for _, c in model.mro(m.rel, q)[1:]]
                if base in anc:
                    out.append((m.rel, f"{q}.{method}"))
    return sorted(set(out))
