"""E5 `mayraise` - exception-escape sets vs. handler coverage (shared by C36, C25, C47, C44, C13).

What is computed
    For a region (a function, or a list of statements inside a function) the set of *escapes*
    (exception type, raiser site) that can leave the region:
      * every explicit ``raise X`` reachable over the resolved call graph, and
      * the MODELLED implicit raisers below, applied only to data the rule declares untrusted,
    filtered by the enclosing ``try/except`` (exception class hierarchy: Python builtins + stdlib by
    introspection of the *analyser's* interpreter, repository classes via the model's MRO) and propagated
    over calls resolved with ``ctx.model`` (module functions, imported names, ``self.``/``cls.``/``super()``
    methods via the MRO, nested closures, constructors, ``@contextmanager`` bodies around ``with``
    blocks, property setters of annotated locals, rule-declared class-hierarchy dispatch).

Kinds of untrusted data (declared by the rule for the entry names, propagated flow-insensitively)
    "V"  the *type/structure* is trusted, the *content* is not (bytes from the wire, ints unpacked from them)
    "A"  nothing is trusted (a value decoded from tnetstring / JSON: any of None/bool/int/float/str/bytes/list/dict)

Modelled implicit raisers (DESIGN E5 + OverflowError/RecursionError where magnitude/depth is data driven)
    d[k] / d.pop(k) without default      KeyError  (A: also IndexError/TypeError; trusted container + untrusted key: KeyError for a mapping,
                                         IndexError for a sequence, both when the kind of the container is not evident - _Frame.container_kind:
                                         annotation incl. type aliases, construction, class-level / self.x bindings, mapping-only / sequence-only
                                         methods called on it, and last an enclosing `except KeyError`)
    seq[i] (non-slice) on V              IndexError (KeyError when the container is evidently a mapping)
    assert <mentions untrusted>          AssertionError
    int(x) / float(x)                    ValueError (A: + TypeError, int(A) + OverflowError)
    a, b = x  (x of kind A)              ValueError, TypeError
    x.decode(..) / str(x, enc)           UnicodeDecodeError ("idna": UnicodeError); errors=replace/ignore/... -> none
    x.encode(..)                         UnicodeEncodeError ("idna": UnicodeError)
    struct unpack*/pack on untrusted     struct.error
    f(*x) / f(**x) with x of kind A      TypeError
    attribute / method on kind A         AttributeError ; operators / iteration / len() on kind A -> TypeError
    recursion carrying untrusted data    RecursionError (unless the rule names the bound)
  Everything else raises nothing *in the model*.  A call that receives untrusted data and can neither be
  resolved nor found in the tables is an AnalysisError (strict), never a silent pass.

Callable values (MayRaise.callable_values / value_nodes): a call through a local, a parameter, ``TABLE[k]`` / ``TABLE.get(k)`` or ``X[i]``
    is the union of what the callee expression can denote - builtins of the table, repository functions / classes, externals; a parameter
    is resolved over every call site of its function (the function must only ever be called); tables are module-level dict displays,
    ``dict(..)``, comprehensions over other tables, and registries filled by ``TABLE[k] = f`` / registration decorators (table_items).

Nothing here imports or executes repository code.
"""

from __future__ import annotations

import ast
import builtins
import importlib
import sys
from dataclasses import dataclass

from ..core import AnalysisError
from ..core import norm as _norm_uncached
from ..model import attr_chain
from ..model import decorators
from ..model import enclosing_func
from ..model import qual_of
from ..model import stmts_of
from ..paths import BUILTIN_EXC_PARENTS



def norm(node_or_text) -> str:
    """core.norm with a per-node cache (the engine asks for the same texts many times)."""
    if isinstance(node_or_text, ast.AST):
        t = getattr(node_or_text, "_ntext", None)
        if t is None:
            t = _norm_uncached(node_or_text)
            try:
                node_or_text._ntext = t
            except AttributeError:
                pass
        return t
    return _norm_uncached(node_or_text)


# ---------------------------------------------------------------------------------------------------
# exception class hierarchy


class ExcHierarchy:
    """Canonical names: builtin -> 'KeyError'; stdlib -> 'struct.error'; repository class -> its short name."""

    THIRD_PARTY_PARENT = "Exception"

    def __init__(self, model):
        self.model = model
        self.parents: dict[str, list[str]] = {}
        for k, v in BUILTIN_EXC_PARENTS.items():
            self.parents[k] = [v]
        for name in dir(builtins):
            obj = getattr(builtins, name)
            if isinstance(obj, type) and issubclass(obj, BaseException):
                self._add_py(obj)
        self.parents["struct.error"] = ["Exception"]
        self.parents["CancelledError"] = ["BaseException"]
        self.third_party: set[str] = set()

    def _pyname(self, cls) -> str:
        if cls.__module__ == "builtins":
            return cls.__name__
        return f"{cls.__module__}.{cls.__qualname__}"

    def _add_py(self, cls) -> str:
        n = self._pyname(cls)
        if cls is BaseException:
            self.parents.setdefault(n, [])
            return n
        if n not in self.parents or n in BUILTIN_EXC_PARENTS:
            self.parents[n] = [self._pyname(b) for b in cls.__bases__ if issubclass(b, BaseException)]
            for b in cls.__bases__:
                if issubclass(b, BaseException):
                    self._add_py(b)
        return n

    def canon(self, mod, expr) -> str:
        """Canonical exception class name of an expression naming a class (or a call of it)."""
        if isinstance(expr, ast.Call):
            expr = expr.func
        k = (mod.rel, norm(expr))
        c = self.__dict__.setdefault("_canon_cache", {})
        if k not in c:
            c[k] = self._canon(mod, expr)
        return c[k]

    def _canon(self, mod, expr) -> str:
        text = attr_chain(expr)
        if not text:
            raise AnalysisError(f"{mod.rel}: exception expression of unmodelled shape: {norm(expr)}")
        r = self.model.resolve_name(mod, expr)
        if r is not None and isinstance(r[1], ast.ClassDef):
            return self._add_repo(r[0], r[1])
        head = text.split(".")[0]
        if "." not in text and head not in mod.imports:
            if text in self.parents:
                return text
            obj = getattr(builtins, text, None)
            if isinstance(obj, type) and issubclass(obj, BaseException):
                return self._add_py(obj)
            raise AnalysisError(f"{mod.rel}: cannot resolve exception class {text!r}")
        # imported: stdlib by introspection, third party as a leaf below Exception
        target = mod.imports.get(head, head).split(".") + text.split(".")[1:]
        top = target[0]
        if top in sys.stdlib_module_names:
            for i in range(len(target) - 1, 0, -1):
                try:
                    m = importlib.import_module(".".join(target[:i]))
                except Exception:
                    continue
                obj = m
                try:
                    for a in target[i:]:
                        obj = getattr(obj, a)
                except AttributeError:
                    break
                if isinstance(obj, type) and issubclass(obj, BaseException):
                    n = self._add_py(obj)
                    if n == "struct.error":
                        self.parents[n] = ["Exception"]
                    return n
                break
            raise AnalysisError(f"{mod.rel}: {text!r} is not an exception class of the standard library")
        if top == "mitmproxy":
            raise AnalysisError(f"{mod.rel}: cannot resolve repository exception class {text!r}")
        n = ".".join(target)
        self.parents.setdefault(n, [self.THIRD_PARTY_PARENT])
        self.third_party.add(n)
        return n

    def _add_repo(self, m, c) -> str:
        n = c.name
        if n in self.parents and getattr(self, "_repo", {}).get(n) not in (None, (m.rel, c._qual)):
            raise AnalysisError(f"two repository exception classes share the name {n}")
        self.__dict__.setdefault("_repo", {})[n] = (m.rel, c._qual)
        if n not in self.parents:
            self.parents[n] = []  # guard against cycles
            self.parents[n] = [self.canon(m, b) for b in c.bases if not isinstance(b, ast.Subscript)]
        return n

    def ancestors(self, exc: str) -> set[str]:
        out, todo = set(), [exc]
        while todo:
            e = todo.pop()
            if e in out:
                continue
            out.add(e)
            todo.extend(self.parents.get(e, []))
        return out

    def isa(self, exc: str, handler: str) -> bool:
        return handler in self.ancestors(exc)


# ---------------------------------------------------------------------------------------------------
# guard facts: conditions known to hold at a node (control dependence + short-circuit + early exits)


def _terminates(stmts) -> bool:
    return bool(stmts) and isinstance(stmts[-1], (ast.Raise, ast.Return, ast.Continue, ast.Break))


def _flatten(expr, val, out):
    if isinstance(expr, ast.UnaryOp) and isinstance(expr.op, ast.Not):
        _flatten(expr.operand, not val, out)
    elif isinstance(expr, ast.BoolOp) and isinstance(expr.op, ast.And) and val:
        for v in expr.values:
            _flatten(v, True, out)
    elif isinstance(expr, ast.BoolOp) and isinstance(expr.op, ast.Or) and not val:
        for v in expr.values:
            _flatten(v, False, out)
    else:
        out.append((expr, val))


def _pos(n):
    return (getattr(n, "lineno", 0), getattr(n, "col_offset", 0))


def _end(n):
    return (getattr(n, "end_lineno", 0), getattr(n, "end_col_offset", 0))


def names_in(expr) -> set[str]:
    out = set()
    for n in ast.walk(expr):
        if isinstance(n, ast.Name):
            out.add(n.id)
        elif isinstance(n, ast.Attribute):
            ch = attr_chain(n)
            if ch:
                out.add(ch)
    return out


def _writes(fn):
    """(position, written-name) pairs of every rebinding / destructive update in ``fn``."""
    cached = getattr(fn, "_writes_cache", None)
    if cached is not None:
        return cached
    out = []
    fn._writes_cache = out
    for n in ast.walk(fn):
        tg = []
        if isinstance(n, ast.Assign):
            tg = n.targets
        elif isinstance(n, (ast.AugAssign, ast.AnnAssign)):
            tg = [n.target]
        elif isinstance(n, (ast.For, ast.AsyncFor)):
            tg = [n.target]
        elif isinstance(n, ast.NamedExpr):
            tg = [n.target]
        elif isinstance(n, ast.Delete):
            tg = n.targets
        elif isinstance(n, ast.Call) and isinstance(n.func, ast.Attribute) and n.func.attr in (
            "pop", "clear", "remove", "popitem", "popleft", "__delitem__", "discard"):
            ch = attr_chain(n.func.value)
            if ch:
                out.append((_pos(n), ch))
        for t in tg:
            for e in ast.walk(t):
                if isinstance(e, (ast.Name, ast.Attribute)) and isinstance(getattr(e, "ctx", None), (ast.Store, ast.Del)):
                    ch = attr_chain(e)
                    if ch:
                        out.append((_pos(n), ch))
                if isinstance(e, ast.Subscript) and isinstance(e.ctx, ast.Del):
                    ch = attr_chain(e.value)
                    if ch:
                        out.append((_pos(n), ch))
    return out


def guards_at(node, fn) -> list[tuple[ast.AST, bool]]:
    """Conditions (expr, truth) that hold whenever ``node`` is evaluated, judged structurally.  A condition
    is dropped when one of the names it mentions may be rebound between its evaluation and ``node``."""
    cached = getattr(node, "_guards_cache", None)
    if cached is not None and cached[0] is fn:
        return cached[1]
    out = _guards_at(node, fn)
    try:
        node._guards_cache = (fn, out)
    except AttributeError:
        pass
    return out


def _guards_at(node, fn):
    raw: list[tuple[ast.AST, bool, tuple]] = []  # (expr, val, position after which it holds)
    child, p = node, getattr(node, "_parent", None)
    while p is not None and child is not fn:
        if isinstance(p, ast.If) or isinstance(p, ast.While):
            if any(child is s for s in p.body):
                raw.append((p.test, True, _end(p.test)))
            elif isinstance(p, ast.If) and any(child is s for s in p.orelse):
                raw.append((p.test, False, _end(p.test)))
        elif isinstance(p, ast.IfExp):
            if child is p.body:
                raw.append((p.test, True, _end(p.test)))
            elif child is p.orelse:
                raw.append((p.test, False, _end(p.test)))
        elif isinstance(p, ast.BoolOp):
            for v in p.values:
                if v is child:
                    break
                raw.append((v, isinstance(p.op, ast.And), _end(v)))
        # early exits / asserts among the preceding siblings of the same block
        for field in ("body", "orelse", "finalbody"):
            blk = getattr(p, field, None)
            if isinstance(blk, list) and any(child is s for s in blk):
                for s in blk:
                    if s is child:
                        break
                    if isinstance(s, ast.If) and not s.orelse and _terminates(s.body):
                        raw.append((s.test, False, _end(s)))
                    elif isinstance(s, ast.Assert):
                        raw.append((s.test, True, _end(s)))
        child, p = p, getattr(p, "_parent", None)
    flat: list[tuple[ast.AST, bool, tuple]] = []
    for e, v, at in raw:
        tmp: list = []
        _flatten(e, v, tmp)
        flat.extend((a, b, at) for a, b in tmp)
    # one level of variable resolution: `ok = a and b` ... `if ok:`
    more = []
    for e, v, at in flat:
        if isinstance(e, ast.Name) and v:
            defs = [n for n in ast.walk(fn) if isinstance(n, ast.Assign) and len(n.targets) == 1
                    and isinstance(n.targets[0], ast.Name) and n.targets[0].id == e.id]
            if len(defs) == 1 and _end(defs[0]) <= at:
                tmp = []
                _flatten(defs[0].value, True, tmp)
                more.extend((a, b, _end(defs[0])) for a, b in tmp if not isinstance(a, ast.Name))
    flat.extend(more)
    writes = _writes(fn)
    use = _pos(node)
    # loops containing the use: writes anywhere inside such a loop count when the guard is outside of it
    loops = []
    q = getattr(node, "_parent", None)
    while q is not None and q is not fn:
        if isinstance(q, (ast.While, ast.For, ast.AsyncFor)):
            loops.append(q)
        q = getattr(q, "_parent", None)
    out = []
    for e, v, at in flat:
        ns = names_in(e)
        unstable = False
        for wpos, wname in writes:
            if not any(wname == x or x.startswith(wname + ".") for x in ns):
                continue
            if at <= wpos < use:
                unstable = True
            for L in loops:
                if _pos(L) <= wpos <= _end(L) and not (_pos(L) <= at <= _end(L)):
                    unstable = True
        if not unstable:
            out.append((e, v))
    return out


def _len_lower_bound(guards, seq_text: str) -> int:
    """Largest n such that the guards prove len(seq) >= n."""
    best = 0
    for e, v in guards:
        if not (isinstance(e, ast.Compare) and len(e.ops) == 1):
            continue
        l, r, op = e.left, e.comparators[0], e.ops[0]

        def is_len(x):
            return isinstance(x, ast.Call) and isinstance(x.func, ast.Name) and x.func.id == "len" and len(x.args) == 1 and norm(x.args[0]) == seq_text

        def const(x):
            return x.value if isinstance(x, ast.Constant) and isinstance(x.value, int) and not isinstance(x.value, bool) else None

        if is_len(l) and const(r) is not None:
            c = const(r)
        elif is_len(r) and const(l) is not None:
            c = const(l)
            op = {ast.Lt: ast.Gt, ast.Gt: ast.Lt, ast.LtE: ast.GtE, ast.GtE: ast.LtE}.get(type(op), type(op))()
        else:
            continue
        lb = None
        if v:
            if isinstance(op, ast.Eq) or isinstance(op, ast.GtE):
                lb = c
            elif isinstance(op, ast.Gt):
                lb = c + 1
        else:
            if isinstance(op, ast.Lt):
                lb = c
            elif isinstance(op, ast.LtE):
                lb = c + 1
        if lb is not None:
            best = max(best, lb)
    return best


def _membership_guarded(guards, key_text: str, cont_text: str) -> bool:
    for e, v in guards:
        if isinstance(e, ast.Compare) and len(e.ops) == 1 and norm(e.left) == key_text and norm(e.comparators[0]) == cont_text:
            if (isinstance(e.ops[0], ast.In) and v) or (isinstance(e.ops[0], ast.NotIn) and not v):
                return True
    return False


def bounded_strings(node, fn, name: str, mod=None):
    """The finite set of constants the local ``name`` is known to equal whenever ``node`` is evaluated, or None when it is not bounded:
    a true guard ``name in (<constants>)`` / ``name in TABLE`` (module-level literal) / ``name == c`` / a disjunction of those, or an
    enclosing ``match name: case c1 | c2:`` arm (``name`` not rebound in between)."""

    def literal(e):
        if isinstance(e, ast.Name) and mod is not None:
            vals = mod.assigns(e.id)
            e = vals[0] if len(vals) == 1 else None
        if isinstance(e, ast.Call) and isinstance(e.func, ast.Name) and e.func.id in ("frozenset", "set", "tuple", "list") and len(e.args) == 1 and not e.keywords:
            e = e.args[0]
        if isinstance(e, (ast.List, ast.Tuple, ast.Set)) and e.elts and all(isinstance(x, ast.Constant) for x in e.elts):
            return [x.value for x in e.elts]
        if isinstance(e, ast.Dict) and e.keys and all(isinstance(x, ast.Constant) for x in e.keys):
            return [x.value for x in e.keys]
        return None

    def of_test(e):
        if isinstance(e, ast.BoolOp) and isinstance(e.op, ast.Or):
            parts = [of_test(v) for v in e.values]
            return None if any(p is None for p in parts) else [x for p in parts for x in p]
        if isinstance(e, ast.Compare) and len(e.ops) == 1:
            l, r = e.left, e.comparators[0]
            if isinstance(e.ops[0], ast.In) and isinstance(l, ast.Name) and l.id == name:
                return literal(r)
            if isinstance(e.ops[0], ast.Eq):
                for a, b in ((l, r), (r, l)):
                    if isinstance(a, ast.Name) and a.id == name and isinstance(b, ast.Constant):
                        return [b.value]
        return None

    def of_pattern(p):
        if isinstance(p, ast.MatchValue) and isinstance(p.value, ast.Constant):
            return [p.value.value]
        if isinstance(p, ast.MatchOr):
            parts = [of_pattern(x) for x in p.patterns]
            return None if any(x is None for x in parts) else [x for q in parts for x in q]
        if isinstance(p, ast.MatchAs) and p.pattern is not None:
            return of_pattern(p.pattern)
        return None

    best = None
    for e, val in guards_at(node, fn):
        got = of_test(e) if val else None
        if got is not None and (best is None or len(got) < len(best)):
            best = got
    child, p = node, getattr(node, "_parent", None)
    while p is not None and child is not fn:
        if isinstance(p, ast.match_case) and any(child is s for s in p.body):
            m = getattr(p, "_parent", None)
            if isinstance(m, ast.Match) and isinstance(m.subject, ast.Name) and m.subject.id == name:
                got = of_pattern(p.pattern)
                rebound = any(wname == name and _end(m.subject) <= wpos < _pos(node) for wpos, wname in _writes(fn))
                if got is not None and not rebound and (best is None or len(got) < len(best)):
                    best = got
        child, p = p, getattr(p, "_parent", None)
    return best


# ---------------------------------------------------------------------------------------------------
# the engine

_RANK ={None: 0, "V": 1, "A": 2}


def join(*ks):
    best = None
    for k in ks:
        if _RANK[k] > _RANK[best]:
            best = k
    return best


@dataclass(frozen=True)
class Esc:
    exc: str
    rel: str
    qual: str
    text: str  # normalised raiser construct
    why: str
    line: int = 0

    def site(self) -> str:
        return f"{self.rel}::{self.qual} `{self.text}`"


@dataclass
class Summary:
    escapes: frozenset
    ret: object  # kind


LENIENT_DECODE = ("replace", "ignore", "backslashreplace", "surrogateescape", "surrogatepass", "xmlcharrefreplace", "namereplace")

# methods of builtin containers / bytes / str / file objects that raise nothing in the model when the
# receiver's *type* is what the code expects (kind V or trusted); on kind A they add AttributeError.
SAFE_METHODS = frozenset(
    "startswith endswith lower upper strip lstrip rstrip split rsplit partition rpartition splitlines join replace hex "
    "tobytes isdigit isalpha isalnum isspace isascii find rfind count items keys values get copy read peek tell seek readline "
    "append appendleft extend add update setdefault clear insert sort reverse format removeprefix removesuffix title capitalize "
    "casefold zfill ljust rjust center expandtabs translate bit_length is_eof cast release union intersection difference "
    "issubset issuperset isdisjoint discard popitem most_common total_seconds write flush "
    "match search fullmatch sub subn findall finditer group groups groupdict start end span".split()
)

# builtin functions: name -> (exceptions on V, exceptions on A, result kind: 'join' | None | 'V' | 'A')
BUILTIN_CALLS = {
    "int": (("ValueError",), ("ValueError", "TypeError", "OverflowError"), "V"),
    "float": (("ValueError",), ("ValueError", "TypeError"), "V"),
    "len": ((), ("TypeError",), "V"),
    "tuple": ((), ("TypeError",), "join"), "list": ((), ("TypeError",), "join"), "set": ((), ("TypeError",), "join"),
    "frozenset": ((), ("TypeError",), "join"), "dict": ((), ("TypeError", "ValueError"), "join"),
    "sorted": ((), ("TypeError",), "join"), "reversed": ((), ("TypeError",), "join"), "sum": ((), ("TypeError",), "join"),
    "min": ((), ("TypeError",), "join"), "max": ((), ("TypeError",), "join"), "zip": ((), ("TypeError",), "join"),
    "enumerate": ((), ("TypeError",), "join"), "iter": ((), ("TypeError",), "join"), "map": ((), ("TypeError",), "join"),
    "filter": ((), ("TypeError",), "join"), "all": ((), ("TypeError",), None), "any": ((), ("TypeError",), None),
    "bytes": ((), ("TypeError", "ValueError"), "join"), "bytearray": ((), ("TypeError", "ValueError"), "join"),
    "memoryview": ((), ("TypeError",), "join"), "ord": ((), ("TypeError",), "V"), "chr": ((), ("TypeError", "ValueError"), "V"),
    "abs": ((), ("TypeError",), "join"), "round": ((), ("TypeError",), "join"), "divmod": ((), ("TypeError",), "join"),
    "range": ((), ("TypeError",), "V"), "hash": ((), ("TypeError",), None),
    "str": ((), (), "join"), "repr": ((), (), "join"), "bool": ((), (), None), "isinstance": ((), (), None),
    "issubclass": ((), (), None), "hasattr": ((), (), None), "type": ((), (), None), "id": ((), (), None), "callable": ((), (), None),
    "print": ((), (), None), "format": ((), (), "join"), "vars": ((), ("TypeError",), "join"), "next": ((), ("TypeError",), "join"),
    "object": ((), (), None), "slice": ((), (), "join"), "bin": ((), ("TypeError",), "V"),
}

DEFAULT_EXTERNALS = {
    # resolved dotted name (or text as written) -> (exceptions when fed untrusted data, result kind or 'join')
    "copy.deepcopy": ((), "join"), "copy.copy": ((), "join"), "typing.cast": ((), "join"),
    "typing.get_origin": ((), None), "typing.get_args": ((), None), "typing.get_type_hints": ((), None),
    "dataclasses.fields": ((), None), "time.time": ((), None), "uuid.uuid4": ((), None),
    "io.BytesIO": ((), "V"), "bytes.fromhex": (("ValueError",), "V"), "int.from_bytes": ((), "V"),
    "base64.b64encode": ((), "V"), "base64.b64decode": (("ValueError",), "V"),
    "json.loads": (("ValueError",), "A"), "json.dumps": (("TypeError", "ValueError"), "V"),
    "re.match": ((), "V"), "re.search": ((), "V"), "re.sub": ((), "V"), "re.fullmatch": ((), "V"), "re.split": ((), "V"),
    "ipaddress.ip_address": (("ValueError",), "V"), "ipaddress.IPv4Address": (("ValueError",), "V"),
    "ipaddress.IPv6Address": (("ValueError",), "V"),
    "itertools.chain": ((), "join"), "itertools.chain.from_iterable": ((), "join"),
    "warnings.warn": ((), None), "os.path.expanduser": ((), "V"),
}


@dataclass
class Config:
    externals: dict = None  # extends DEFAULT_EXTERNALS
    dispatch: dict = None  # method name -> [(rel, qual), ...]   (class-hierarchy dispatch chosen by the rule)
    dynamic: object = None  # f(frame, call) -> None | [(rel, qual)...] | ("raises", excs, kind)
    returns: dict = None  # "rel::qual" -> kind override of the return value
    bounded_recursion: dict = None  # "rel::qual" -> reason why the recursion depth is not data driven
    discharge: object = None  # f(frame, exc, node, why) -> reason | None
    attr_on_any: bool = True
    safe_methods: frozenset = frozenset()
    skip_explicit: object = None  # f(frame, raise_node) -> reason | None   (named suppressions)
    strict: bool = True
    local_types: object = None  # f(frame) -> {local name | attribute chain: (rel, class qual)}: types the rule knows beyond the annotations (annotations win)
    taint_through_mutation: bool = False  # opt-in: `buf.extend(x)` / `lst.append(x)` with untrusted x makes the container untrusted (kind V)
    yield_from_delegates: bool = False  # opt-in: `yield from g(x)` makes the delegating generator yield what g yields (its kind joins the result kind)


class _CachedModel:
    """Memoising facade over model.Model (resolve_name / mro / method hit the file system and are asked repeatedly)."""

    def __init__(self, model):
        self._m = model
        self._rn: dict = {}
        self._mro: dict = {}
        self._meth: dict = {}

    def __getattr__(self, name):
        return getattr(self._m, name)

    def resolve_name(self, mod, expr):
        k = (mod.rel, norm(expr))
        if k not in self._rn:
            self._rn[k] = self._m.resolve_name(mod, expr)
        return self._rn[k]

    def mro(self, rel, qual):
        k = (rel, qual)
        if k not in self._mro:
            self._mro[k] = self._m.mro(rel, qual)
        return self._mro[k]

    def method(self, rel, qual, name):
        k = (rel, qual, name)
        if k not in self._meth:
            r = None
            for m, c in self.mro(rel, qual):
                for st in c.body:
                    if isinstance(st, (ast.FunctionDef, ast.AsyncFunctionDef)) and st.name == name:
                        r = (m, st)
                        break
                if r:
                    break
            self._meth[k] = r
        return self._meth[k]


def cached_model(model):
    cm = getattr(model, "_H_cached", None)
    if cm is None:
        cm = _CachedModel(model)
        model._H_cached = cm
    return cm


class MayRaise:
    def __init__(self, ctx, cfg: Config | None = None):
        self.ctx = ctx
        self.model = cached_model(ctx.model)
        self.cfg = cfg or Config()
        self.h = ExcHierarchy(self.model)
        self.ext = dict(DEFAULT_EXTERNALS)
        self.ext.update(self.cfg.externals or {})
        self.memo: dict = {}
        self.done: set = set()
        self.stack: list = []
        self.changed = False
        self.edges: dict = {}
        self._edge_done: set = set()
        self.entry_flag: dict = {}
        self.unmodelled: set = set()
        self.final: set = set()
        self.unstable_reads = 0
        self.discharged: dict = {}
        self.functions: set = set()
        self.sites = 0

    # ---- public -----------------------------------------------------------------------------------
    def function(self, rel: str, qual: str, kinds: dict) -> Summary:
        mod = self.model.module(rel)
        fn = self.model.func(rel, qual)
        return self._fix(lambda: self.summ(mod, fn, dict(kinds)))

    def region(self, rel: str, qual: str, stmts, kinds: dict) -> frozenset:
        """Escapes of the statement list ``stmts`` (inside function rel::qual) under the entry kinds."""
        mod = self.model.module(rel)
        fn = self.model.func(rel, qual)

        def once():
            fr = _Frame(self, mod, fn, dict(kinds), (rel, qual + "#region", _envkey(kinds)))
            # kinds are propagated inside the region only; the rule supplies the entry kinds
            return Summary(frozenset(fr.settle_and_collect(stmts)), None)

        return self._fix(once).escapes

    def _fix(self, thunk):
        for _ in range(12):
            self.changed = False
            self.done = set()
            res = thunk()
            if not self.changed:
                return res
        raise AnalysisError("mayraise: escape sets did not stabilise in 12 rounds")

    def key_of_region(self, rel, qual, kinds):
        return (rel, qual + "#region", _envkey(kinds))

    def chain(self, key, esc: Esc) -> list[str]:
        out = []
        seen = set()
        while (key, esc) in self.edges and key not in seen:
            seen.add(key)
            text, nxt = self.edges[(key, esc)]
            out.append(f"{key[1].replace('#region', '')}: {text}")
            key = nxt
        out.append(f"{esc.qual}: {esc.text} -> {esc.exc} ({esc.why})")
        return out

    # ---- summaries --------------------------------------------------------------------------------
    def summ(self, mod, fn, env: dict, self_kind=None) -> Summary:
        key = (mod.rel, fn._qual, _envkey(env))
        if key in self.final:
            return self.memo[key]
        if key in self.done:
            self.unstable_reads += 1
            return self.memo[key]
        if key in self.stack:
            self.unstable_reads += 1
            return self.memo.get(key, Summary(frozenset(), None))
        self.stack.append(key)
        self.functions.add(f"{mod.rel}::{fn._qual}")
        reads0 = self.unstable_reads
        try:
            fr = _Frame(self, mod, fn, env, key)
            body = stmts_of(fn)
            esc = frozenset(fr.settle_and_collect(body))
            ret = fr.ret
            ov = (self.cfg.returns or {}).get(f"{mod.rel}::{fn._qual}")
            if ov is not None:
                ret = ov
        finally:
            self.stack.pop()
        old = self.memo.get(key)
        new = Summary(esc | (old.escapes if old else frozenset()), join(ret, old.ret if old else None))
        if old is None or old.escapes != new.escapes or old.ret != new.ret:
            self.changed = True
        self.memo[key] = new
        self.done.add(key)
        if self.unstable_reads == reads0:
            self.final.add(key)  # nothing in its call tree depended on an unfinished summary: final for good
        return new

    # ---- small resolvers --------------------------------------------------------------------------
    def struct_format(self, mod, expr):
        """Format string if ``expr`` denotes a module/class level ``struct.Struct("fmt")`` constant."""
        val = None
        if isinstance(expr, ast.Name):
            vals = mod.assigns(expr.id)
            val = vals[-1] if vals else None
            if val is None and expr.id in mod.imports:
                r = self._resolve_const(mod, expr)
                val = r
        elif isinstance(expr, ast.Attribute):
            val = self._resolve_const(mod, expr)
        if isinstance(val, ast.Call) and norm(val.func) in ("struct.Struct", "Struct") and val.args and isinstance(val.args[0], ast.Constant):
            return val.args[0].value
        return None

    def _resolve_const(self, mod, expr):
        """Value node of `Cls.ATTR` / `module.NAME` / imported NAME, else None."""
        if isinstance(expr, ast.Attribute):
            r = self.model.resolve_name(mod, expr.value)
            if r is not None and isinstance(r[1], ast.ClassDef):
                for m, c in self.model.mro(r[0].rel, r[1]._qual):
                    for st in c.body:
                        if isinstance(st, ast.AnnAssign) and isinstance(st.target, ast.Name) and st.target.id == expr.attr and st.value is not None:
                            return st.value
                        if isinstance(st, ast.Assign) and any(isinstance(t, ast.Name) and t.id == expr.attr for t in st.targets):
                            return st.value
                return None
            ch = attr_chain(expr.value)
            if ch and ch.split(".")[0] in mod.imports:
                target = mod.imports[ch.split(".")[0]].split(".") + ch.split(".")[1:]
                m = self.model.module_by_dotted(".".join(target))
                if m is not None:
                    vals = m.assigns(expr.attr)
                    return vals[-1] if vals else None
        elif isinstance(expr, ast.Name) and expr.id in mod.imports:
            target = mod.imports[expr.id].split(".")
            m = self.model.module_by_dotted(".".join(target[:-1]))
            if m is not None:
                vals = m.assigns(target[-1])
                return vals[-1] if vals else None
        return None

    def _const_with_module(self, mod, expr):
        """(defining Module, value node) of a module-level constant spelled ``NAME`` / imported ``NAME`` / ``module.NAME`` that is bound
        exactly once in its module; None otherwise (classes, functions, rebinding, locals are not constants)."""
        if isinstance(expr, ast.Name):
            if expr.id in mod.imports:
                target = mod.imports[expr.id].split(".")
                m = self.model.module_by_dotted(".".join(target[:-1])) if len(target) > 1 else None
                name = target[-1]
            else:
                m, name = mod, expr.id
        elif isinstance(expr, ast.Attribute):
            ch = attr_chain(expr.value)
            if not ch or ch.split(".")[0] not in mod.imports:
                return None
            target = mod.imports[ch.split(".")[0]].split(".") + ch.split(".")[1:]
            m, name = self.model.module_by_dotted(".".join(target)), expr.attr
        else:
            return None
        if m is None or m.get(name) is not None:
            return None
        vals = m.assigns(name)
        if len(vals) != 1:
            return None
        if any(isinstance(n, ast.Global) and name in n.names for n in ast.walk(m.tree)):
            return None
        return m, vals[0]

    def handler_names(self, mod, expr, _depth: int = 0) -> list[str]:
        """Canonical exception class names denoted by the type expression of an ``except`` clause / ``suppress(..)`` argument: a class, a
        tuple of those (also ``(*A, B)`` and ``A + B``), or a module-level constant (of this or an imported repository module) bound once
        to such an expression - ``except _MALFORMED_DATA_ERRORS as e`` catches exactly what the tuple it names lists."""
        if _depth > 6:
            raise AnalysisError(f"{mod.rel}: exception tuple constants nested too deeply: {norm(expr)[:60]}")
        if isinstance(expr, ast.Tuple):
            out = []
            for e in expr.elts:
                out.extend(self.handler_names(mod, e.value if isinstance(e, ast.Starred) else e, _depth + 1))
            return out
        if isinstance(expr, ast.BinOp) and isinstance(expr.op, ast.Add):
            return self.handler_names(mod, expr.left, _depth + 1) + self.handler_names(mod, expr.right, _depth + 1)
        if isinstance(expr, (ast.Name, ast.Attribute)):
            r = self.model.resolve_name(mod, expr)
            if r is None or not isinstance(r[1], ast.ClassDef):
                c = self._const_with_module(mod, expr)
                if c is not None and isinstance(c[1], (ast.Tuple, ast.BinOp, ast.Name, ast.Attribute)):
                    return self.handler_names(c[0], c[1], _depth + 1)
        return [self.h.canon(mod, expr)]

    def returned_exception_classes(self, mod, fn) -> list[str]:
        """Exception classes an *exception factory* can return (``raise make_error(x)``): every ``return`` of ``fn`` must return a freshly
        constructed exception ``Cls(...)`` (directly, through a local bound once to it, or ``A(..) if c else B(..)``)."""
        out = []

        def of(e, depth=0):
            if isinstance(e, ast.IfExp):
                return of(e.body, depth) + of(e.orelse, depth)
            if isinstance(e, ast.Name) and depth < 3:
                defs = [n for n in _own_nodes(fn) if isinstance(n, (ast.Assign, ast.AnnAssign)) and n.value is not None
                        and any(isinstance(t, ast.Name) and t.id == e.id for t in (n.targets if isinstance(n, ast.Assign) else [n.target]))]
                if len(defs) == 1:
                    return of(defs[0].value, depth + 1)
            if isinstance(e, ast.Call) and attr_chain(e.func):
                return [self.h.canon(mod, e)]
            raise AnalysisError(f"mayraise: {mod.rel}::{fn._qual} is raised as an exception factory but returns `{norm(e)[:60]}`")

        rets = [n for n in _own_nodes(fn) if isinstance(n, ast.Return)]
        if not rets or any(r.value is None for r in rets) or _has_yield(fn):
            raise AnalysisError(f"mayraise: {mod.rel}::{fn._qual} is raised as an exception factory but does not return an exception on every path")
        for r in rets:
            out.extend(of(r.value))
        for name in out:
            if not self.h.isa(name, "BaseException"):
                raise AnalysisError(f"mayraise: {mod.rel}::{fn._qual} returns {name}, which is not an exception class")
        return out

    def resolved_dotted(self, mod, func_expr) -> str:
        ch = attr_chain(func_expr)
        if not ch:
            return ""
        head = ch.split(".")[0]
        if head in mod.imports:
            return ".".join(mod.imports[head].split(".") + ch.split(".")[1:])
        return ch


    # ---- container kinds: does `c[k]` raise KeyError (mapping) or IndexError (sequence)? --------------------------------------
    def annotation_container_kind(self, mod, ann, depth: int = 0):
        """'dict' | 'seq' | None for a type annotation: builtin / typing / collections container names, ``Optional[..]`` / ``X | None`` /
        ``Annotated[..]`` / ``Final[..]`` wrappers, module-level type aliases (``Cache = dict[int, ...]``, also imported ones) and
        repository classes deriving from a builtin container (``class X(dict)``, ``TypedDict``, ``NamedTuple``)."""
        if ann is None or depth > 5:
            return None
        if isinstance(ann, ast.Constant) and isinstance(ann.value, str):
            try:
                ann = ast.parse(ann.value, mode="eval").body
            except SyntaxError:
                return None
        if isinstance(ann, ast.Constant):
            return None
        if isinstance(ann, ast.BinOp) and isinstance(ann.op, ast.BitOr):
            parts = [p for p in (ann.left, ann.right) if not (isinstance(p, ast.Constant) and p.value is None)]
            kinds = {self.annotation_container_kind(mod, p, depth + 1) for p in parts}
            return kinds.pop() if len(kinds) == 1 else None
        if isinstance(ann, ast.Subscript):
            base = (attr_chain(ann.value) or "").split(".")[-1]
            if base in ("Optional", "Final", "ClassVar", "Annotated", "Required", "NotRequired"):
                inner = ann.slice.elts[0] if isinstance(ann.slice, ast.Tuple) and ann.slice.elts else ann.slice
                return self.annotation_container_kind(mod, inner, depth + 1)
            if base == "Union":
                elts = ann.slice.elts if isinstance(ann.slice, ast.Tuple) else [ann.slice]
                parts = [p for p in elts if not (isinstance(p, ast.Constant) and p.value is None)]
                kinds = {self.annotation_container_kind(mod, p, depth + 1) for p in parts}
                return kinds.pop() if len(kinds) == 1 else None
            return self.annotation_container_kind(mod, ann.value, depth + 1)
        if isinstance(ann, (ast.Name, ast.Attribute)):
            ch = attr_chain(ann)
            if not ch:
                return None
            r = self.model.resolve_name(mod, ann)
            if r is not None and isinstance(r[1], ast.ClassDef):
                for m, c in self.model.mro(r[0].rel, r[1]._qual):
                    for b in c.bases:
                        last = (attr_chain(b.value if isinstance(b, ast.Subscript) else b) or "").split(".")[-1]
                        if last in _DICT_TYPE_NAMES or last == "TypedDict":
                            return "dict"
                        if last in _SEQ_TYPE_NAMES or last == "NamedTuple":
                            return "seq"
                return None
            c = self._const_with_module(mod, ann)
            if c is not None:
                return self.annotation_container_kind(c[0], c[1], depth + 1)
            head, last = ch.split(".")[0], ch.split(".")[-1]
            if "." not in ch and (mod.get(ch) is not None or mod.assigns(ch)):
                return None  # shadowed by a module-level definition that is not an alias we understand
            if "." in ch and not (head in mod.imports and mod.imports[head].split(".")[0] in ("typing", "collections", "typing_extensions", "types")):
                return None
            if last in _DICT_TYPE_NAMES:
                return "dict"
            if last in _SEQ_TYPE_NAMES:
                return "seq"
        return None

    def value_container_kind(self, mod, e, name_kind=None, depth: int = 0):
        """'dict' | 'seq' | None for an expression that *constructs* (or names) a container: displays, comprehensions, ``dict(..)`` /
        ``list(..)`` / ``sorted(..)`` ..., a call of a repository function whose return annotation says so, ``A if c else B`` with both
        arms alike; names are resolved by ``name_kind`` (the frame) or as module-level constants."""
        if e is None or depth > 5:
            return None
        if isinstance(e, (ast.Dict, ast.DictComp)):
            return "dict"
        if isinstance(e, (ast.List, ast.ListComp, ast.Tuple, ast.JoinedStr)):
            return "seq"
        if isinstance(e, ast.Constant):
            return "seq" if isinstance(e.value, (bytes, str)) else None
        if isinstance(e, ast.IfExp):
            a, b = self.value_container_kind(mod, e.body, name_kind, depth + 1), self.value_container_kind(mod, e.orelse, name_kind, depth + 1)
            return a if a == b else None
        if isinstance(e, ast.BinOp) and isinstance(e.op, (ast.BitOr, ast.Add)):
            a, b = self.value_container_kind(mod, e.left, name_kind, depth + 1), self.value_container_kind(mod, e.right, name_kind, depth + 1)
            return a if a == b else None
        if isinstance(e, ast.Call):
            ch = attr_chain(e.func) or ""
            r = self.model.resolve_name(mod, e.func) if ch else None
            if r is not None:
                if isinstance(r[1], (ast.FunctionDef, ast.AsyncFunctionDef)) and not _has_yield(r[1]) and not isinstance(r[1], ast.AsyncFunctionDef):
                    return self.annotation_container_kind(r[0], r[1].returns, depth + 1)
                if isinstance(r[1], ast.ClassDef):
                    return self.annotation_container_kind(mod, e.func, depth + 1)
                return None
            if ch and "." not in ch and ch not in mod.imports and mod.get(ch) is None and not mod.assigns(ch):
                if ch in ("dict",):
                    return "dict"
                if ch in ("list", "tuple", "bytes", "bytearray", "memoryview", "sorted", "str", "range"):
                    return "seq"
            dotted = self.resolved_dotted(mod, e.func)
            if dotted in ("collections.defaultdict", "collections.OrderedDict", "collections.Counter", "collections.ChainMap", "types.MappingProxyType"):
                return "dict"
            if dotted in ("collections.deque",):
                return "seq"
            if isinstance(e.func, ast.Attribute) and e.func.attr == "copy" and not e.args:
                return self.value_container_kind(mod, e.func.value, name_kind, depth + 1)
            return None
        if isinstance(e, ast.Name) and name_kind is not None:
            return name_kind(e, depth + 1)
        if isinstance(e, (ast.Name, ast.Attribute)):
            return self.const_container_kind(mod, e, depth + 1)
        return None

    def const_container_kind(self, mod, e, depth: int = 0):
        """Container kind of a module-level constant (``NAME`` / imported ``NAME`` / ``module.NAME``) bound exactly once."""
        c = self._const_with_module(mod, e)
        if c is None:
            return None
        m, val = c
        name = e.id if isinstance(e, ast.Name) else e.attr
        if isinstance(e, ast.Name) and e.id in mod.imports:
            name = mod.imports[e.id].split(".")[-1]
        for st in m.tree.body:
            if isinstance(st, ast.AnnAssign) and isinstance(st.target, ast.Name) and st.target.id == name:
                k = self.annotation_container_kind(m, st.annotation, depth + 1)
                if k:
                    return k
        return self.value_container_kind(m, val, None, depth + 1)

    def self_attr_container_kind(self, mod, cls, attr: str):
        """Container kind of ``self.<attr>`` in class ``cls``: a class-level annotation along the MRO, else what every ``self.<attr> = ..``
        in the methods of those classes constructs (all alike)."""
        k = (mod.rel, cls._qual, attr)
        cache = self.__dict__.setdefault("_self_ck", {})
        if k in cache:
            return cache[k]
        cache[k] = None
        kinds = set()
        found = None
        for m, c in self.model.mro(mod.rel, cls._qual):
            for st in c.body:
                if isinstance(st, ast.AnnAssign) and isinstance(st.target, ast.Name) and st.target.id == attr and found is None:
                    found = self.annotation_container_kind(m, st.annotation)
                elif isinstance(st, ast.Assign) and any(isinstance(t, ast.Name) and t.id == attr for t in st.targets):
                    kinds.add(self.value_container_kind(m, st.value))
            for n in ast.walk(c):
                tg, val, ann = [], None, None
                if isinstance(n, ast.Assign):
                    tg, val = n.targets, n.value
                elif isinstance(n, ast.AnnAssign):
                    tg, val, ann = [n.target], n.value, n.annotation
                elif isinstance(n, ast.AugAssign):
                    tg = [n.target]
                for t in tg:
                    if isinstance(t, ast.Attribute) and t.attr == attr and isinstance(t.value, ast.Name) and t.value.id == "self":
                        ka = self.annotation_container_kind(m, ann) if ann is not None else None
                        kinds.add(ka or (self.value_container_kind(m, val) if val is not None and not isinstance(n, ast.AugAssign) else None))
        if found is None and kinds and None not in kinds and len(kinds) == 1:
            found = next(iter(kinds))
        cache[k] = found
        return found

    # ---- tables of functions and callable values --------------------------------------------------------------------------
    def table_items(self, mod, name: str, depth: int = 0):
        """(defining Module, [(key node, value node)]) of the module-level mapping constant ``name`` (of ``mod`` or imported into it), bound
        exactly once to a dict display (``**OTHER`` expanded), ``A | B``, ``dict(k=v, ..)`` / ``dict(OTHER, k=v)`` or a dict comprehension
        over another such table (``{k: dec for k, (dec, _) in T.items()}``: the target pattern is matched structurally against the
        entries; ``if`` filters are ignored - a superset of the entries).  None when it is not such a table."""
        if depth > 5:
            return None
        c = self._const_with_module(mod, ast.Name(id=name, ctx=ast.Load()))
        if c is None:
            return None
        m, val = c
        items = self._items_of(m, val, depth)
        if items is None and isinstance(val, ast.Call) and not val.args and not val.keywords and attr_chain(val.func) in ("dict", "collections.OrderedDict", "OrderedDict"):
            items = []
        if items is None:
            return None
        tname = name if name not in mod.imports or m is mod else mod.imports[name].split(".")[-1]
        reg = self.registered_items(m, tname)
        return None if reg is None else (m, items + reg)

    def registered_items(self, m, name: str):
        """Entries added to the module-level mapping ``name`` of ``m`` after its construction, inside ``m``: ``NAME[k] = v`` at module level,
        and registration functions - ``def reg(f): NAME[k] = f`` used as ``@reg`` / ``reg(f)``, or a decorator factory
        ``def reg_as(k): def deco(f): NAME[k] = f; return f; return deco`` used as ``@reg_as(k)`` / ``reg_as(k)(f)``: every function so
        decorated / passed is an entry.  [] when there are none; None when the table is filled in a way that is not evident
        (``.update`` / ``.setdefault``, passed on or aliased, a registrar that escapes as a value, a stored value that is not its parameter)."""
        cache = self.__dict__.setdefault("_reg_items", {})
        k = (m.rel, name)
        if k not in cache:
            cache[k] = None
            cache[k] = self._registered_items(m, name)
        return cache[k]

    def _registered_items(self, m, name):
        READS = ("get", "items", "keys", "values", "pop", "popitem", "clear", "copy")
        out = []
        registrars = []  # (function that stores its parameter, parameter name, key expr)
        for n in ast.walk(m.tree):
            if not (isinstance(n, ast.Name) and n.id == name):
                continue
            cf = enclosing_func(n)
            if cf is not None and any(n.id in _locals_of(g) and not any(isinstance(x, ast.Global) and name in x.names for x in _own_nodes(g)) for g in _func_chain(cf)):
                continue  # a local of the same name
            p = getattr(n, "_parent", None)
            if isinstance(n.ctx, ast.Store) or isinstance(p, (ast.AnnAssign,)) and p.target is n:
                continue  # the binding itself (exactly one: _const_with_module)
            if isinstance(p, ast.Subscript) and p.value is n:
                if isinstance(p.ctx, ast.Load) or isinstance(p.ctx, ast.Del):
                    continue
                st = getattr(p, "_parent", None)
                if not (isinstance(st, ast.Assign) and len(st.targets) == 1 and st.targets[0] is p):
                    return None
                if cf is None:
                    out.append((p.slice, st.value))
                    continue
                a = cf.args
                params = [x.arg for x in a.posonlyargs + a.args]
                if not (isinstance(st.value, ast.Name) and st.value.id in params
                        and not any(isinstance(x, ast.Name) and x.id == st.value.id and isinstance(x.ctx, (ast.Store, ast.Del)) for x in _own_nodes(cf))):
                    return None
                registrars.append((cf, st.value.id, p.slice))
                continue
            if isinstance(p, ast.Attribute) and p.value is n:
                pp = getattr(p, "_parent", None)
                if isinstance(pp, ast.Call) and pp.func is p and p.attr in READS:
                    continue
                return None
            if isinstance(p, ast.Compare) or (isinstance(p, (ast.For, ast.comprehension)) and p.iter is n):
                continue
            if isinstance(p, ast.Call) and p.func is not n and isinstance(p.func, ast.Name) and p.func.id in ("len", "sorted", "list", "tuple", "set", "frozenset", "iter", "bool", "max", "min", "repr", "str"):
                continue
            if isinstance(p, (ast.If, ast.While, ast.Assert, ast.UnaryOp, ast.BoolOp, ast.IfExp)) and getattr(p, "test", None) is n or isinstance(p, (ast.UnaryOp, ast.BoolOp)):
                continue
            if isinstance(p, ast.keyword) or isinstance(p, ast.Starred):
                return None
            if isinstance(p, ast.Dict) and any(v is n for kk, v in zip(p.keys, p.values) if kk is None):
                continue  # {**NAME}: read
            return None
        for reg, pname, key in registrars:
            a = reg.args
            idx = [x.arg for x in a.posonlyargs + a.args].index(pname)
            outer = enclosing_func(reg)
            if outer is None:
                factory = None
            else:
                # decorator factory: the registrar is a closure that the (module-level) factory returns, and nothing else is done with it
                if enclosing_func(outer) is not None or not isinstance(getattr(outer, "_parent", None), ast.Module):
                    return None
                uses = [x for x in ast.walk(outer) if isinstance(x, ast.Name) and x.id == reg.name and isinstance(x.ctx, ast.Load)]
                if not uses or not all(isinstance(getattr(x, "_parent", None), ast.Return) for x in uses):
                    return None
                factory = outer
            head = factory or reg
            if not isinstance(getattr(head, "_parent", None), ast.Module) or m.get(head.name) is not head:
                return None
            for x in ast.walk(m.tree):
                if not (isinstance(x, ast.Name) and x.id == head.name and isinstance(x.ctx, ast.Load)):
                    continue
                cf = enclosing_func(x)
                if cf is not None and any(x.id in _locals_of(g) for g in _func_chain(cf)):
                    continue
                p = getattr(x, "_parent", None)
                call = p if isinstance(p, ast.Call) and p.func is x else None
                if factory is not None:
                    if call is None:
                        return None
                    x, p = call, getattr(call, "_parent", None)  # D(k) now plays the role of the registrar
                    call = p if isinstance(p, ast.Call) and p.func is x else None
                    kparams = [y.arg for y in factory.args.posonlyargs + factory.args.args]
                    kexpr = key
                    if isinstance(key, ast.Name) and key.id in kparams and kparams.index(key.id) < len(x.args):
                        kexpr = x.args[kparams.index(key.id)]
                else:
                    kexpr = key
                if isinstance(p, (ast.FunctionDef, ast.AsyncFunctionDef)) and any(d is x for d in p.decorator_list):
                    if idx != 0:
                        return None
                    out.append((kexpr, ast.copy_location(ast.Name(id=p.name, ctx=ast.Load()), p)))
                    continue
                if call is not None and not any(isinstance(y, ast.Starred) for y in call.args) and idx < len(call.args):
                    out.append((kexpr, call.args[idx]))
                    continue
                return None
        # registration from other modules (`compat.NAME[k] = f`, `from compat import register`) is not looked for
        return out

    def _items_of(self, m, e, depth):
        if isinstance(e, ast.Dict):
            out = []
            for k, v in zip(e.keys, e.values):
                if k is None:
                    sub = self._items_of(m, v, depth + 1)
                    if sub is None:
                        return None
                    out.extend(sub)
                else:
                    out.append((k, v))
            return out
        if isinstance(e, ast.Name):
            if e.id in m.imports:
                return None  # tables spread over several modules: not modelled
            r = self.table_items(m, e.id, depth + 1)
            return None if r is None else r[1]
        if isinstance(e, ast.BinOp) and isinstance(e.op, ast.BitOr):
            a, b = self._items_of(m, e.left, depth + 1), self._items_of(m, e.right, depth + 1)
            return None if a is None or b is None else a + b
        if isinstance(e, ast.Call) and isinstance(e.func, ast.Name) and e.func.id == "dict" and "dict" not in m.imports and m.get("dict") is None and len(e.args) <= 1:
            out = []
            if e.args:
                sub = self._items_of(m, e.args[0], depth + 1)
                if sub is None:
                    return None
                out.extend(sub)
            for kw in e.keywords:
                if kw.arg is None:
                    sub = self._items_of(m, kw.value, depth + 1)
                    if sub is None:
                        return None
                    out.extend(sub)
                else:
                    out.append((ast.Constant(value=kw.arg), kw.value))
            return out
        if isinstance(e, ast.DictComp) and len(e.generators) == 1 and not e.generators[0].is_async:
            g = e.generators[0]
            it = g.iter
            elems = None
            if isinstance(it, ast.Call) and isinstance(it.func, ast.Attribute) and not it.args and not it.keywords and it.func.attr in ("items", "values", "keys"):
                src = self._items_of(m, it.func.value, depth + 1)
                if src is None:
                    return None
                if it.func.attr == "items":
                    elems = [ast.Tuple(elts=[k, v], ctx=ast.Load()) for k, v in src]
                elif it.func.attr == "values":
                    elems = [v for _, v in src]
                else:
                    elems = [k for k, _ in src]
            elif isinstance(it, (ast.Tuple, ast.List)) and not any(isinstance(x, ast.Starred) for x in it.elts):
                elems = list(it.elts)
            elif isinstance(it, ast.Name) and it.id not in m.imports:
                c = self._const_with_module(m, it)
                if c is not None and isinstance(c[1], (ast.Tuple, ast.List)) and not any(isinstance(x, ast.Starred) for x in c[1].elts):
                    elems = list(c[1].elts)
                else:
                    src = self._items_of(m, it, depth + 1)
                    elems = None if src is None else [k for k, _ in src]
            if elems is None:
                return None
            out = []
            for el in elems:
                env: dict = {}
                if not _bind_pattern(g.target, el, env):
                    return None
                k, v = _subst(e.key, env), _subst(e.value, env)
                if k is None or v is None:
                    return None
                out.append((k, v))
            return out
        return None

    def callable_values(self, mod, fn, e, depth: int = 0):
        """What the expression ``e`` (evaluated inside function ``fn`` of ``mod``; fn None: at module level) can denote when it is *called*:
        a list of ('fn', Module, FunctionDef) | ('cls', Module, ClassDef) | ('builtin', name) | ('ext', dotted name) | ('none',), or None
        when that is not evident.  Followed (value_nodes): builtins of the call table, repository functions / classes, externals of the
        rule, nested functions, ``A if c else B`` / ``A or B``, ``TABLE[k]`` / ``TABLE.get(k[, default])`` over a module-level table
        (display, comprehension over another table, registry filled by a decorator), ``X[<int>]`` of tuple entries, a local bound exactly
        once to any of those, and a parameter that is never rebound - then the union over *every* call site of ``fn`` (which must be
        mentioned only as the callee of calls)."""
        nodes = self.value_nodes(mod, fn, e, depth)
        if nodes is None:
            return None
        out = []
        for m, f, n in nodes:
            if isinstance(n, tuple):
                out.append(n)  # already classified (nested function)
                continue
            if isinstance(n, ast.Constant) and n.value is None:
                out.append(("none",))
                continue
            if not isinstance(n, (ast.Name, ast.Attribute)):
                return None
            ch = attr_chain(n)
            if not ch:
                return None
            r = self.model.resolve_name(m, n)
            if r is not None:
                if isinstance(r[1], ast.ClassDef):
                    out.append(("cls", r[0], r[1]))
                elif isinstance(r[1], (ast.FunctionDef, ast.AsyncFunctionDef)):
                    out.append(("fn", r[0], r[1]))
                else:
                    return None
                continue
            if isinstance(n, ast.Name) and n.id not in m.imports and m.get(n.id) is None and not m.assigns(n.id):
                obj = getattr(builtins, n.id, None)
                if (isinstance(obj, type) and issubclass(obj, BaseException)) or n.id in BUILTIN_CALLS:
                    out.append(("builtin", n.id))
                    continue
                return None
            dotted = self.resolved_dotted(m, n)
            for name in (dotted, ch):
                if name in self.ext:
                    out.append(("ext", name))
                    break
            else:
                return None
        return out

    def value_nodes(self, mod, fn, e, depth: int = 0):
        """[(Module, function | None, node)]: the *terminal* expressions ``e`` can evaluate to - global names / dotted names, constants,
        tuple displays, anything that is not reduced further - or None when that is not evident (see callable_values for what is followed)."""
        if e is None or depth > 8:
            return None
        if isinstance(e, ast.IfExp):
            a, b = self.value_nodes(mod, fn, e.body, depth + 1), self.value_nodes(mod, fn, e.orelse, depth + 1)
            return None if a is None or b is None else a + b
        if isinstance(e, ast.BoolOp) and isinstance(e.op, ast.Or):
            parts = [self.value_nodes(mod, fn, v, depth + 1) for v in e.values]
            return None if any(p is None for p in parts) else [x for p in parts for x in p]
        if isinstance(e, ast.NamedExpr):
            return self.value_nodes(mod, fn, e.value, depth + 1)
        tbl, default = None, None
        if isinstance(e, ast.Subscript) and isinstance(e.value, (ast.Name, ast.Attribute)):
            tbl = e.value
        elif isinstance(e, ast.Call) and isinstance(e.func, ast.Attribute) and e.func.attr == "get" and 1 <= len(e.args) <= 2 and not e.keywords \
                and isinstance(e.func.value, (ast.Name, ast.Attribute)):
            tbl = e.func.value
            default = e.args[1] if len(e.args) == 2 else ast.Constant(value=None)
        is_local_tbl = isinstance(tbl, ast.Name) and fn is not None and any(tbl.id in _locals_of(g) for g in _func_chain(fn))
        if tbl is not None and not is_local_tbl and (attr_chain(tbl) or "").split(".")[0] not in ("self", "cls"):
            c = self._const_with_module(mod, tbl)
            if c is None:
                return None
            name = tbl.id if isinstance(tbl, ast.Name) else tbl.attr
            if isinstance(tbl, ast.Name) and tbl.id in mod.imports:
                name = mod.imports[tbl.id].split(".")[-1]
            r = self.table_items(c[0], name, depth + 1)
            if r is None:
                # not a mapping: a module-level tuple / list of values indexed by position
                if isinstance(e, ast.Subscript) and isinstance(c[1], (ast.Tuple, ast.List)) and c[1].elts and not any(isinstance(x, ast.Starred) for x in c[1].elts):
                    out = []
                    for v in c[1].elts:
                        got = self.value_nodes(c[0], None, v, depth + 1)
                        if got is None:
                            return None
                        out.extend(got)
                    return out
                return None
            if not r[1]:
                return None
            out = []
            for _, v in r[1]:
                got = self.value_nodes(r[0], None, v, depth + 1)
                if got is None:
                    return None
                out.extend(got)
            if default is not None:
                got = self.value_nodes(mod, fn, default, depth + 1)
                if got is None:
                    return None
                out.extend(got)
            return out
        if isinstance(e, ast.Subscript) and isinstance(e.slice, ast.Constant) and isinstance(e.slice.value, int) and not isinstance(e.slice.value, bool):
            # X[i] where X denotes tuple displays (entries of a table of tuples, a local bound to one ...)
            base = self.value_nodes(mod, fn, e.value, depth + 1)
            if base is None:
                return None
            out = []
            for m, f, n in base:
                if isinstance(n, ast.Constant) and n.value is None:
                    continue  # guarded by the code (`if entry is not None`)
                if not (isinstance(n, (ast.Tuple, ast.List)) and not any(isinstance(x, ast.Starred) for x in n.elts) and -len(n.elts) <= e.slice.value < len(n.elts)):
                    return None
                got = self.value_nodes(m, f, n.elts[e.slice.value], depth + 1)
                if got is None:
                    return None
                out.extend(got)
            return out
        if isinstance(e, ast.Name) and fn is not None and e.id not in _locals_of(fn):
            for g in _func_chain(fn):
                nd = _nested_def_of(g, e.id)
                if nd is not None:
                    return [(mod, fn, ("fn", mod, nd))]
                if g is not fn and e.id in _locals_of(g):
                    return None  # a variable of an enclosing function
        if isinstance(e, ast.Name) and fn is not None and e.id in _locals_of(fn):
            a = fn.args
            params = [x.arg for x in a.posonlyargs + a.args + a.kwonlyargs]
            stores = [n for n in _own_nodes(fn) if isinstance(n, ast.Name) and n.id == e.id and isinstance(n.ctx, (ast.Store, ast.Del))]
            if e.id in params:
                if stores:
                    return None
                got = self.callable_param_values(mod, fn, e.id, depth + 1)
                return None if got is None else [(mod, fn, t) for t in got]
            if (a.vararg and a.vararg.arg == e.id) or (a.kwarg and a.kwarg.arg == e.id):
                return None
            if len(stores) != 1:
                return None
            binds = [n for n in _own_nodes(fn) if isinstance(n, (ast.Assign, ast.AnnAssign, ast.NamedExpr)) and getattr(n, "value", None) is not None
                     and any(t is stores[0] for t in (n.targets if isinstance(n, ast.Assign) else [n.target]))]
            if len(binds) == 1:
                return self.value_nodes(mod, fn, binds[0].value, depth + 1)
            # a tuple target bound to a table entry: `dec, enc = TABLE[k]`
            for n in _own_nodes(fn):
                if isinstance(n, ast.Assign) and len(n.targets) == 1 and isinstance(n.targets[0], (ast.Tuple, ast.List)) \
                        and not any(isinstance(x, ast.Starred) for x in n.targets[0].elts) and any(x is stores[0] for x in n.targets[0].elts):
                    i = [x is stores[0] for x in n.targets[0].elts].index(True)
                    sub = ast.copy_location(ast.Subscript(value=n.value, slice=ast.Constant(value=i), ctx=ast.Load()), n.value)
                    return self.value_nodes(mod, fn, sub, depth + 1)
            return None
        if isinstance(e, (ast.Name, ast.Attribute)):
            ch = attr_chain(e)
            if not ch:
                return None
            if fn is not None and any(ch.split(".")[0] in _locals_of(g) for g in _func_chain(fn)):
                return None
            if isinstance(e, ast.Name) and e.id not in mod.imports and mod.get(e.id) is None:
                # a module-level alias bound once to something evident: `_default_codec = identity`
                c = self._const_with_module(mod, e)
                if c is not None and not isinstance(c[1], (ast.Constant, ast.Lambda)):
                    return self.value_nodes(c[0], None, c[1], depth + 1)
            return [(mod, fn, e)]
        if isinstance(e, (ast.Constant, ast.Tuple, ast.List)):
            return [(mod, fn, e)]
        return None

    def callable_param_values(self, mod, fn, pname: str, depth: int = 0):
        """Union of what every call site of ``fn`` passes for its parameter ``pname`` (see callable_values), or None: the parameter is
        rebound, ``fn`` escapes as a value somewhere (stored, passed on, decorated), a call uses ``*`` / ``**``, or an argument is not evident."""
        key = (mod.rel, getattr(fn, "_qual", fn.name), id(fn), pname)
        cache = self.__dict__.setdefault("_cpv", {})
        if key in cache:
            return cache[key]
        cache[key] = None  # cycles (a parameter passed on in a recursive call adds nothing) are cut here
        cache[key] = out = self._callable_param_values(mod, fn, pname, depth)
        return out

    def _callable_param_values(self, mod, fn, pname, depth):
        if depth > 6 or fn.decorator_list and any(d not in ("staticmethod", "classmethod") for d in decorators(fn)):
            return None
        a = fn.args
        pos_params = [x.arg for x in a.posonlyargs + a.args]
        defaults = dict(zip(reversed(pos_params), reversed(a.defaults)))
        for x, d in zip(a.kwonlyargs, a.kw_defaults):
            if d is not None:
                defaults[x.arg] = d
        owner = getattr(fn, "_parent", None)
        is_method = isinstance(owner, ast.ClassDef)
        implicit_first = is_method and "staticmethod" not in decorators(fn)
        outer = enclosing_func(fn)
        if outer is not None:
            scopes = [(mod, outer)]
        else:
            scopes = [(m, m.tree) for m in modules_mentioning(self.model, fn.name)]
        sites = []
        for m, scope in scopes:
            for n in ast.walk(scope):
                if n is fn:
                    continue
                mention = (isinstance(n, ast.Name) and n.id == fn.name and isinstance(n.ctx, ast.Load)) or (isinstance(n, ast.Attribute) and n.attr == fn.name)
                if not mention:
                    continue
                cf = enclosing_func(n)
                if isinstance(n, ast.Name):
                    if outer is None:
                        if is_method:
                            continue  # a bare name never denotes a method
                        if cf is not None and any(n.id in _locals_of(g) for g in _func_chain(cf)):
                            continue  # somebody's local of the same name
                        r = self.model.resolve_name(m, n)
                        if r is None or r[1] is not fn:
                            continue  # another definition of the same name
                else:
                    if outer is not None:
                        continue  # attribute of the same name: not the nested function
                    if not is_method:
                        r = self.model.resolve_name(m, n)
                        if r is None or r[1] is not fn:
                            if r is None and attr_chain(n.value) and attr_chain(n.value).split(".")[0] in m.imports:
                                tgt = self.resolved_dotted(m, n)
                                if not tgt.endswith("." + fn.name) or self.model.module_by_dotted(tgt.rsplit(".", 1)[0]) is not mod:
                                    continue
                            else:
                                continue
                p = getattr(n, "_parent", None)
                if not (isinstance(p, ast.Call) and p.func is n):
                    return None  # the function escapes as a value
                sites.append((m, cf, p, isinstance(n, ast.Attribute)))
        if not sites:
            return None
        out = []
        for m, cf, call, via_attr in sites:
            if any(isinstance(x, ast.Starred) for x in call.args) or any(k.arg is None for k in call.keywords):
                return None
            params = pos_params
            if implicit_first and via_attr:
                r = self.model.resolve_name(m, call.func.value) if attr_chain(call.func.value) else None
                explicit_self = r is not None and isinstance(r[1], ast.ClassDef) and "classmethod" not in decorators(fn)
                if not explicit_self:
                    params = pos_params[1:]
            arg = None
            if pname in params and params.index(pname) < len(call.args):
                arg = call.args[params.index(pname)]
            else:
                arg = next((k.value for k in call.keywords if k.arg == pname), None)
            if arg is None:
                arg = defaults.get(pname)
                if arg is None:
                    return None
                got = self.callable_values(mod, None, arg, depth + 1)
            elif cf is fn and isinstance(arg, ast.Name) and arg.id == pname:
                continue  # passed on unchanged in a recursive call
            else:
                got = self.callable_values(m, cf, arg, depth + 1)
            if got is None:
                return None
            out.extend(got)
        seen, uniq = set(), []
        for t in out:
            k = (t[0],) + tuple(id(x) if isinstance(x, ast.AST) else (x.rel if hasattr(x, "rel") else x) for x in t[1:])
            if k not in seen:
                seen.add(k)
                uniq.append(t)
        return uniq


_DICT_TYPE_NAMES = frozenset("dict Dict Mapping MutableMapping defaultdict DefaultDict OrderedDict Counter ChainMap MappingProxyType".split())
_SEQ_TYPE_NAMES = frozenset("list List tuple Tuple Sequence MutableSequence bytes bytearray memoryview str deque Deque ByteString range".split())
_DICT_ONLY_METHODS = frozenset("get items keys values setdefault popitem fromkeys".split())
_SEQ_ONLY_METHODS = frozenset("append extend insert sort reverse appendleft popleft extendleft startswith endswith decode encode tobytes join split".split())


def _bind_pattern(target, node, env) -> bool:
    """Match a comprehension target against an entry *node* structurally: names bind nodes, tuple patterns need tuple displays."""
    if isinstance(target, ast.Name):
        env[target.id] = node
        return True
    if isinstance(target, (ast.Tuple, ast.List)) and isinstance(node, (ast.Tuple, ast.List)) and len(target.elts) == len(node.elts) \
            and not any(isinstance(x, ast.Starred) for x in list(target.elts) + list(node.elts)):
        return all(_bind_pattern(t, n, env) for t, n in zip(target.elts, node.elts))
    return False


def _subst(e, env):
    """The entry node the comprehension's key / value expression denotes under ``env`` (None: not evident)."""
    if isinstance(e, ast.Name):
        return env.get(e.id, e)
    if isinstance(e, (ast.Constant, ast.Attribute)):
        return e
    if isinstance(e, ast.Tuple):
        elts = [_subst(x, env) for x in e.elts]
        return None if any(x is None for x in elts) else ast.Tuple(elts=elts, ctx=ast.Load())
    if isinstance(e, ast.Subscript) and isinstance(e.slice, ast.Constant) and isinstance(e.slice.value, int):
        v = _subst(e.value, env)
        if isinstance(v, (ast.Tuple, ast.List)) and -len(v.elts) <= e.slice.value < len(v.elts):
            return v.elts[e.slice.value]
    return None


def _locals_of(fn) -> set:
    loc = getattr(fn, "_locals_cache", None)
    if loc is None:
        a = fn.args
        loc = {x.arg for x in a.posonlyargs + a.args + a.kwonlyargs}
        if a.vararg:
            loc.add(a.vararg.arg)
        if a.kwarg:
            loc.add(a.kwarg.arg)
        for n in _own_nodes(fn):
            if isinstance(n, ast.Name) and isinstance(n.ctx, ast.Store):
                loc.add(n.id)
        fn._locals_cache = loc
    return loc


def _func_chain(fn):
    while fn is not None:
        yield fn
        fn = enclosing_func(fn)


def _nested_def_of(fn, name):
    todo = list(ast.iter_child_nodes(fn))
    while todo:
        n = todo.pop()
        if isinstance(n, (ast.FunctionDef, ast.AsyncFunctionDef)):
            if n.name == name:
                return n
            continue
        if isinstance(n, (ast.ClassDef, ast.Lambda)):
            continue
        todo.extend(ast.iter_child_nodes(n))
    return None


LOGGING_METHODS = frozenset("debug info warning warn error critical exception log isEnabledFor".split())


def _module_logger(eng, mod, name: str, depth: int = 0) -> bool:
    """Module-level ``name`` of ``mod`` is a ``logging.Logger``: bound only at module level, every binding being
    ``logging.getLogger(..)`` / ``getLogger(..)`` (imported from logging) / ``<module logger>.getChild(..)``, or imported from a
    repository module where that holds."""
    cache = eng.__dict__.setdefault("_logger_names", {})
    k = (mod.rel, name)
    if k in cache:
        return cache[k]
    cache[k] = False  # cycles
    ok = False
    if depth <= 4:
        if name in mod.imports:
            target = mod.imports[name].split(".")
            m = eng.model.module_by_dotted(".".join(target[:-1])) if len(target) > 1 else None
            ok = m is not None and m is not mod and _module_logger(eng, m, target[-1], depth + 1)
        else:
            vals = mod.assigns(name)
            # every binding of the global: module-scope stores (functions / classes have their own scope) + `global name` anywhere
            stores = sum(1 for n in _own_nodes(mod.tree) if isinstance(n, ast.Name) and n.id == name and isinstance(n.ctx, (ast.Store, ast.Del)))
            stores += sum(1 for n in ast.walk(mod.tree) if isinstance(n, ast.Global) and name in n.names)
            ok = bool(vals) and stores == len(vals)
            for v in vals:
                if not ok:
                    break
                f = v.func if isinstance(v, ast.Call) else None
                if isinstance(f, ast.Attribute) and f.attr == "getLogger":
                    ok = eng.resolved_dotted(mod, f) == "logging.getLogger"
                elif isinstance(f, ast.Name):
                    ok = mod.imports.get(f.id) == "logging.getLogger"
                elif isinstance(f, ast.Attribute) and f.attr == "getChild" and isinstance(f.value, ast.Name):
                    ok = _module_logger(eng, mod, f.value.id, depth + 1)
                else:
                    ok = False
    cache[k] = ok
    return ok


def _envkey(env: dict):
    return tuple(sorted((k, v) for k, v in env.items() if v is not None))


def _is_cm(fn) -> bool:
    return any(d.split(".")[-1] in ("contextmanager", "asynccontextmanager") for d in decorators(fn))


def _has_yield(fn) -> bool:
    for n in _own_nodes(fn):
        if isinstance(n, (ast.Yield, ast.YieldFrom)):
            return True
    return False


def _own_nodes(fn):
    """Nodes of ``fn`` not inside nested function / class / lambda definitions."""
    todo = list(ast.iter_child_nodes(fn))
    while todo:
        n = todo.pop()
        if isinstance(n, (ast.FunctionDef, ast.AsyncFunctionDef, ast.ClassDef, ast.Lambda)):
            continue
        yield n
        todo.extend(ast.iter_child_nodes(n))


def _enclosing_class(model, mod, fn):
    p = getattr(fn, "_parent", None)
    while p is not None and not isinstance(p, ast.ClassDef):
        if isinstance(p, (ast.FunctionDef, ast.AsyncFunctionDef)):
            p = getattr(p, "_parent", None)
            continue
        p = getattr(p, "_parent", None)
    return p


class _Frame:
    def __init__(self, eng: MayRaise, mod, fn, env: dict, key, yield_body=None):
        self.eng = eng
        self.mod = mod
        self.fn = fn
        self.env = dict(env)
        self.key = key
        self.cur: set = set()
        self.collecting = False
        self.ret = None
        self.handling: list = []  # stack of (handler var name | None, frozenset[Esc])
        self.yield_body = yield_body
        self.types: dict = {}  # local name -> (Module, ClassDef) from annotations
        self._env_changed = False
        self.cls = _enclosing_class(eng.model, mod, fn)
        a = fn.args
        for arg in a.posonlyargs + a.args + a.kwonlyargs:
            if arg.annotation is not None:
                self._note_type(arg.arg, arg.annotation)
        for n in _own_nodes(fn):
            if isinstance(n, ast.AnnAssign) and isinstance(n.target, ast.Name):
                self._note_type(n.target.id, n.annotation)
        if eng.cfg.local_types is not None:
            for name, (rel, qual) in (eng.cfg.local_types(self) or {}).items():
                c = eng.model.module(rel).get(qual)
                if name not in self.types and isinstance(c, ast.ClassDef):
                    self.types[name] = (eng.model.module(rel), c)

    # ---- driving ----------------------------------------------------------------------------------
    def settle(self, stmts):
        """Flow-insensitive propagation of kinds: repeat until the environment is stable."""
        self.collecting = False
        for _ in range(8):
            self._env_changed = False
            self.cur = set()
            self.block(stmts)
            if not self._env_changed:
                return
        raise AnalysisError(f"mayraise: kinds did not stabilise in {self.mod.rel}::{self.fn._qual}")

    def settle_and_collect(self, stmts) -> set:
        """settle + collect in one go: collect on every pass and keep the collection of the first pass that leaves the
        environment unchanged."""
        for _ in range(8):
            self._env_changed = False
            self.collecting = True
            self.cur = set()
            self.ret = None
            self.block(stmts)
            if not self._env_changed:
                return self.cur
        raise AnalysisError(f"mayraise: kinds did not stabilise in {self.mod.rel}::{self.fn._qual}")

    def collect(self, stmts) -> set:
        self.collecting = True
        self.cur = set()
        self.block(stmts)
        return self.cur

    # ---- recording --------------------------------------------------------------------------------
    def add(self, exc: str, node, why: str):
        if not self.collecting:
            return
        self.eng.sites += 1
        d = self.eng.cfg.discharge
        if d is not None:
            reason = d(self, exc, node, why)
            if reason:
                self.eng.discharged[f"{self.mod.rel}::{self.fn._qual} `{norm(node)[:70]}` {exc}"] = reason
                return
        self.cur.add(Esc(exc, self.mod.rel, self.fn._qual, norm(node)[:90], why, getattr(node, "lineno", 0)))

    def bind(self, target, k):
        if isinstance(target, ast.Starred):
            target = target.value
        if isinstance(target, (ast.Tuple, ast.List)):
            for e in target.elts:
                self.bind(e, k)
            return
        name = target.id if isinstance(target, ast.Name) else attr_chain(target)
        if not name:
            return
        new = join(self.env.get(name), k)
        if new != self.env.get(name):
            self.env[name] = new
            self._env_changed = True

    def kind_of_name(self, name: str):
        return self.env.get(name)

    def tainted_in(self, expr) -> bool:
        for n in ast.walk(expr):
            if isinstance(n, ast.Name) and self.env.get(n.id):
                return True
            if isinstance(n, ast.Attribute):
                ch = attr_chain(n)
                if ch and self.env.get(ch):
                    return True
        return False

    def _note_type(self, name, ann):
        if isinstance(ann, ast.Constant) and isinstance(ann.value, str):
            try:
                ann = ast.parse(ann.value, mode="eval").body
            except SyntaxError:
                return
        if isinstance(ann, ast.BinOp):  # X | None
            ann = ann.left
        r = self.eng.model.resolve_name(self.mod, ann) if isinstance(ann, (ast.Name, ast.Attribute)) else None
        if r is not None and isinstance(r[1], ast.ClassDef):
            self.types[name] = r

    # ---- statements -------------------------------------------------------------------------------
    def block(self, stmts):
        for s in stmts:
            self.stmt(s)

    def _sub(self, stmts) -> set:
        saved = self.cur
        self.cur = set()
        self.block(stmts)
        out, self.cur = self.cur, saved
        return out

    def stmt(self, s):
        if isinstance(s, (ast.FunctionDef, ast.AsyncFunctionDef, ast.ClassDef, ast.Pass, ast.Import, ast.ImportFrom,
                          ast.Global, ast.Nonlocal, ast.Break, ast.Continue)):
            return
        if isinstance(s, ast.Expr):
            if isinstance(s.value, ast.Yield) and self.yield_body is not None:
                if s.value.value is not None:
                    self.ev(s.value.value)
                self.cur |= self.yield_body()
                return
            self.ev(s.value)
            return
        if isinstance(s, ast.Assign):
            k = self.ev(s.value)
            for t in s.targets:
                self.assign(t, k, s.value, s)
            return
        if isinstance(s, ast.AnnAssign):
            if isinstance(s.target, ast.Name):
                self._note_type(s.target.id, s.annotation)
            if s.value is not None:
                k = self.ev(s.value)
                self.assign(s.target, k, s.value, s)
            return
        if isinstance(s, ast.AugAssign):
            k = self.ev(s.value)
            kt = self.ev_load_of(s.target)
            if "A" in (k, kt):
                self.add("TypeError", s, "operator on untrusted-type data")
            self.assign(s.target, join(k, kt), s.value, s)
            return
        if isinstance(s, ast.Return):
            if s.value is not None:
                self.ret = join(self.ret, self.ev(s.value))
            return
        if isinstance(s, ast.Delete):
            for t in s.targets:
                if isinstance(t, ast.Subscript):
                    self.subscript(t, store=True)
                else:
                    self.ev_children(t)
            return
        if isinstance(s, ast.Raise):
            self.raise_(s)
            return
        if isinstance(s, ast.Assert):
            self.ev(s.test)
            if self.tainted_in(s.test):
                self.add("AssertionError", s, "assert on untrusted data")
            return
        if isinstance(s, ast.If):
            self.ev(s.test)
            self.block(s.body)
            self.block(s.orelse)
            return
        if isinstance(s, ast.While):
            self.ev(s.test)
            self.block(s.body)
            self.block(s.orelse)
            return
        if isinstance(s, (ast.For, ast.AsyncFor)):
            self.iterate(s.target, s.iter, s)
            self.block(s.body)
            self.block(s.orelse)
            return
        if isinstance(s, (ast.With, ast.AsyncWith)):
            self.with_(s, 0)
            return
        if isinstance(s, ast.Try):
            self.try_(s)
            return
        if isinstance(s, ast.Match):
            self.ev(s.subject)
            ks = self.ev(s.subject)
            for c in s.cases:
                for n in ast.walk(c.pattern):
                    if isinstance(n, (ast.MatchAs, ast.MatchStar)) and n.name:
                        self.bind(ast.Name(id=n.name, ctx=ast.Store()), ks)
                    if isinstance(n, ast.MatchMapping) and n.rest:
                        self.bind(ast.Name(id=n.rest, ctx=ast.Store()), ks)
                if c.guard is not None:
                    self.ev(c.guard)
                self.block(c.body)
            return
        raise AnalysisError(f"mayraise: statement of unmodelled shape in {self.mod.rel}::{self.fn._qual}: {norm(s)[:80]}")

    def assign(self, target, k, value, stmt):
        if isinstance(target, (ast.Tuple, ast.List)):
            if k == "A":
                self.add("ValueError", stmt, "tuple-unpacking of untrusted-structure data")
                self.add("TypeError", stmt, "tuple-unpacking of untrusted-structure data")
            for e in target.elts:
                self.assign(e, k, value, stmt)
            return
        if isinstance(target, ast.Starred):
            self.assign(target.value, k, value, stmt)
            return
        if isinstance(target, ast.Subscript):
            self.subscript(target, store=True)
            return
        if isinstance(target, ast.Attribute):
            kr = self.ev(target.value)
            if kr == "A" and self.eng.cfg.attr_on_any:
                self.add("AttributeError", target, "attribute store on untrusted-type data")
            self.property_access(target, store=True, value_kind=k)
        self.bind(target, k)

    def iterate(self, target, it, node):
        ki = self.ev(it)
        if ki == "A":
            is_items = isinstance(it, ast.Call) and isinstance(it.func, ast.Attribute) and it.func.attr in ("items",) and not it.args
            if not is_items:
                self.add("TypeError", it, "iteration over untrusted-type data")
            if isinstance(target, (ast.Tuple, ast.List)) and not is_items:
                self.add("ValueError", node.target if hasattr(node, "target") else it, "tuple-unpacking of untrusted-structure data")
                self.add("TypeError", node.target if hasattr(node, "target") else it, "tuple-unpacking of untrusted-structure data")
        self.bind(target, ki)
        # attribute / subscript loop targets are not used in the analysed code
        if not isinstance(target, (ast.Name, ast.Tuple, ast.List)):
            raise AnalysisError(f"mayraise: loop target of unmodelled shape: {norm(target)}")

    def raise_(self, s):
        eng = self.eng
        if self.eng.cfg.skip_explicit is not None and self.collecting:
            reason = self.eng.cfg.skip_explicit(self, s)
            if reason:
                eng.discharged[f"{self.mod.rel}::{self.fn._qual} `{norm(s)[:70]}`"] = reason
                return
        if s.exc is None:
            if not self.handling:
                raise AnalysisError(f"mayraise: bare raise outside a handler in {self.mod.rel}::{self.fn._qual}")
            self.cur |= self.handling[-1][1]
            return
        exc = s.exc
        if isinstance(exc, ast.Name):
            for name, caught in reversed(self.handling):
                if name == exc.id:
                    self.cur |= caught
                    return
            # a local holding an exception instance: e = TypeError(...)
            defs = [n for n in _own_nodes(self.fn) if isinstance(n, ast.Assign) and any(isinstance(t, ast.Name) and t.id == exc.id for t in n.targets)]
            if defs:
                if len(defs) != 1 or not isinstance(defs[0].value, ast.Call):
                    raise AnalysisError(f"mayraise: `raise {exc.id}` with an unmodelled definition in {self.mod.rel}::{self.fn._qual}")
                exc = defs[0].value
        if isinstance(exc, ast.Call):
            t = self.resolve_call(exc) if isinstance(exc.func, (ast.Name, ast.Attribute)) else None
            if t is not None and t[0] == "fn" and t[2].name not in ("__init__", "__post_init__", "__new__") and not _is_cm(t[2]):
                # `raise make_error(x)`: the helper runs (its own raisers count) and what it returns is raised
                self.call(exc)
                if s.cause is not None and not isinstance(s.cause, (ast.Name, ast.Constant)):
                    self.ev(s.cause)
                for name in eng.returned_exception_classes(t[1], t[2]):
                    if self.collecting:
                        eng.sites += 1
                        self.cur.add(Esc(name, self.mod.rel, self.fn._qual, norm(s)[:90], f"explicit raise of what {t[2]._qual}() returns", s.lineno))
                return
            for a in exc.args:
                self.ev(a)
            for kw in exc.keywords:
                self.ev(kw.value)
        name = eng.h.canon(self.mod, exc)
        if s.cause is not None and not isinstance(s.cause, (ast.Name, ast.Constant)):
            self.ev(s.cause)
        if self.collecting:
            self.eng.sites += 1
            self.cur.add(Esc(name, self.mod.rel, self.fn._qual, norm(s)[:90], "explicit raise", s.lineno))

    def try_(self, s):
        eng = self.eng
        body = self._sub(s.body)
        handlers = []
        for h in s.handlers:
            if h.type is None:
                names = ["BaseException"]
            else:
                names = eng.handler_names(self.mod, h.type)  # classes, tuples, and module-level constants holding them
            handlers.append((h, names, set()))
        for e in body:
            for h, names, caught in handlers:
                if any(eng.h.isa(e.exc, n) for n in names):
                    caught.add(e)
                    break
            else:
                self.cur.add(e)
        for h, names, caught in handlers:
            if h.name:
                self.bind(ast.Name(id=h.name, ctx=ast.Store()), None)
            self.handling.append((h.name, frozenset(caught)))
            try:
                self.block(h.body)
            finally:
                self.handling.pop()
        self.block(s.orelse)
        self.block(s.finalbody)

    def with_(self, s, i):
        if i == len(s.items):
            self.block(s.body)
            return
        item = s.items[i]
        ce = item.context_expr
        body_thunk = lambda: self._sub_with(s, i + 1)  # noqa: E731
        if isinstance(ce, ast.Call):
            target = self.resolve_call(ce)
            if target and target[0] == "fn" and _is_cm(target[2]):
                _, m2, f2, env2 = target
                for a in ce.args:
                    self.ev(a)
                for kw in ce.keywords:
                    self.ev(kw.value)
                fr = _Frame(self.eng, m2, f2, env2, (m2.rel, f2._qual, _envkey(env2)), yield_body=body_thunk)
                fr.collecting = False
                # kinds inside the context manager: one settle pass with the body contributing nothing
                saved_collect = self.collecting
                self.collecting = False
                fr.settle(stmts_of(f2))
                self.collecting = saved_collect
                if self.collecting:
                    got = fr.collect(stmts_of(f2))
                    for e in got:
                        self.eng.edges.setdefault((self.key, e), (f"with {norm(ce)[:60]}", fr.key))
                    self.cur |= got
                else:
                    self.cur |= body_thunk()
                if item.optional_vars is not None:
                    self.bind(item.optional_vars, None)
                return
            if norm(ce.func) in ("contextlib.suppress", "suppress"):
                names = [n for a in ce.args for n in self.eng.handler_names(self.mod, a.value if isinstance(a, ast.Starred) else a)]
                got = body_thunk()
                self.cur |= {e for e in got if not any(self.eng.h.isa(e.exc, n) for n in names)}
                return
        k = self.ev(ce)
        if item.optional_vars is not None:
            self.bind(item.optional_vars, k)
        self.cur |= body_thunk()

    def _sub_with(self, s, i) -> set:
        saved = self.cur
        self.cur = set()
        self.with_(s, i)
        out, self.cur = self.cur, saved
        return out

    # ---- expressions ------------------------------------------------------------------------------
    def ev_children(self, e):
        k = None
        for c in ast.iter_child_nodes(e):
            if isinstance(c, ast.expr):
                k = join(k, self.ev(c))
        return k

    def ev_load_of(self, target):
        if isinstance(target, ast.Name):
            return self.env.get(target.id)
        if isinstance(target, ast.Attribute):
            ch = attr_chain(target)
            return self.env.get(ch) if ch else self.ev(target.value)
        if isinstance(target, ast.Subscript):
            return self.subscript(target, store=False)
        return None

    def ev(self, e):
        """Kind of the value of ``e``; modelled raisers are recorded on the way."""
        if e is None or isinstance(e, ast.Constant):
            return None
        if isinstance(e, ast.Name):
            return self.env.get(e.id)
        if isinstance(e, ast.Attribute):
            ch = attr_chain(e)
            if ch and ch in self.env:
                return join(self.env[ch], self.property_access(e, store=False, value_kind=None))
            k = self.ev(e.value)
            if k == "A" and self.eng.cfg.attr_on_any:
                self.add("AttributeError", e, "attribute of untrusted-type data")
            kp = self.property_access(e, store=False, value_kind=None)
            return join(k, kp)
        if isinstance(e, ast.Subscript):
            return self.subscript(e, store=False)
        if isinstance(e, ast.Call):
            return self.call(e)
        if isinstance(e, ast.BinOp):
            a, b = self.ev(e.left), self.ev(e.right)
            if "A" in (a, b) and not (isinstance(e.op, ast.Mod) and isinstance(e.left, ast.Constant)):
                self.add("TypeError", e, "operator on untrusted-type data")
            return join(a, b)
        if isinstance(e, ast.UnaryOp):
            k = self.ev(e.operand)
            if isinstance(e.op, ast.Not):
                return None
            if k == "A":
                self.add("TypeError", e, "operator on untrusted-type data")
            return k
        if isinstance(e, ast.BoolOp):
            return join(*[self.ev(v) for v in e.values])
        if isinstance(e, ast.Compare):
            ks = [self.ev(e.left)] + [self.ev(c) for c in e.comparators]
            for i, op in enumerate(e.ops):
                if isinstance(op, (ast.Lt, ast.LtE, ast.Gt, ast.GtE)) and "A" in (ks[i], ks[i + 1]):
                    self.add("TypeError", e, "ordering comparison on untrusted-type data")
                if isinstance(op, (ast.In, ast.NotIn)) and ks[i + 1] == "A":
                    self.add("TypeError", e, "membership test on untrusted-type data")
            return None
        if isinstance(e, ast.IfExp):
            self.ev(e.test)
            return join(self.ev(e.body), self.ev(e.orelse))
        if isinstance(e, (ast.Tuple, ast.List, ast.Set)):
            k = None
            for x in e.elts:
                if isinstance(x, ast.Starred):
                    kx = self.ev(x.value)
                    if kx == "A":
                        self.add("TypeError", x, "unpacking of untrusted-type data")
                else:
                    kx = self.ev(x)
                k = join(k, kx)
            return "V" if k else None  # a display has a trusted structure
        if isinstance(e, ast.Dict):
            k = None
            for kk, vv in zip(e.keys, e.values):
                if kk is None:
                    kx = self.ev(vv)
                    if kx == "A":
                        self.add("TypeError", vv, "unpacking of untrusted-type data")
                    k = join(k, kx)
                else:
                    k = join(k, self.ev(kk), self.ev(vv))
            return "V" if k else None
        if isinstance(e, ast.JoinedStr):
            k = None
            for v in e.values:
                if isinstance(v, ast.FormattedValue):
                    k = join(k, self.ev(v.value))
            return "V" if k else None
        if isinstance(e, ast.FormattedValue):
            return self.ev(e.value)
        if isinstance(e, ast.NamedExpr):
            k = self.ev(e.value)
            self.bind(e.target, k)
            return k
        if isinstance(e, (ast.ListComp, ast.SetComp, ast.GeneratorExp, ast.DictComp)):
            for g in e.generators:
                self.iterate(g.target, g.iter, g)
                for c in g.ifs:
                    self.ev(c)
            if isinstance(e, ast.DictComp):
                k = join(self.ev(e.key), self.ev(e.value))
            else:
                k = self.ev(e.elt)
            return "V" if k else None
        if isinstance(e, ast.Lambda):
            return None  # not executed here
        if isinstance(e, ast.YieldFrom) and self.eng.cfg.yield_from_delegates:
            k = self.ev(e.value)
            self.ret = join(self.ret, k)  # the items of the inner generator are items of this one
            return k
        if isinstance(e, (ast.Await, ast.YieldFrom)):
            return self.ev(e.value)
        if isinstance(e, ast.Yield):
            k = self.ev(e.value) if e.value is not None else None
            self.ret = join(self.ret, k)
            return None
        if isinstance(e, ast.Starred):
            return self.ev(e.value)
        if isinstance(e, ast.Slice):
            return join(self.ev(e.lower), self.ev(e.upper), self.ev(e.step))
        raise AnalysisError(f"mayraise: expression of unmodelled shape in {self.mod.rel}::{self.fn._qual}: {norm(e)[:80]}")

    def subscript(self, e, store: bool):
        kb = self.ev(e.value)
        is_slice = isinstance(e.slice, ast.Slice)
        ki = self.ev(e.slice)
        if kb is None and ki is None:
            return None
        guards = None
        if kb == "A":
            if is_slice:
                self.add("TypeError", e, "slice of untrusted-type data")
            else:
                for x in ("KeyError", "IndexError", "TypeError"):
                    if x == "KeyError":
                        if guards is None:
                            guards = guards_at(e, self.fn)
                        if _membership_guarded(guards, norm(e.slice), norm(e.value)):
                            continue
                    if store and x != "TypeError":
                        continue
                    self.add(x, e, "subscript of untrusted-type data")
            return "A"
        if is_slice:
            return join(kb, ki) and "V"
        # non-slice on V content, or trusted container indexed by an untrusted key
        guards = guards_at(e, self.fn)
        if kb == "V":
            if store and ki is None and not isinstance(e.slice, ast.Constant):
                return "V"
            c = e.slice.value if isinstance(e.slice, ast.Constant) and isinstance(e.slice.value, int) else None
            if c is not None and c >= 0 and _len_lower_bound(guards, norm(e.value)) > c:
                return "V"
            if c is not None and c < 0 and _len_lower_bound(guards, norm(e.value)) >= -c:
                return "V"
            if _membership_guarded(guards, norm(e.slice), norm(e.value)):
                return "V"
            if self.container_kind(e.value) == "dict":
                if not store:
                    self.add("KeyError", e, "lookup in a mapping with untrusted content")
                return "V"
            self.add("IndexError", e, "index into untrusted-length data")
            return "V"
        # trusted container, untrusted key
        if store:
            return None
        if _membership_guarded(guards, norm(e.slice), norm(e.value)):
            return "V"
        # a mapping raises KeyError, a sequence IndexError; both when the kind of the container is not evident
        ck = self.container_kind(e.value)
        if ck is None and self._keyerror_handled_here(e):
            ck = "dict"
        if ck != "seq":
            self.add("KeyError", e, "trusted container indexed by an untrusted key")
        if ck != "dict":
            self.add("IndexError", e, "trusted container indexed by an untrusted key")
        return "V"

    def container_kind(self, e, depth: int = 0):
        """'dict' | 'seq' | None: is the container denoted by ``e`` a mapping (``c[k]`` raises KeyError) or a sequence (IndexError)?
        Evidence, in this order: the annotation of the local / parameter (type aliases resolved), what every binding of the local
        constructs, for ``self.x`` the class-level annotation or every ``self.x = ..`` of the class, for module-level constants their
        single binding, and finally the methods the function calls on it (``.get`` / ``.items`` / ``.setdefault`` .. exist on mappings
        only, ``.append`` / ``.extend`` / ``.sort`` .. on sequences only)."""
        if depth > 5:
            return None
        eng = self.eng
        cache = self.__dict__.setdefault("_ck_cache", {})
        text = norm(e)
        if text in cache:
            return cache[text]
        cache[text] = None
        cache[text] = k = self._container_kind(e, depth)
        return k

    def _container_kind(self, e, depth):
        eng = self.eng
        if isinstance(e, ast.Name) and self._is_local(e.id):
            a = self.fn.args
            anns = [x.annotation for x in a.posonlyargs + a.args + a.kwonlyargs if x.arg == e.id and x.annotation is not None]
            anns += [n.annotation for n in _own_nodes(self.fn) if isinstance(n, ast.AnnAssign) and isinstance(n.target, ast.Name) and n.target.id == e.id]
            kinds = {eng.annotation_container_kind(self.mod, x) for x in anns}
            if len(kinds) == 1 and None not in kinds:
                return kinds.pop()
            is_param = e.id in {x.arg for x in a.posonlyargs + a.args + a.kwonlyargs} or (a.vararg and a.vararg.arg == e.id) or (a.kwarg and a.kwarg.arg == e.id)
            if a.vararg and a.vararg.arg == e.id:
                return "seq"
            if a.kwarg and a.kwarg.arg == e.id:
                return "dict"
            stores = [n for n in _own_nodes(self.fn) if isinstance(n, ast.Name) and n.id == e.id and isinstance(n.ctx, ast.Store)]
            binds = [n for n in _own_nodes(self.fn) if isinstance(n, (ast.Assign, ast.AnnAssign, ast.NamedExpr)) and getattr(n, "value", None) is not None
                     and any(isinstance(t, ast.Name) and t.id == e.id for t in (n.targets if isinstance(n, ast.Assign) else [n.target]))]
            if not is_param and stores and len(stores) == len(binds):
                kinds = {eng.value_container_kind(self.mod, b.value, lambda n, d: self.container_kind(n, d), depth + 1) for b in binds}
                if len(kinds) == 1 and None not in kinds:
                    return kinds.pop()
            return self._usage_container_kind(e)
        if isinstance(e, ast.Name):
            return eng.const_container_kind(self.mod, e, depth + 1)
        if isinstance(e, ast.Attribute):
            ch = attr_chain(e)
            if not ch:
                return None
            if isinstance(e.value, ast.Name) and e.value.id == "self" and self.cls is not None and self._is_local("self"):
                return eng.self_attr_container_kind(self.mod, self.cls, e.attr) or self._usage_container_kind(e)
            if not self._is_local(ch.split(".")[0]):
                return eng.const_container_kind(self.mod, e, depth + 1)
            return self._usage_container_kind(e)
        if isinstance(e, (ast.Dict, ast.DictComp, ast.List, ast.ListComp, ast.Tuple, ast.Call, ast.IfExp, ast.Constant)):
            return eng.value_container_kind(self.mod, e, lambda n, d: self.container_kind(n, d), depth + 1)
        return None

    def _usage_container_kind(self, e):
        text = norm(e)
        seen = set()
        for n in _own_nodes(self.fn):
            if isinstance(n, ast.Call) and isinstance(n.func, ast.Attribute) and norm(n.func.value) == text:
                if n.func.attr in _DICT_ONLY_METHODS:
                    seen.add("dict")
                elif n.func.attr in _SEQ_ONLY_METHODS:
                    seen.add("seq")
        return seen.pop() if len(seen) == 1 else None

    def _keyerror_handled_here(self, node) -> bool:
        """The lookup sits in the body of a ``try`` of this function with a handler naming KeyError itself and none naming IndexError /
        LookupError: the code treats the container as a mapping (used only when nothing else tells the kind of the container)."""
        child, p = node, getattr(node, "_parent", None)
        while p is not None and child is not self.fn:
            if isinstance(p, ast.Try) and any(child is s for s in p.body):
                names = []
                for h in p.handlers:
                    if h.type is not None:
                        try:
                            names += self.eng.handler_names(self.mod, h.type)
                        except AnalysisError:
                            return False
                if "KeyError" in names:
                    return "IndexError" not in names and "LookupError" not in names
            child, p = p, getattr(p, "_parent", None)
        return False

    def property_access(self, e: ast.Attribute, store: bool, value_kind):
        """`self.attr` / `<annotated local>.attr` that is a property of a repository class: analyse it."""
        cls = None
        recv_kind = None
        if isinstance(e.value, ast.Name):
            if e.value.id == "self" and self.cls is not None:
                cls = (self.mod, self.cls)
            elif e.value.id in self.types:
                cls = self.types[e.value.id]
            recv_kind = self.env.get(e.value.id)
        elif isinstance(e.value, ast.Attribute) and attr_chain(e.value) in self.types:  # receiver chain typed by the rule (Config.local_types)
            cls = self.types[attr_chain(e.value)]
            recv_kind = self.env.get(attr_chain(e.value))
        if cls is None:
            return None
        pk = (cls[0].rel, cls[1]._qual, e.attr, store)
        pc = self.eng.__dict__.setdefault("_prop_cache", {})
        if pk not in pc:
            found = None
            for m, c in self.eng.model.mro(cls[0].rel, cls[1]._qual):
                for st in c.body:
                    if isinstance(st, (ast.FunctionDef, ast.AsyncFunctionDef)) and st.name == e.attr:
                        decs = decorators(st)
                        if not store and any(d in ("property", "functools.cached_property", "cached_property") for d in decs):
                            found = (m, st)
                        elif store and f"{e.attr}.setter" in decs:
                            found = (m, st)
                if found or any(isinstance(st, (ast.FunctionDef, ast.AsyncFunctionDef)) and st.name == e.attr for st in c.body):
                    break
            pc[pk] = found
        found = pc[pk]
        if not found:
            return None
        m, f = found
        env2 = {}
        if recv_kind:
            env2["self"] = recv_kind
        if isinstance(e.value, ast.Name) and e.value.id == "self":
            env2.update({k: v for k, v in self.env.items() if k == "self" or k.startswith("self.")})
        if store:
            params = [a.arg for a in f.args.args]
            if len(params) >= 2 and value_kind:
                env2[params[1]] = value_kind
        if not env2:
            # no untrusted data flows in: only explicit raises matter
            pass
        return self.into(m, f, env2, e)

    def _depth_bounded(self, call, f, env2):
        """Accepted idiom for bounded direct recursion: the recursive call passes ``p + c`` (c > 0) for a parameter p that
        never carries untrusted data, under a guard that bounds p by a constant (``if p >= LIMIT: raise`` before the call)."""
        if f is not self.fn or not isinstance(call, ast.Call):
            return None
        params = [a.arg for a in f.args.posonlyargs + f.args.args]
        bound = {}
        for i, a in enumerate(call.args):
            if i < len(params) and not isinstance(a, ast.Starred):
                bound[params[i]] = a
        for kw in call.keywords:
            if kw.arg:
                bound[kw.arg] = kw.value
        for p, a in bound.items():
            if env2.get(p) is not None or self.env.get(p) is not None:
                continue
            if not (isinstance(a, ast.BinOp) and isinstance(a.op, ast.Add) and isinstance(a.left, ast.Name) and a.left.id == p
                    and isinstance(a.right, ast.Constant) and isinstance(a.right.value, int) and a.right.value > 0):
                continue
            for e, v in guards_at(call, self.fn):
                if not (isinstance(e, ast.Compare) and len(e.ops) == 1 and isinstance(e.left, ast.Name) and e.left.id == p):
                    continue
                lim = e.comparators[0]
                is_const = isinstance(lim, ast.Constant) or (isinstance(lim, ast.Name) and not self._is_local(lim.id) and self.mod.assigns(lim.id))
                if not is_const:
                    continue
                op = e.ops[0]
                if (isinstance(op, (ast.GtE, ast.Gt)) and not v) or (isinstance(op, (ast.Lt, ast.LtE)) and v):
                    return f"recursion depth counted in parameter `{p}` and bounded by `{norm(e)}`"
        return None

    def into(self, m, f, env2, node, dispatched=False):
        """Analyse callee ``f`` and import its escapes; returns its return kind.  ``dispatched``: the edge is an
        over-approximation (class-hierarchy / rule-declared dispatch), so a cycle through it is no evidence of recursion."""
        key = (m.rel, f._qual, _envkey(env2))
        eng = self.eng
        if key in eng.stack and any(v for v in env2.values()):
            i = eng.stack.index(key)
            approx = dispatched or any(eng.entry_flag.get(k) for k in eng.stack[i + 1:])
            reason = (eng.cfg.bounded_recursion or {}).get(f"{m.rel}::{f._qual}")
            if not approx and not reason:
                reason = self._depth_bounded(node, f, env2)
            if approx:
                pass
            elif reason:
                eng.discharged[f"{m.rel}::{f._qual} recursion"] = reason
            else:
                self.add("RecursionError", node, f"recursion through {f._qual} whose depth is driven by untrusted data")
        elif key not in eng.stack:
            eng.entry_flag[key] = dispatched
        s = eng.summ(m, f, env2)
        if self.collecting:
            mark = (self.key, key, len(s.escapes))
            if mark not in eng._edge_done:
                eng._edge_done.add(mark)
                text = norm(node)[:70]
                for x in s.escapes:
                    eng.edges.setdefault((self.key, x), (text, key))
            self.cur |= s.escapes
        return s.ret

    # ---- calls ------------------------------------------------------------------------------------
    def arg_kinds(self, call):
        pos, kw, star, dstar = [], {}, None, None
        for a in call.args:
            if isinstance(a, ast.Starred):
                k = self.ev(a.value)
                if k == "A":
                    self.add("TypeError", call, "f(*x) with untrusted-structure x")
                star = join(star, k)
            else:
                pos.append(self.ev(a))
        for k_ in call.keywords:
            k = self.ev(k_.value)
            if k_.arg is None:
                if k == "A":
                    self.add("TypeError", call, "f(**x) with untrusted-structure x")
                dstar = join(dstar, k)
            else:
                kw[k_.arg] = k
        return pos, kw, star, dstar

    def bind_params(self, f, pos, kw, star, dstar, skip_first: bool, recv_kind=None, carry_self=False):
        env2 = {}
        a = f.args
        params = [x.arg for x in a.posonlyargs + a.args]
        if skip_first and params:
            first = params[0]
            params = params[1:]
            if recv_kind:
                env2[first] = recv_kind
            if carry_self and first == "self":
                env2.update({k: v for k, v in self.env.items() if k.startswith("self.") and v})
        for i, p in enumerate(params):
            k = None
            if i < len(pos):
                k = pos[i]
            elif p in kw:
                k = kw[p]
            else:
                k = join(star, dstar)
            if k:
                env2[p] = k
        if a.vararg is not None:
            k = join(star, *pos[len(params):]) if len(pos) > len(params) or star else None
            if k:
                env2[a.vararg.arg] = k
        for x in a.kwonlyargs:
            k = kw.get(x.arg, dstar)
            if k:
                env2[x.arg] = k
        if a.kwarg is not None:
            extra = [v for n, v in kw.items() if n not in params and n not in [x.arg for x in a.kwonlyargs]]
            k = join(dstar, *extra)
            if k:
                env2[a.kwarg.arg] = k
        return env2

    def _nested_def(self, name):
        cache = self.fn.__dict__.setdefault("_nested_cache", {})
        if name in cache:
            return cache[name]
        found = None
        f = self.fn
        while f is not None and found is None:
            todo = list(ast.iter_child_nodes(f))
            while todo:
                n = todo.pop()
                if isinstance(n, (ast.FunctionDef, ast.AsyncFunctionDef)):
                    if n.name == name and n is not f:
                        found = n
                        break
                    continue
                if isinstance(n, (ast.ClassDef, ast.Lambda)):
                    continue
                todo.extend(ast.iter_child_nodes(n))
            f = enclosing_func(f)
        cache[name] = found
        return found

    def _is_local(self, name) -> bool:
        loc = getattr(self.fn, "_locals_cache", None)
        if loc is None:
            a = self.fn.args
            loc = {x.arg for x in a.posonlyargs + a.args + a.kwonlyargs}
            if a.vararg:
                loc.add(a.vararg.arg)
            if a.kwarg:
                loc.add(a.kwarg.arg)
            for n in _own_nodes(self.fn):
                if isinstance(n, ast.Name) and isinstance(n.ctx, ast.Store):
                    loc.add(n.id)
            self.fn._locals_cache = loc
        return name in loc

    def is_logger(self, e, _depth=0) -> bool:
        """``e`` denotes the stdlib ``logging`` module or a ``logging.Logger``: the imported module itself, ``logging.getLogger(..)``,
        ``<logger>.getChild(..)``, or a module-level name (of this module, or imported from a repository module) whose every binding in
        its module is such an expression.  Locals, attributes of objects and anything rebound elsewhere are not loggers."""
        if _depth > 4:
            return False
        mod = self.mod
        if isinstance(e, ast.Call) and isinstance(e.func, ast.Attribute):
            if e.func.attr == "getLogger":
                return self.eng.resolved_dotted(mod, e.func) == "logging.getLogger" and not self._is_local(attr_chain(e.func).split(".")[0])
            if e.func.attr == "getChild":
                return self.is_logger(e.func.value, _depth + 1)
            return False
        if isinstance(e, ast.Call) and isinstance(e.func, ast.Name):
            return mod.imports.get(e.func.id) == "logging.getLogger" and not self._is_local(e.func.id)
        if not isinstance(e, ast.Name) or self._is_local(e.id):
            return False
        if mod.imports.get(e.id) == "logging":
            return True
        return _module_logger(self.eng, mod, e.id, _depth)

    def _method_kind(self, f):
        decs = decorators(f)
        if "staticmethod" in decs:
            return "static"
        if "classmethod" in decs:
            return "class"
        return "inst"

    def constructor(self, m, c):
        """-> list of ('fn', Module, FunctionDef) to analyse when class ``c`` is instantiated (may be empty)."""
        model = self.eng.model
        out = []
        r = model.method(m.rel, c._qual, "__init__")
        if r is not None:
            out.append(r)
        else:
            r = model.method(m.rel, c._qual, "__post_init__")
            if r is not None:
                out.append(r)
        return out

    def resolve_call(self, call):
        """('fn', Module, FunctionDef, env2) | ('multi', [(Module, FunctionDef, env2)...]) | ('raises', excs, kind) | None"""
        eng, model = self.eng, self.eng.model
        saved = self.collecting
        # argument kinds are computed by the caller (self.call); here only for the binding
        self.collecting = False
        try:
            pos, kw, star, dstar = self.arg_kinds(call)
        finally:
            self.collecting = saved
        f = call.func

        def mk(m, fn_, skip, recv=None, carry=False):
            return ("fn", m, fn_, self.bind_params(fn_, pos, kw, star, dstar, skip, recv, carry))

        def for_class(m, c):
            ts = self.constructor(m, c)
            if not ts:
                return ("raises", (), "V" if any([*pos, *kw.values(), star, dstar]) else None)
            m2, f2 = ts[0]
            recv = "V" if any([*pos, *kw.values(), star, dstar]) and f2.name == "__post_init__" else None
            return mk(m2, f2, True, recv)

        if isinstance(f, ast.Name):
            nd = self._nested_def(f.id)
            if nd is not None:
                env2 = dict(self.env)
                env2.update(self.bind_params(nd, pos, kw, star, dstar, False))
                return ("fn", self.mod, nd, env2)
            if f.id == "cls" and self.cls is not None and self._is_local("cls"):
                return for_class(self.mod, self.cls)
            if self._is_local(f.id):
                return None
            r = model.resolve_name(self.mod, f)
            if r is not None:
                if isinstance(r[1], ast.ClassDef):
                    return for_class(*r)
                return mk(r[0], r[1], False)
            return None
        if isinstance(f, ast.Attribute):
            v = f.value
            # super().m(...)
            if isinstance(v, ast.Call) and isinstance(v.func, ast.Name) and v.func.id == "super" and self.cls is not None:
                mro = model.mro(self.mod.rel, self.cls._qual)[1:]
                for m, c in mro:
                    for st in c.body:
                        if isinstance(st, (ast.FunctionDef, ast.AsyncFunctionDef)) and st.name == f.attr:
                            return mk(m, st, self._method_kind(st) != "static", self.env.get("self"), carry=True)
                return None
            if isinstance(v, ast.Name) and v.id in ("self", "cls") and self.cls is not None and self._is_local(v.id):
                r = model.method(self.mod.rel, self.cls._qual, f.attr)
                if r is not None:
                    return mk(r[0], r[1], self._method_kind(r[1]) != "static", self.env.get(v.id), carry=(v.id == "self"))
                return None
            if isinstance(v, ast.Name) and v.id in self.types and not self.env.get(v.id) == "A":
                tm, tc = self.types[v.id]
                r = model.method(tm.rel, tc._qual, f.attr)
                if r is not None:
                    return mk(r[0], r[1], self._method_kind(r[1]) != "static", self.env.get(v.id))
            vch = attr_chain(v) if isinstance(v, ast.Attribute) else None
            if vch and vch in self.types and not self.env.get(vch) == "A":  # receiver chain typed by the rule (Config.local_types)
                tm, tc = self.types[vch]
                r = model.method(tm.rel, tc._qual, f.attr)
                if r is not None:
                    return mk(r[0], r[1], self._method_kind(r[1]) != "static", self.env.get(vch))
            ch = attr_chain(f)
            if ch and not self._is_local(ch.split(".")[0]):
                r = model.resolve_name(self.mod, f)
                if r is not None:
                    if isinstance(r[1], ast.ClassDef):
                        return for_class(*r)
                    fn_ = r[1]
                    owner = getattr(fn_, "_parent", None)
                    if isinstance(owner, ast.ClassDef):
                        kind = self._method_kind(fn_)
                        return mk(r[0], fn_, kind == "class")
                    return mk(r[0], fn_, False)
        return None

    def _table_entries(self, name, _depth=0):
        """Value nodes (Names) of the module-level dict display bound to ``name``; ``**OTHER`` / ``A | B`` of further such tables are expanded.
        None when ``name`` is not such a table."""
        vals = self.mod.assigns(name)
        if not vals or _depth > 4:
            return None

        def of(e):
            if isinstance(e, ast.Dict) and e.values:
                out = []
                for k, v in zip(e.keys, e.values):
                    if k is None:
                        sub = self._table_entries(v.id, _depth + 1) if isinstance(v, ast.Name) and not self._is_local(v.id) else None
                        if sub is None:
                            return None
                        out.extend(sub)
                    elif isinstance(v, ast.Name):
                        out.append(v)
                    else:
                        return None
                return out
            if isinstance(e, ast.BinOp) and isinstance(e.op, ast.BitOr):
                a, b = of(e.left), of(e.right)
                return None if a is None or b is None else a + b
            if isinstance(e, ast.Name) and not self._is_local(e.id):
                return self._table_entries(e.id, _depth + 1)
            return None

        got = of(vals[-1])
        if got is None and _depth == 0 and name not in self.mod.imports:
            # tables built by comprehension over another table, dict(..) calls ...: the engine's structural evaluation
            r = self.eng.table_items(self.mod, name)
            if r is not None and r[0] is self.mod and r[1] and all(isinstance(v, ast.Name) for _, v in r[1]):
                got = [v for _, v in r[1]]
        elif got is not None and _depth == 0 and name not in self.mod.imports:
            # entries added after the display: `TABLE[k] = f` at module level, registration functions / decorators
            reg = self.eng.registered_items(self.mod, name)
            if reg is None:
                raise AnalysisError(f"mayraise: the dispatch table {name} of {self.mod.rel} is also filled in a way that is not modelled")
            for _, v in reg:
                if not isinstance(v, ast.Name):
                    raise AnalysisError(f"mayraise: the dispatch table {name} of {self.mod.rel} gets an entry of unmodelled shape: {norm(v)[:60]}")
                got.append(v)
        return got

    def _dispatch_table(self, f):
        """Name of the module-level table when the callee expression ``f`` is ``TABLE[key]`` or a local bound exactly once (in this function)
        to ``TABLE[key]`` / ``TABLE.get(key[, default])``; None otherwise."""

        def table_of(e):
            if isinstance(e, ast.Subscript) and isinstance(e.value, ast.Name) and not self._is_local(e.value.id):
                return e.value.id
            if isinstance(e, ast.Call) and isinstance(e.func, ast.Attribute) and e.func.attr == "get" and isinstance(e.func.value, ast.Name) \
                    and not self._is_local(e.func.value.id) and 1 <= len(e.args) <= 2:
                return e.func.value.id
            return None

        if isinstance(f, ast.Subscript):
            return table_of(f)
        if isinstance(f, ast.Name) and self._is_local(f.id) and self._nested_def(f.id) is None:
            binds = [n for n in _own_nodes(self.fn) if isinstance(n, (ast.Assign, ast.AnnAssign, ast.NamedExpr)) and getattr(n, "value", None) is not None
                     and any(isinstance(t, ast.Name) and t.id == f.id for t in (n.targets if isinstance(n, ast.Assign) else [n.target]))]
            stores = [n for n in _own_nodes(self.fn) if isinstance(n, ast.Name) and n.id == f.id and isinstance(n.ctx, ast.Store)]
            params = {a.arg for a in self.fn.args.posonlyargs + self.fn.args.args + self.fn.args.kwonlyargs}
            if len(binds) == 1 and len(stores) == 1 and f.id not in params:
                return table_of(binds[0].value)
        return None

    def call(self, call):
        eng = self.eng
        f = call.func
        # the callee expression itself (receiver, subscripted tables ...)
        recv_kind = None
        if isinstance(f, ast.Attribute):
            recv_kind = self.ev(f.value)
        elif not isinstance(f, ast.Name):
            self.ev(f)
        pos, kw, star, dstar = self.arg_kinds(call)
        tainted = any([recv_kind, star, dstar, *pos, *kw.values()])
        targets = None
        approx = False
        dyn = eng.cfg.dynamic(self, call) if eng.cfg.dynamic is not None else None
        if dyn is not None:
            approx = True
            if dyn and dyn[0] == "raises":
                for x in dyn[1]:
                    self.add(x, call, "declared by the rule for this dynamic call")
                return join(recv_kind, star, dstar, *pos, *kw.values()) if dyn[2] == "join" else dyn[2]
            targets = []
            for rel, qual in dyn:
                m = eng.model.module(rel)
                d = m.get(qual)
                if isinstance(d, ast.ClassDef):
                    for m2, f2 in self.constructor(m, d):
                        targets.append((m2, f2, self.bind_params(f2, pos, kw, star, dstar, True, "V" if tainted and f2.name == "__post_init__" else None)))
                else:
                    f2 = eng.model.func(rel, qual)
                    skip = isinstance(getattr(f2, "_parent", None), ast.ClassDef) and self._method_kind(f2) != "static" and isinstance(f, ast.Attribute)
                    targets.append((m, f2, self.bind_params(f2, pos, kw, star, dstar, skip, recv_kind)))
        tbl = self._dispatch_table(f) if targets is None else None
        if tbl is not None:
            # dispatch through a module-level literal table of functions: TABLE[key](...), or a local bound once to TABLE[key] / TABLE.get(key)
            entries = self._table_entries(tbl)
            if entries:
                targets = []
                for v in entries:
                    r = eng.model.resolve_name(self.mod, v)
                    if r is None or not isinstance(r[1], (ast.FunctionDef, ast.AsyncFunctionDef)):
                        vals = eng.callable_values(self.mod, self.fn, f)  # builtins (int / float ...), classes, externals as entries
                        if vals:
                            return self._call_values(call, vals, pos, kw, star, dstar, tainted)
                        raise AnalysisError(f"mayraise: table {tbl} holds a non-function {v.id}")
                    targets.append((r[0], r[1], self.bind_params(r[1], pos, kw, star, dstar, False)))
        if targets is None and ((isinstance(f, ast.Name) and self._is_local(f.id) and self._nested_def(f.id) is None) or isinstance(f, (ast.Subscript, ast.IfExp))):
            # a local / parameter holding a callable: the builtins, repository functions or table entries it can denote
            vals = eng.callable_values(self.mod, self.fn, f)
            if vals:
                return self._call_values(call, vals, pos, kw, star, dstar, tainted)
        if targets is None:
            # struct
            sk = self.struct_call(call, recv_kind, tainted)
            if sk is not NotImplemented:
                return sk
            t = self.resolve_call(call)
            if t is not None:
                if t[0] == "raises":
                    return t[2]
                targets = [(t[1], t[2], t[3])]
        if targets is None and isinstance(f, ast.Attribute) and f.attr in (eng.cfg.dispatch or {}):
            targets = []
            approx = True
            for rel, qual in eng.cfg.dispatch[f.attr]:
                m = eng.model.module(rel)
                f2 = eng.model.func(rel, qual)
                targets.append((m, f2, self.bind_params(f2, pos, kw, star, dstar, self._method_kind(f2) != "static", recv_kind)))
        if targets is not None:
            k = None
            for m, f2, env2 in targets:
                if _is_cm(f2):
                    continue
                k = join(k, self.into(m, f2, env2, call, dispatched=approx))
            # constructing an object: the result is an object of a trusted type
            if targets and targets[0][1].name in ("__init__", "__post_init__"):
                return "V" if tainted else None
            return k
        # builtin functions / methods of builtin types / externals
        if isinstance(f, ast.Name) and not self._is_local(f.id) and f.id not in self.mod.imports:
            obj = getattr(builtins, f.id, None)
            if isinstance(obj, type) and issubclass(obj, BaseException):
                return None  # constructing an exception object raises nothing
        if isinstance(f, ast.Name) and not self._is_local(f.id) and f.id in BUILTIN_CALLS and f.id not in self.mod.imports:
            return self.builtin_call(call, pos, kw, star, dstar)
        if isinstance(f, ast.Name) and f.id in ("getattr", "setattr") and not self._is_local(f.id):
            return self.getsetattr(call, pos)
        dotted = eng.resolved_dotted(self.mod, f)
        for name in (dotted, attr_chain(f) or ""):
            if name and name in eng.ext:
                excs, kind = eng.ext[name]
                if tainted:
                    for x in excs:
                        self.add(x, call, f"{name} on untrusted data")
                allk = join(recv_kind, star, dstar, *pos, *kw.values())
                return allk if kind == "join" else (kind if tainted else None)
        if isinstance(f, ast.Attribute):
            km = self.method_call(call, recv_kind, pos, kw)
            if km is not NotImplemented:
                return km
            if ("." + f.attr) in eng.ext:
                excs, kind = eng.ext["." + f.attr]
                if tainted:
                    for x in excs:
                        self.add(x, call, f".{f.attr} on untrusted data")
                allk = join(recv_kind, star, dstar, *pos, *kw.values())
                return allk if kind == "join" else (kind if tainted else None)
        if not tainted:
            return None
        if isinstance(f, ast.Attribute) and f.attr in LOGGING_METHODS and self.is_logger(f.value):
            # logging.debug(...) / <module logger>.debug("...%r", untrusted): the arguments were evaluated above; the logging package
            # formats lazily and swallows formatting errors (Handler.handleError only prints), the call returns None
            return None
        if isinstance(f, ast.Attribute) and isinstance(f.value, ast.Name):
            # `obj.method(..)` where every binding of obj (a local, or a module global) constructs an instance of one repository class
            rc = self._constructed_class(f.value.id)
            r = eng.model.method(rc[0].rel, rc[1]._qual, f.attr) if rc is not None else None
            if r is not None and not _is_cm(r[1]):
                return self.into(r[0], r[1], self.bind_params(r[1], pos, kw, star, dstar, self._method_kind(r[1]) != "static", recv_kind), call)
        if eng.cfg.strict:
            raise AnalysisError(
                f"mayraise: call on untrusted data that is neither resolved nor in the tables: {self.mod.rel}::{self.fn._qual} `{norm(call)[:90]}`"
            )
        eng.unmodelled.add(f"{self.mod.rel}::{self.fn._qual} `{norm(call)[:90]}`")
        return join(recv_kind, star, dstar, *pos, *kw.values())

    def _constructed_class(self, name: str):
        """(Module, ClassDef) when every binding of ``name`` - a local of this function, or a module global (its module-level bindings and
        those in functions declaring it ``global``) - is a constructor call ``Cls(..)`` of one repository class; None otherwise."""
        mod, model = self.mod, self.eng.model
        is_global = any(isinstance(n, ast.Global) and name in n.names for n in _own_nodes(self.fn)) or not self._is_local(name)
        vals = []
        if is_global:
            if name in mod.imports or mod.get(name) is not None:
                return None
            vals = list(mod.assigns(name))
            stores = sum(1 for n in _own_nodes(mod.tree) if isinstance(n, ast.Name) and n.id == name and isinstance(n.ctx, (ast.Store, ast.Del)))
            if not vals or stores != len(vals):
                return None
            for g in ast.walk(mod.tree):
                if isinstance(g, (ast.FunctionDef, ast.AsyncFunctionDef)) and any(isinstance(n, ast.Global) and name in n.names for n in _own_nodes(g)):
                    st = [n for n in _own_nodes(g) if isinstance(n, ast.Name) and n.id == name and isinstance(n.ctx, (ast.Store, ast.Del))]
                    bs = [n.value for n in _own_nodes(g) if isinstance(n, ast.Assign) and len(n.targets) == 1 and isinstance(n.targets[0], ast.Name) and n.targets[0].id == name]
                    if len(st) != len(bs):
                        return None
                    vals += bs
        else:
            a = self.fn.args
            if name in {x.arg for x in a.posonlyargs + a.args + a.kwonlyargs} or (a.vararg and a.vararg.arg == name) or (a.kwarg and a.kwarg.arg == name):
                return None
            st = [n for n in _own_nodes(self.fn) if isinstance(n, ast.Name) and n.id == name and isinstance(n.ctx, (ast.Store, ast.Del))]
            vals = [n.value for n in _own_nodes(self.fn) if isinstance(n, ast.Assign) and len(n.targets) == 1 and isinstance(n.targets[0], ast.Name) and n.targets[0].id == name]
            if not vals or len(st) != len(vals):
                return None
        found = None
        for v in vals:
            if not (isinstance(v, ast.Call) and attr_chain(v.func)):
                return None
            r = model.resolve_name(mod, v.func)
            if r is None or not isinstance(r[1], ast.ClassDef) or (found is not None and found[1] is not r[1]):
                return None
            found = r
        return found

    def _call_values(self, call, vals, pos, kw, star, dstar, tainted):
        """The call of a callable value that denotes one of ``vals`` (MayRaise.callable_values): the union of the callees' behaviour."""
        eng = self.eng
        k = None
        allk = join(star, dstar, *pos, *kw.values())
        for v in vals:
            if v[0] == "none":
                continue  # calling None: the code guards it (`if f is not None`) - a TypeError on trusted data is not modelled anywhere
            if v[0] == "builtin":
                if v[1] in BUILTIN_CALLS:
                    k = join(k, self.builtin_call(call, pos, kw, star, dstar, name=v[1]))
                continue  # exception classes: constructing one raises nothing
            if v[0] == "ext":
                excs, kind = eng.ext[v[1]]
                if tainted:
                    for x in excs:
                        self.add(x, call, f"{v[1]} on untrusted data")
                k = join(k, allk if kind == "join" else (kind if tainted else None))
                continue
            if v[0] == "cls":
                ts = self.constructor(v[1], v[2])
                for m2, f2 in ts:
                    self.into(m2, f2, self.bind_params(f2, pos, kw, star, dstar, True, "V" if tainted and f2.name == "__post_init__" else None), call, dispatched=True)
                k = join(k, "V" if tainted else None)
                continue
            _, m2, f2 = v
            if _is_cm(f2):
                continue
            if enclosing_func(f2) is not None and m2 is self.mod:
                env2 = dict(self.env)
                env2.update(self.bind_params(f2, pos, kw, star, dstar, False))
            else:
                skip = isinstance(getattr(f2, "_parent", None), ast.ClassDef) and self._method_kind(f2) == "class"
                env2 = self.bind_params(f2, pos, kw, star, dstar, skip)
            k = join(k, self.into(m2, f2, env2, call, dispatched=len(vals) > 1))
        return k

    def struct_call(self, call, recv_kind, tainted):
        f = call.func
        if not isinstance(f, ast.Attribute):
            return NotImplemented
        meth = f.attr
        is_mod = isinstance(f.value, ast.Name) and self.mod.imports.get(f.value.id) == "struct" and not self._is_local(f.value.id)
        fmt = None if is_mod else self.eng.struct_format(self.mod, f.value)
        if not is_mod and fmt is None:
            return NotImplemented
        if meth in ("unpack", "unpack_from", "iter_unpack", "pack", "pack_into"):
            if tainted:
                d = self.eng.cfg.discharge
                self.add("struct.error", call, f"struct {meth} on untrusted data")
            return "V" if tainted else None
        if meth in ("calcsize", "Struct"):
            return None
        return NotImplemented

    def builtin_call(self, call, pos, kw, star, dstar, name=None):
        name = name or call.func.id
        on_v, on_a, res = BUILTIN_CALLS[name]
        allk = join(star, dstar, *pos, *kw.values())
        if name == "str" and len(call.args) >= 2 and allk:
            self._decode_like(call, call.args[1], None, "decode")
            return "V"
        if name == "int" and len(call.args) >= 1 and pos and pos[0] is None:
            allk = None  # int(<trusted>, base)
        if allk == "A":
            for x in on_a:
                self.add(x, call, f"{name}() on untrusted-type data")
        elif allk == "V":
            for x in on_v:
                self.add(x, call, f"{name}() on untrusted content")
        if res == "join":
            return allk
        return res if allk else None

    def _decode_like(self, call, enc_node, errors_node, meth):
        enc = enc_node.value if isinstance(enc_node, ast.Constant) else ("utf-8" if enc_node is None else None)
        errors = errors_node.value if isinstance(errors_node, ast.Constant) else ("strict" if errors_node is None else None)
        if errors in LENIENT_DECODE:
            return
        if enc is not None and isinstance(enc, str) and enc.lower() == "idna":
            self.add("UnicodeError", call, f".{meth}('idna') on untrusted content (raises plain UnicodeError)")
        elif meth == "decode":
            self.add("UnicodeDecodeError", call, ".decode() on untrusted content")
        else:
            self.add("UnicodeEncodeError", call, ".encode() on untrusted content")

    def method_call(self, call, recv_kind, pos, kw):
        f = call.func
        meth = f.attr
        argk = join(*pos, *kw.values())
        if recv_kind is None and argk is None:
            return None
        if recv_kind == "A" and self.eng.cfg.attr_on_any:
            self.add("AttributeError", call, f".{meth}() on untrusted-type data")
        if meth in ("decode", "encode") and recv_kind:
            enc = call.args[0] if call.args else next((k.value for k in call.keywords if k.arg == "encoding"), None)
            err = call.args[1] if len(call.args) > 1 else next((k.value for k in call.keywords if k.arg == "errors"), None)
            self._decode_like(call, enc, err, meth)
            return "V"
        if meth == "pop":
            has_default = len(call.args) >= 2 or any(k.arg == "default" for k in call.keywords)
            guards = guards_at(call, self.fn)
            guarded = bool(call.args) and _membership_guarded(guards, norm(call.args[0]), norm(f.value))
            if recv_kind == "A":
                if not has_default and not guarded:
                    self.add("KeyError", call, ".pop(k) without default on untrusted data")
                    self.add("IndexError", call, ".pop(i) on untrusted data")
                return "A"
            if not has_default and not guarded and (argk or recv_kind):
                ck = self.container_kind(f.value) if isinstance(f.value, (ast.Name, ast.Attribute)) else None
                if call.args and ck != "seq":
                    self.add("KeyError", call, ".pop(k) without default, untrusted key")
                if ck != "dict":
                    self.add("IndexError", call, ".pop() on untrusted-length data")
            return join(recv_kind, argk) and "V"
        if meth in ("index", "remove") and (recv_kind or argk):
            self.add("ValueError", call, f".{meth}() on untrusted content")
            return "V"
        if self.eng.cfg.taint_through_mutation and argk and meth in ("extend", "append", "appendleft", "add", "update", "insert", "write") \
                and isinstance(f.value, (ast.Name, ast.Attribute)) and attr_chain(f.value):
            self.bind(f.value, join(recv_kind, "V"))  # the container now holds untrusted content (flow-insensitive, settles over the passes)
        if meth in SAFE_METHODS or meth in self.eng.cfg.safe_methods:
            if recv_kind == "A" and meth in ("get", "items", "keys", "values", "copy", "setdefault"):
                return "A"
            return "A" if recv_kind == "A" else "V"
        if recv_kind == "A":
            return "A"  # AttributeError recorded above; whatever the method does is the object's business
        return NotImplemented

    def getsetattr(self, call, pos):
        name = call.func.id
        if name == "getattr":
            if len(call.args) == 2 and any(pos):
                self.add("AttributeError", call, "getattr without default on untrusted data")
            return join(*pos)
        # setattr(obj, k, v): property setters of an annotated local, k ranging over a guarding literal list
        obj, k, v = call.args
        if ((isinstance(obj, ast.Name) and obj.id in self.types) or (isinstance(obj, ast.Attribute) and attr_chain(obj) in self.types)) and isinstance(k, ast.Name):
            names = None
            for e, val in guards_at(call, self.fn):
                if val and isinstance(e, ast.Compare) and len(e.ops) == 1 and isinstance(e.ops[0], ast.In) and norm(e.left) == k.id \
                        and isinstance(e.comparators[0], (ast.List, ast.Tuple, ast.Set)):
                    names = [x.value for x in e.comparators[0].elts if isinstance(x, ast.Constant)]
            if names is None:
                names = bounded_strings(call, self.fn, k.id, self.mod)  # `k == "a" or k == "b"`, `match k: case "a" | "b"`, `k in TABLE`
            if names is None:
                raise AnalysisError(f"mayraise: setattr with an unbounded attribute name: {norm(call)}")
            for n in names:
                fake = ast.Attribute(value=obj, attr=n, ctx=ast.Store())
                self.property_access(fake, store=True, value_kind=pos[2])
            return None
        if any(pos[1:]) and self.eng.cfg.strict and not (isinstance(obj, ast.Name) and obj.id == "self"):
            raise AnalysisError(f"mayraise: setattr of untrusted data on an untyped object: {self.mod.rel}::{self.fn._qual} `{norm(call)}`")
        return None


# ---------------------------------------------------------------------------------------------------
# class-hierarchy helpers for the rules (cheap: only modules whose text mentions the needle are parsed)


def modules_mentioning(model, needle, sub: str = "mitmproxy", exclude=("mitmproxy/contrib/",)):
    out = []
    for p in sorted((model.repo / sub).rglob("*.py")):
        rel = p.relative_to(model.repo).as_posix()
        if any(rel.startswith(x) for x in exclude):
            continue
        try:
            text = model.source(rel)
        except AnalysisError:
            continue
        if hasattr(needle, "search"):
            hit = needle.search(text) is not None
        else:
            hit = any(n in text for n in ((needle,) if isinstance(needle, str) else needle))
        if hit:
            out.append(model.module(rel))
    return out


def subclasses_of(model, base: str, needle: str | None = None):
    """[(Module, ClassDef)] of classes having a class named ``base`` among their proper ancestors; only modules whose
    source mentions ``needle`` (default: the base name) are considered."""
    out = []
    import re

    for m in modules_mentioning(model, needle or re.compile(r"^\s*class\s+\w+\s*\([^)]*\b" + re.escape(base) + r"\b", re.M)):
        for q, d in m.defs().items():
            if isinstance(d, ast.ClassDef):
                anc = [c.name for _, c in model.mro(m.rel, q)[1:]]
                if base in anc:
                    out.append((m, d))
    return out


def implementors(model, base: str, method: str):
    """[(rel, 'Class.method')] for every subclass of ``base`` that defines ``method`` itself."""
    out = []
    for m in modules_mentioning(model, f"def {method}"):
        for q, d in m.defs().items():
            if isinstance(d, ast.ClassDef) and any(isinstance(st, (ast.FunctionDef, ast.AsyncFunctionDef)) and st.name == method for st in d.body):
                anc = [c.name for _, c in model.mro(m.rel, q)[1:]]
                if base in anc:
                    out.append((m.rel, f"{q}.{method}"))
    return sorted(set(out))
