"""C52 - server replay serves recorded responses only to matching requests, in order.

Every clause is decided by INTERPRETING the addon's own methods (mitmproxy/addons/serverplayback.py, pyint - nothing is imported or run)
in concrete worlds and comparing what they do with a reference model written from the property text. No rule matches statement shapes:
renamed locals, early returns, extracted helpers, comprehensions, match statements, added assertions / counters / annotations are
interpreted like the original.

  R52.1 option/key agreement: the options ``_hash`` reads (logged while it is interpreted over the whole R52.2 domain, plus the
        ``ctx.options.*`` reads in everything reachable from it) are exactly HASH_OPTIONS; for every member of HASH_OPTIONS, ``configure``
        called with that option in ``updated`` re-indexes the remaining recordings (widening and narrowing histories: recordings loaded
        under the old option value, 0-1 served, option changed, configure(updated), then every new key is drained and compared with the
        reference); an unrelated update loses nothing; every option the addon reads is registered in ``load``.
  R52.2 key composition: ``_hash`` is interpreted for 23 concrete requests (a base request and variants differing in exactly one
        component: scheme, method, path, query name / value / blank value, ignored query parameter, host, port, content, configured /
        other header, (repeated / ignored) urlencoded and multipart form fields) in all 64 cells of (ignore_content, ignore_payload_params,
        ignore_host, ignore_port, ignore_params, use_headers). Two requests must get the same digest exactly when the reference key of the
        property is the same: scheme, method and path always; content unless ignore_content - as non-ignored multipart / urlencoded form
        fields when ignore_payload_params is set and the request has such a form; host unless ignore_host; port unless ignore_port; the
        configured headers; every query pair (name and value, blank values kept) whose name is not in ignore_params.
  R52.3 serving discipline on histories: 6 recorded sets (complete, response-less before / between complete recordings, only
        response-less, interleaved keys, empty) x 5 request sequences x {non-reuse, reuse, nopop} through next_flow, and through the
        ``request`` hook (observing flow.response / is_replay / kill): every request gets the first not-yet-served recording of its key that
        has a response (reuse: the first one, never consumed); ``request``: 32 cells recorded / kill / status / forward, inactive while
        nothing is loaded. Re-index: 6 recorded sets whose keys split / merge / cross / swap under an option change x 0-2 recordings served
        before it: after recompute_hashes the addon's own count is unchanged, every remaining recording is served exactly once and only
        for its own new key, recordings of one old key in order.
  R52.4 after a re-index the recordings that share a new key are served in recording order. Today they are served grouped by old key:
        KNOWN FINDING F-C52 (findings/F-C52/repro.py), not fixed; any other order is a new finding.
The keys in the histories are real: recordings and requests are concrete, key A / key B of a recording are realised by the host (matched
while ignore_host is off) and the content (matched while ignore_content is off), resp. by the component the changed option governs.
Generator expressions are interpreted lazily (a snapshot consumed after the map was rebound is fine, after an in-place clear it is not).
The mechanisms are found by what they do (``discover``: key function = the method whose result for a recording is its key in the index,
serving function = the method the request hook calls with the request and that returns the recording, loader = the ``replay.server``
command; the re-index is triggered through configure(updated) when recompute_hashes is not there), with _hash / next_flow / load_flows as
fall-backs.  ``configure``, ``load`` and ``request`` are the addon hooks.
NOT decided: hash collisions, the form / query parsers, response.refresh(), order of query parameters.
"""

from __future__ import annotations

import ast
import collections
import hashlib
import itertools
import urllib
import urllib.parse

from ..core import AnalysisError
from ..model import attr_chain
from ..model import last_attr
from ..pyint import ClassRef
from ..pyint import Func
from ..pyint import Interp
from ..pyint import NullLog
from ..pyint import Raised
from ..pyint import Rec
from ..selftest import Mutant

PROP = "C52"
REG = {
    "strength": "partial",
    "technique": "AST interpretation (pyint) of _hash over 64 option cells x 23 concrete requests against a reference key; of load / "
    "configure / next_flow / request / load_flows / add_flows / recompute_hashes on request and option-change histories against a "
    "reference model of the property; registry agreement (options read vs HASH_OPTIONS vs load)",
    "claim": "the replay key contains exactly the request components the options ask for, option changes that affect the key trigger a "
    "re-index of all remaining recordings, reuse never consumes and serves the first recording with a response, non-reuse serves "
    "from the front at most once, unmatched requests are killed / answered / forwarded per option table.",
    "note": "Representative histories and requests (listed in the module). Trusted: urllib.parse, hashlib, a model of MultiDictView.items(multi=True) "
    "and Headers.get. R52.4 reports the known defect F-C52 (cross-group order after a re-index).",
}

F = "mitmproxy/addons/serverplayback.py"
CLS = "ServerPlayback"
OPT = "ctx.options."
P = "server_replay_"

# construct text of the known finding F-C52 (known_findings.json matches on it; the wording is historical, the decision is semantic)
F_C52 = "flows re-added grouped by old key (comprehension over self.flowmap.values())"


# ---------------------------------------------------------------------------------------------------
# the concrete world


class _MultiDict:
    """Trusted model of mitmproxy's MultiDictView (request.query / urlencoded_form / multipart_form): ordered (name, value) fields."""

    def __init__(self, fields=()):
        self.fields = tuple((k, v) for k, v in fields)

    def items(self, multi=False):
        if multi:
            return list(self.fields)
        return [(k, self[k]) for k in self.keys()]

    def keys(self, multi=False):
        ks = [k for k, _ in self.fields]
        return ks if multi else list(dict.fromkeys(ks))

    def values(self, multi=False):
        return [v for _, v in self.items(multi)]

    def get_all(self, key):
        return [v for k, v in self.fields if k == key]

    def get(self, key, default=None):
        vs = self.get_all(key)
        return vs[0] if vs else default

    def __getitem__(self, key):
        vs = self.get_all(key)
        if not vs:
            raise KeyError(key)
        return vs[0]

    def __contains__(self, key):
        return any(k == key for k, _ in self.fields)

    def __iter__(self):
        return iter(self.keys())

    def __len__(self):
        return len(self.keys())

    def __eq__(self, other):
        return isinstance(other, _MultiDict) and self.fields == other.fields

    def __hash__(self):
        return hash(self.fields)

    def __repr__(self):
        return f"MultiDictView{list(self.fields)!r}"


class _Headers(_MultiDict):
    """Trusted model of mitmproxy's Headers: field names compare case-insensitively; get() of a repeated field joins the values."""

    def get_all(self, key):
        return [v for k, v in self.fields if k.lower() == key.lower()]

    def get(self, key, default=None):
        vs = self.get_all(key)
        return ", ".join(vs) if vs else default

    def __getitem__(self, key):
        vs = self.get_all(key)
        if not vs:
            raise KeyError(key)
        return ", ".join(vs)

    def __contains__(self, key):
        return bool(self.get_all(key))

    def keys(self, multi=False):
        ks = [k for k, _ in self.fields]
        if multi:
            return ks
        seen, out = set(), []
        for k in ks:
            if k.lower() not in seen:
                seen.add(k.lower())
                out.append(k)
        return out

    def __repr__(self):
        return f"Headers{list(self.fields)!r}"


def _accepting(fn):
    fn._pyint_accepts_abstract = True
    return fn


_EXTRA_BUILTINS = {"id": _accepting(lambda o: id(o)), "hash": _accepting(lambda o: hash(o))}


class _World(Interp):
    """pyint over the repository in which ``ctx`` (as seen from serverplayback.py) is a record with the given option values, the UI update
    hook is a no-op, reading flow files returns ``self.file_flows`` and http.Response.make returns a status record.  Option reads are
    logged; generator expressions are lazy like CPython's."""

    def __init__(self, ses, opts):
        Interp.__init__(self, ses.model, trusted_modules={"hashlib": hashlib, "urllib": urllib, "urllib.parse": urllib.parse, "logging": NullLog(),
                                                         "collections": collections, "itertools": itertools}, max_steps=2_000_000)
        self.ses = ses
        self._fnkind, self._functext, self._modconst = ses.caches  # per-AST facts and module constants, shared by the worlds of one run
        self.reads: set = set()
        self.log = None  # when a list: (method name, arguments, result) of every completed call of an addon method
        self.file_flows: list = []
        self.opts = Rec("Options", **opts)
        master = Rec("Master", addons=Rec("AddonManager", trigger=_accepting(lambda *a, **k: None)))
        self.overrides[(F, "ctx")] = Rec("ctx", options=self.opts, master=master)
        self.externals = {}

    def set_options(self, **opts):
        for k, v in opts.items():
            object.__setattr__(self.opts, k, v)

    def getattr(self, base, attr, node, depth):
        if base is self.opts:
            self.reads.add(attr)
        return Interp.getattr(self, base, attr, node, depth)

    def name(self, ident, env, mod, depth, node):
        try:
            return Interp.name(self, ident, env, mod, depth, node)
        except AnalysisError:
            if ident in _EXTRA_BUILTINS:  # identity / hash of a record are those of the record object
                return _EXTRA_BUILTINS[ident]
            raise

    def call_func(self, f, args, kwargs, depth):
        stub = self.ses.stubs.get(id(f.node))
        if stub is not None:
            return stub(self, *args, **kwargs)
        if self.log is None:
            return Interp.call_func(self, f, args, kwargs, depth)
        res = Interp.call_func(self, f, args, kwargs, depth)
        if isinstance(f.bound, Rec) and f.bound._impl == (F, CLS):
            self.log.append((f.node.name, list(args), res))
        return res

    def native_call(self, f, args, kwargs, where):
        # sorted(..., key=<interpreted function>) and friends: hand the native callable a real callable
        if any(isinstance(v, Func) for v in kwargs.values()):
            kwargs = {k: ((lambda *a, _f=v: self.apply(_f, list(a), {}, 0)) if isinstance(v, Func) else v) for k, v in kwargs.items()}
        return Interp.native_call(self, f, args, kwargs, where)

    def builtin(self, name, args, kwargs, e, env, mod, depth):
        if name == "next" and args and isinstance(args[0], list):
            raise Raised("TypeError", "'list' object is not an iterator")
        return Interp.builtin(self, name, args, kwargs, e, env, mod, depth)

    def _lazy(self, v, node):
        if isinstance(v, (list, tuple, dict, set, frozenset, str, bytes, range, collections.deque)) or type(v).__name__ in ("dict_items", "dict_keys", "dict_values") or hasattr(v, "__next__"):
            src = iter(v)  # created now: CPython calls iter() on the outermost iterable when the generator object is made

            def gen():
                while True:
                    try:
                        x = next(src)
                    except StopIteration:
                        return
                    except RuntimeError as ex:  # container changed size during iteration
                        raise Raised("RuntimeError", str(ex))
                    yield x

            return gen()
        return iter(self.iterate(v, node))

    def comp(self, e, env, mod, depth):
        if not isinstance(e, ast.GeneratorExp):
            return Interp.comp(self, e, env, mod, depth)
        local = dict(env)
        gens = e.generators
        first = self._lazy(self.ev(gens[0].iter, local, mod, depth), gens[0].iter)

        def level(i, it):
            g = gens[i]
            for x in it:
                self.tick()
                self.assign(g.target, x, local, mod, depth)
                if all(self.truthy(self.ev(c, local, mod, depth)) for c in g.ifs):
                    if i + 1 == len(gens):
                        yield self.ev(e.elt, local, mod, depth)
                    else:
                        yield from level(i + 1, self._lazy(self.ev(gens[i + 1].iter, local, mod, depth), gens[i + 1].iter))

        return level(0, first)


class _Session:
    """What every world of one run shares: the model, the anchors, the registered options with their defaults, the library stubs."""

    def __init__(self, ctx):
        self.ctx = ctx
        self.model = ctx.model
        self.mod = ctx.model.module(F)
        self.cls = ctx.model.cls(F, CLS)
        self.stubs: dict = {}
        self.caches: tuple = ({}, {}, {})
        self.hash_reads: set = set()
        self.all_reads: set = set()
        for rel, qual, stub in (("mitmproxy/io/io.py", "read_flows_from_paths", lambda w, *a, **k: list(w.file_flows)),):
            if self.model.has(rel, qual):
                self.stubs[id(self.model.func(rel, qual))] = stub
        if self.model.has("mitmproxy/http.py", "Response"):
            mk = self.model.method("mitmproxy/http.py", "Response", "make")
            if mk is not None:
                self.stubs[id(mk[1])] = _make_response
        self.registered = self._registered()

    def _registered(self) -> dict:
        """name -> default of every option registered by ``load`` (interpreted with a recording loader; an unmodelled ``load`` falls back to
        the literal add_option(...) calls of the class)."""
        load = self.ctx.func(F, f"{CLS}.load")
        out: dict = {}

        def add_option(name, typespec=None, default=None, help=None, choices=None, **kw):
            out[name] = default

        try:
            w = _World(self, {})
            w.method(Rec(CLS, _impl=(F, CLS)), "load", Rec("Loader", add_option=_accepting(add_option)))
        except (AnalysisError, Raised) as e:
            self.ctx.note(f"load not interpreted ({e}); options taken from the literal add_option calls")
            out.clear()
            for c in ast.walk(self.cls):
                if isinstance(c, ast.Call) and last_attr(c.func) == "add_option" and c.args and isinstance(c.args[0], ast.Constant) and isinstance(c.args[0].value, str):
                    try:
                        out[c.args[0].value] = ast.literal_eval(c.args[2]) if len(c.args) > 2 else None
                    except ValueError:
                        out[c.args[0].value] = None
        self.ctx.require(out, "load registers no option (shape not modelled)")
        return out

    def has_option(self, name):
        return P + name in self.registered

    def world(self, **opts) -> _World:
        """options: the registered defaults overlaid with ``opts`` (given without the server_replay_ prefix)"""
        vals = {k: (list(v) if isinstance(v, list) else v) for k, v in self.registered.items()}
        vals.update({P + k: v for k, v in opts.items()})
        return _World(self, vals)

    def addon(self, w) -> Rec:
        return w.instantiate(ClassRef(self.mod, self.cls), [], {}, 0, "ServerPlayback()")

    def done(self, w, hash_only=False):
        self.all_reads |= w.reads
        if hash_only:
            self.hash_reads |= w.reads


def _make_response(w, *args, **kwargs):
    a = [x for x in args if not isinstance(x, ClassRef)]
    status = a[0] if a else kwargs.get("status_code", 200)
    return Rec("Response", _name=f"status {status}", made=status, status_code=status, origin=None)


# ---------------------------------------------------------------------------------------------------
# concrete requests and flows

BASE = dict(scheme="http", method="GET", host="example.com", port=80, path="/p/a", query=(("x", "1"), ("y", "2"), ("blank", "")), content=b"body",
            headers=(("X-Id", "1"), ("Accept", "a")), urlencoded=(), multipart=())


def _spec(base=None, **kw):
    d = dict(base or BASE)
    d.update(kw)
    return d


def _request_rec(s) -> Rec:
    qs = "&".join(f"{k}={v}" for k, v in s["query"])
    full = s["path"] + ("?" + qs if qs else "")
    url = f"{s['scheme']}://{s['host']}:{s['port']}{full}"
    return Rec("Request", _name=f"{s['method']} {url}", scheme=s["scheme"], method=s["method"], host=s["host"], pretty_host=s["host"], host_header=s["host"], port=s["port"], path=full, url=url,
               pretty_url=url, raw_content=s["content"], content=s["content"], text=s["content"].decode(), http_version="HTTP/1.1", authority="", timestamp_start=0.0,
               get_content=_accepting(lambda *a, **k: s["content"]), get_text=_accepting(lambda *a, **k: s["content"].decode()),
               headers=_Headers(s["headers"]), query=_MultiDict(s["query"]),
               urlencoded_form=_MultiDict(s["urlencoded"]), multipart_form=_MultiDict(s["multipart"]))


def _flow_rec(s, idx=None, response=False, name=None) -> Rec:
    f = Rec("HTTPFlow", _bases=("Flow",), _name=name or f"rec{idx}", idx=idx, request=_request_rec(s), response=None, error=None, is_replay=None, live=False, intercepted=False,
            id=name or f"rec{idx}", killed=False)
    object.__setattr__(f, "kill", _accepting(lambda: object.__setattr__(f, "killed", True)))
    if response:
        object.__setattr__(f, "response", _response_rec(idx))
    return f


def _response_rec(idx, copy=False) -> Rec:
    r = Rec("Response", _name=f"resp{idx}" + (" (copy)" if copy else ""), origin=idx, made=None, status_code=200, content=b"recorded", is_copy=copy)
    object.__setattr__(r, "copy", _accepting(lambda: _response_rec(idx, True)))
    object.__setattr__(r, "refresh", _accepting(lambda *a, **k: None))
    return r


def _tcp_flow() -> Rec:
    return Rec("TCPFlow", _bases=("Flow",), _name="tcp", idx="tcp", response=None, error=None, live=False)


# ---------------------------------------------------------------------------------------------------
# R52.2

UFORM = _spec(method="POST", content=b"a=1&tok=s1&a=2", urlencoded=(("a", "1"), ("tok", "s1"), ("a", "2")))
MFORM = _spec(method="POST", content=b"--b a=1 tok=s1 a=2", multipart=((b"a", b"1"), (b"tok", b"s1"), (b"a", b"2")))


def _q(**repl):
    """the base query with pairs replaced ((name, value) or None = dropped)"""
    out = []
    for k, v in BASE["query"]:
        if k in repl:
            if repl[k] is not None:
                out.append(repl[k])
        else:
            out.append((k, v))
    return tuple(out)


# (family, component the variant differs in, the variant)
VARIANTS = [
    ("plain", "scheme", _spec(scheme="https")),
    ("plain", "method", _spec(method="PUT")),
    ("plain", "path", _spec(path="/p/b")),
    ("plain", "query value", _spec(query=_q(x=("x", "9")))),
    ("plain", "query name", _spec(query=_q(x=("z", "1")))),
    ("plain", "blank query value", _spec(query=_q(blank=None))),
    ("plain", "value of an ignored query parameter", _spec(query=_q(y=("y", "7")))),
    ("plain", "presence of an ignored query parameter", _spec(query=_q(y=None))),
    ("plain", "host", _spec(host="other.example")),
    ("plain", "port", _spec(port=8080)),
    ("plain", "content", _spec(content=b"other")),
    ("plain", "configured header", _spec(headers=(("X-Id", "2"), ("Accept", "a")))),
    ("plain", "presence of a configured header", _spec(headers=(("Accept", "a"),))),
    ("plain", "header that is not configured", _spec(headers=(("X-Id", "1"), ("Accept", "b")))),
    ("urlencoded", "urlencoded form field", _spec(UFORM, content=b"a=3&tok=s1&a=2", urlencoded=(("a", "3"), ("tok", "s1"), ("a", "2")))),
    ("urlencoded", "repeated urlencoded form field", _spec(UFORM, content=b"a=1&tok=s1&a=4", urlencoded=(("a", "1"), ("tok", "s1"), ("a", "4")))),
    ("urlencoded", "ignored urlencoded form field", _spec(UFORM, content=b"a=1&tok=s2&a=2", urlencoded=(("a", "1"), ("tok", "s2"), ("a", "2")))),
    ("multipart", "multipart form field", _spec(MFORM, content=b"--b a=3 tok=s1 a=2", multipart=((b"a", b"3"), (b"tok", b"s1"), (b"a", b"2")))),
    ("multipart", "repeated multipart form field", _spec(MFORM, content=b"--b a=1 tok=s1 a=4", multipart=((b"a", b"1"), (b"tok", b"s1"), (b"a", b"4")))),
    ("multipart", "ignored multipart form field", _spec(MFORM, content=b"--b a=1 tok=s2 a=2", multipart=((b"a", b"1"), (b"tok", b"s2"), (b"a", b"2")))),
]
FAMILIES = {"plain": BASE, "urlencoded": UFORM, "multipart": MFORM}
KEY_CELLS = [dict(zip(("ignore_content", "ignore_payload_params", "ignore_host", "ignore_port", "ignore_params", "use_headers"), v))
             for v in itertools.product((False, True), ([], ["tok"]), (False, True), (False, True), ([], ["y"]), ([], ["x-id"]))]


def ref_key(s, o):
    """The matching key of the property for request ``s`` under options ``o``."""
    ign = o["ignore_params"] or []
    key = [s["scheme"], s["method"], s["path"], tuple((k, v) for k, v in s["query"] if k not in ign)]
    if not o["ignore_content"]:
        pp = o["ignore_payload_params"] or []
        if pp and s["multipart"]:
            key.append(("form", tuple((k, v) for k, v in s["multipart"] if k.decode(errors="replace") not in pp)))
        elif pp and s["urlencoded"]:
            key.append(("form", tuple((k, v) for k, v in s["urlencoded"] if k not in pp)))
        else:
            key.append(("content", s["content"]))
    if not o["ignore_host"]:
        key.append(s["host"])
    if not o["ignore_port"]:
        key.append(s["port"])
    hdrs = {k.lower(): v for k, v in s["headers"]}
    key.append(tuple((h.lower(), hdrs.get(h.lower())) for h in (o["use_headers"] or [])))
    return tuple(key)


def _cell_text(o):
    return ", ".join(f"{k}={v}" for k, v in o.items())


def check_key(ctx, ses):
    fn = ctx.func(F, f"{CLS}.{ses.keyfn}")
    W = (F, f"{CLS}.{ses.keyfn}", fn)
    reqs = [(fam, None, s) for fam, s in FAMILIES.items()] + VARIANTS
    lacks, contains, raises, generic = {}, {}, {}, None
    for o in KEY_CELLS:
        w = ses.world(**o)
        addon = ses.addon(w)
        ctx.cells += 1
        digests = []
        for fam, label, s in reqs:
            try:
                d = w.method(addon, ses.keyfn, _flow_rec(s, name="request"))
            except Raised as r:
                raises.setdefault(r.name, f"{_request_rec(s)._name}, {_cell_text(o)}")
                d = None
            digests.append(d)
            ctx.paths += 1
        ses.done(w, hash_only=True)
        if any(d is None for d in digests):
            continue
        try:
            for d in digests:
                hash(d)
        except TypeError:
            raise AnalysisError(f"{ses.keyfn} returns an unhashable value")
        refs = [ref_key(s, o) for _, _, s in reqs]
        by_family = {fam: (digests[i], refs[i]) for i, (fam, label, s) in enumerate(reqs) if label is None}
        for (fam, label, s), d, ref in zip(reqs, digests, refs):
            if label is None:
                continue
            want_same = ref == by_family[fam][1]
            same = d == by_family[fam][0]
            if want_same and not same:
                contains.setdefault(label, _cell_text(o))
            elif same and not want_same:
                lacks.setdefault(label, _cell_text(o))
        if generic is None:
            for (i, a), (j, b) in itertools.combinations(enumerate(reqs), 2):
                if (digests[i] == digests[j]) != (refs[i] == refs[j]):
                    generic = (_request_rec(a[2])._name, _request_rec(b[2])._name, digests[i] == digests[j], _cell_text(o))
                    break
    for name, where in raises.items():
        ctx.fail("R52.2", W, f"{ses.keyfn} raises {name}", f"the key of a valid request cannot be computed ({where})")
    for m, desc in lacks.items():
        ctx.fail("R52.2", W, f"key lacks {m}", f"two requests differing only in the {m} get the same key although the options ask to match it (e.g. {desc})")
    for x, desc in contains.items():
        ctx.fail("R52.2", W, f"key contains {x}", f"the {x} enters the key although the options ask to ignore it (e.g. {desc}): matching requests are not served")
    if generic and not (lacks or contains or raises):
        ctx.fail("R52.2", W, "key equality differs from the property", f"{generic[0]} and {generic[1]} get {'the same key' if generic[2] else 'different keys'} with {generic[3]}; the property asks for the opposite")
    if not (lacks or contains or raises or generic):
        for fam, label, s in VARIANTS:
            ctx.ok("R52.2", f"{ses.keyfn}: {label} distinguishes two requests exactly when the options ask for it ({len(KEY_CELLS)} option cells)")
    ctx.sample({"rule": "R52.2", "cells": len(KEY_CELLS), "requests": [_request_rec(s)._name + (f" [{label}]" if label else "") for _, label, s in reqs][:8]})


# ---------------------------------------------------------------------------------------------------
# R52.1


def static_option_reads(node) -> set:
    out = set()
    for n in ast.walk(node):
        if isinstance(n, ast.Attribute):
            ch = attr_chain(n)
            if ch.startswith(OPT) and ch.count(".") == 2:
                out.add(ch[len(OPT):])
    return out


def reachable(ses, fn) -> list:
    """``fn`` and every method of the addon / function of its module it can call (transitively; by name, over-approximate)."""
    seen, todo = [], [fn]
    while todo:
        f = todo.pop()
        if any(f is g for g in seen):
            continue
        seen.append(f)
        for c in ast.walk(f):
            if not isinstance(c, ast.Call):
                continue
            tgt = None
            if isinstance(c.func, ast.Attribute) and isinstance(c.func.value, ast.Name) and c.func.value.id in ("self", "cls", CLS):
                r = ses.model.method(F, CLS, c.func.attr)
                tgt = r[1] if r else None
            elif isinstance(c.func, ast.Name):
                d = ses.mod.get(c.func.id)
                tgt = d if isinstance(d, ast.FunctionDef) else None
            if tgt is not None:
                todo.append(tgt)
    return seen


def check_options(ctx, ses):
    hash_fn = ctx.func(F, f"{CLS}.{ses.keyfn}")
    ctx.require(ses.mod.assigns("HASH_OPTIONS"), "anchor constant vanished: HASH_OPTIONS")
    try:
        listed = list(ses.world().modconst(ses.mod, "HASH_OPTIONS", 0))
    except (TypeError, Raised) as e:
        raise AnalysisError(f"HASH_OPTIONS is not a collection of option names ({e})")
    ctx.require(all(isinstance(x, str) for x in listed), "HASH_OPTIONS is not a collection of option names")
    listed = sorted(set(listed))
    read = set(ses.hash_reads)
    for f in reachable(ses, hash_fn):
        read |= static_option_reads(f)
    for o in sorted(read | set(listed)):
        if o in read and o not in listed:
            ctx.fail("R52.1", (F, f"{CLS}.{ses.keyfn}", hash_fn), f"{ses.keyfn} reads {o}, which is not in HASH_OPTIONS",
                     "changing this option does not trigger recompute_hashes: recordings stay indexed under stale keys and never match")
        elif o not in read:
            ctx.fail("R52.1", (F, "<module>", ses.mod.assigns("HASH_OPTIONS")[-1]), f"HASH_OPTIONS lists {o}, which {ses.keyfn} does not read",
                     "the key ignores an option documented to affect matching")
        else:
            ctx.ok("R52.1", f"{o}: read by {ses.keyfn} and listed in HASH_OPTIONS")
    return listed


def check_registration(ctx, ses):
    load = ctx.func(F, f"{CLS}.load")
    used = {o for o in static_option_reads(ses.mod.tree) | ses.all_reads if o.startswith(P.rstrip("_"))}  # other options belong to other addons
    missing = sorted(used - set(ses.registered))
    ctx.check(not missing, "R52.1", (F, f"{CLS}.load", load), f"options read but not registered: {missing}", "reading an unregistered option raises at run time",
              desc=f"all {len(used)} options read by the addon are registered in load")


# ---------------------------------------------------------------------------------------------------
# histories: scenarios (how abstract keys are realised by concrete requests), reference model


class Scenario:
    """Option configurations A and B and the concrete request that has key ``a`` under A and key ``b`` under B."""

    name = "host / content"
    A = {"ignore_host": False, "ignore_content": True}
    B = {"ignore_host": True, "ignore_content": False}

    def recording(self, a, b):
        return _spec(host=f"{a}.example", content=b.encode())

    def request(self, mode, key):
        return _spec(host=f"{key}.example", content=key.encode())


class OptionScenario(Scenario):
    """One matching option changes between a value under which ``component`` is matched (strict: key = label) and one under which it is
    ignored (loose: one key 'p' for everything on the base path)."""

    COMPONENTS = {
        "ignore_host": (False, True, lambda l: _spec(host=f"{l}.example")),
        "ignore_port": (False, True, lambda l: _spec(port=8000 + sum(map(ord, l)))),
        "ignore_content": (False, True, lambda l: _spec(content=l.encode())),
        "ignore_params": ([], ["y"], lambda l: _spec(query=_q(y=("y", l)))),
        "ignore_payload_params": ([], ["tok"], lambda l: _spec(UFORM, content=f"a=1&tok={l}".encode(), urlencoded=(("a", "1"), ("tok", l)))),
        "use_headers": (["x-id"], [], lambda l: _spec(headers=(("X-Id", l), ("Accept", "a")))),
    }

    def __init__(self, option, widening):
        strict, loose, self.make = self.COMPONENTS[option]
        self.option = option
        self.widening = widening
        self.A, self.B = ({option: strict}, {option: loose}) if widening else ({option: loose}, {option: strict})
        self.name = f"{P}{option}: {strict!r} -> {loose!r}" if widening else f"{P}{option}: {loose!r} -> {strict!r}"

    def strict(self, mode):
        return (mode == "A") == self.widening

    def recording(self, a, b):
        return self.make(a if self.widening else b)

    def request(self, mode, key):
        if self.strict(mode):
            return self.make(key)
        s = self.make("x")
        return s if key == "p" else _spec(s, path="/p/" + key)


class _Ref:
    """The property, coded from its statement: recordings in recording order; a request is answered by the first not-yet-served recording with
    the request's key that has a response; without reuse that recording is never served again."""

    def __init__(self, spec, reuse):
        self.recs = [(i, a, b, r) for i, (a, b, r) in enumerate(spec)]
        self.reuse = reuse
        self.served = set()
        self.mode = "A"

    def key(self, rec):
        return rec[1] if self.mode == "A" else rec[2]

    def serve(self, k):
        for rec in self.recs:
            if rec[3] and rec[0] not in self.served and self.key(rec) == k:
                if not self.reuse:
                    self.served.add(rec[0])
                return rec[0]
        return None


class History:
    """An addon in a world, the recordings of ``spec`` = [(key A, key B, has response)] and the reference next to it."""

    def __init__(self, ses, scenario, spec, reuse=False, nopop=False, **opts):
        self.ses, self.sc, self.spec = ses, scenario, spec
        self.w = ses.world(reuse=reuse, nopop=nopop, **{**scenario.A, **opts})
        self.addon = ses.addon(self.w)
        self.ref = _Ref(spec, reuse or nopop)
        self.mode = "A"

    def flows(self):
        return [_flow_rec(self.sc.recording(a, b), idx=i, response=r) for i, (a, b, r) in enumerate(self.spec)]

    def call(self, meth, *args):
        try:
            return ("ok", self.w.method(self.addon, meth, *args))
        except Raised as r:
            return ("raise", r.name)

    def load(self, extra=()):
        m = self.ses.loader
        return self.call(m, self.flows() + list(extra))

    def switch(self):
        self.mode = self.ref.mode = "B"
        self.w.set_options(**{P + k: v for k, v in self.sc.B.items()})

    def request_flow(self, key):
        return _flow_rec(self.sc.request(self.mode, key), name=f"req:{key}")

    def next_flow(self, key):
        return idx_of(self.call(self.ses.servefn, self.request_flow(key)))

    def close(self):
        self.ses.done(self.w)

    def describe(self, keys="A"):
        if keys == "A":
            return "[" + ", ".join(f"#{i}:{a}" + ("" if r else " (no response)") for i, (a, _, r) in enumerate(self.spec)) + "]"
        return "[" + ", ".join(f"#{i}:{a}->{b}" + ("" if r else " (no response)") for i, (a, b, r) in enumerate(self.spec)) + "]"


def idx_of(res):
    if res[0] == "raise":
        return "raises " + res[1]
    v = res[1]
    return None if v is None else getattr(v, "idx", "?")


SERVE_SETS = {
    "complete recordings, two keys": [("a", "a", True), ("a", "a", True), ("b", "b", True)],
    "response-less recording before complete ones": [("a", "a", False), ("a", "a", True), ("a", "a", True)],
    "response-less recording between complete ones": [("a", "a", True), ("a", "a", False), ("a", "a", True)],
    "only response-less recordings": [("a", "a", False), ("a", "a", False)],
    "interleaved keys with gaps": [("a", "a", False), ("b", "b", True), ("a", "a", True), ("b", "b", False), ("a", "a", True), ("b", "b", True)],
    "nothing recorded": [],
}
SERVE_REQUESTS = [["a", "a", "a", "a"], ["a", "b", "a", "b", "a", "b"], ["b", "a", "a", "a"], ["c", "a", "b", "c"], ["b", "b", "b", "a", "a"]]
REINDEX_SETS = {
    "narrowing: one old key splits into two": [("x", "p", True), ("x", "q", True), ("x", "p", True)],
    "widening: two old keys merge": [("x", "p", True), ("y", "p", True), ("x", "p", False), ("y", "p", True)],
    "regrouping: old and new keys cross": [("x", "p", True), ("y", "q", True), ("x", "q", False), ("y", "p", True), ("x", "q", True)],
    "keys swap: one recording's old key is another one's new key": [("p", "q", True), ("q", "p", True), ("p", "q", True)],
    "single recording": [("x", "p", True)],
    "nothing recorded": [],
}


def serving_modes(ses):
    return [(False, False), (True, False)] + ([(False, True)] if ses.has_option("nopop") else [])


def check_serving(ctx, ses):
    """next_flow on request histories. -> True when the serving discipline holds (the re-index histories observe through it)."""
    nf = ctx.func(F, f"{CLS}.{ses.servefn}")
    bad = None
    n = 0
    for (reuse, nopop), (name, spec), reqs in itertools.product(serving_modes(ses), SERVE_SETS.items(), SERVE_REQUESTS):
        h = History(ses, Scenario(), spec, reuse, nopop)
        r = h.load([_tcp_flow()])
        ctx.cells += 1
        n += 1
        got, want = [], []
        if r[0] == "raise":
            got = [f"{ses.loader} raises " + r[1]]
        else:
            for k in reqs:
                got.append(h.next_flow(k))
                want.append(h.ref.serve(k))
                if isinstance(got[-1], str):
                    break
        h.close()
        if got != want[: len(got)] or len(got) != len(reqs):
            bad = bad or (f"recordings {h.describe()} ({name}), server_replay_reuse={reuse} server_replay_nopop={nopop}, requests {reqs}: served {got}, the property asks for {want}")
    mode = "reuse" if bad and ("reuse=True" in bad or "nopop=True" in bad) else "non-reuse"
    ctx.check(bad is None, "R52.3", (F, f"{CLS}.{ses.servefn}", nf), f"{ses.servefn} histories ({mode}): recordings not served first-unserved-with-a-response per key" if bad else f"{ses.servefn} histories",
              f"{bad} - a recording is served twice / skipped / out of recording order, or the lookup raises", desc=f"{ses.servefn} interpreted on {n} histories (6 recorded sets x 5 request sequences x reuse/nopop): "
              "every request gets the first not-yet-served recording of its key that has a response (reuse: the first one, every time)")
    return bad is None


def drain(h, pre_n, name):
    """After a re-index: request every new key until it is exhausted. -> (hard violation | None, order witness | None, F-C52 pattern?)"""
    ref, spec = h.ref, h.spec
    left = [rec for rec in ref.recs if rec[3] and rec[0] not in ref.served]
    rank = {}
    for rec in ref.recs:
        rank.setdefault(rec[1], rec[0])  # position of an old key's list in flowmap: where its first recording was added
    bad = wit = None
    grouped_only = True
    for kb in sorted({rec[2] for rec in ref.recs} | {"unknown"}):
        exp = [rec[0] for rec in left if rec[2] == kb]
        got = [h.next_flow(kb) for _ in range(len(exp) + 1)]
        desc = (f"recordings {h.describe('AB')} (old key->new key; {name}; {h.sc.name}), {pre_n} served before the option change: "
                f"requests for new key {kb!r} get {got}, the remaining recordings of that key are {exp}")
        if sorted(map(str, got[:-1])) != sorted(map(str, exp)) or got[-1] is not None:
            bad = bad or desc
        elif got[:-1] != exp:
            same_old = all(spec[a][0] == spec[b][0] for a in exp for b in exp)
            if same_old or any(got[:-1].index(a) > got[:-1].index(b) for a in exp for b in exp if a < b and spec[a][0] == spec[b][0]):
                bad = bad or desc + " (recordings of one old key out of order)"
            else:
                wit = wit or desc
                if got[:-1] != sorted(exp, key=lambda i: (rank[spec[i][0]], i)):
                    grouped_only = False
    return bad, wit, grouped_only


def reindex_history(ses, sc, spec, pre, name, trigger, has_count):
    """load under A, serve ``pre``, switch to B, ``trigger`` the re-index, drain. -> (violation, order witness, grouped-by-old-key?)"""
    h = History(ses, sc, spec)
    r = h.load()
    for k in pre:
        if r[0] == "ok":
            r = h.call(ses.servefn, h.request_flow(k))
            h.ref.serve(k)
    bad = None
    if r[0] == "ok":
        before = h.call("count") if has_count else None
        h.switch()
        r = trigger(h)
        after = h.call("count") if has_count and r[0] == "ok" else None
        if r[0] == "ok" and before != after:
            bad = f"{name}: replay.server.count is {before[1]} before and {after[1]} after the re-index (recordings lost or duplicated)"
    if r[0] == "raise":
        h.close()
        return f"{name} ({sc.name}): raises {r[1]}", None, True
    b2, wit, grouped = drain(h, len(pre), name)
    h.close()
    return bad or b2, wit, grouped


def check_reindex(ctx, ses):
    """recompute_hashes on option-change histories (R52.3: nothing lost / duplicated / misfiled; R52.4: recording order across old keys)."""
    if ctx.model.has(F, f"{CLS}.recompute_hashes"):
        rc = ctx.func(F, f"{CLS}.recompute_hashes")
        trigger = lambda h: h.call("recompute_hashes")
    else:  # the mechanism under another name: reached the way the addon reaches it, by an update of the changed options
        rc = ctx.func(F, f"{CLS}.configure")
        trigger = lambda h: h.call("configure", {P + k for k in h.sc.B})
        ctx.note("recompute_hashes not found: the re-index is triggered through configure(updated)")
    W = (F, f"{CLS}.recompute_hashes", rc)
    has_count = ctx.model.has(F, f"{CLS}.count")
    bad = wit = None
    grouped = True
    n = 0
    for (name, spec), pre in itertools.product(REINDEX_SETS.items(), ([], ["x"], ["y", "x"], ["p"])):
        ctx.cells += 1
        n += 1
        b, w_, g = reindex_history(ses, Scenario(), spec, pre, name, trigger, has_count)
        bad, wit, grouped = bad or b, wit or w_, grouped and g
    ctx.check(bad is None, "R52.3", W, "recompute_hashes histories: remaining recordings not re-indexed under their own new keys" if bad else "recompute_hashes histories",
              f"{bad} - after a matching option changed a recording is lost, duplicated, or answers a request whose key differs from its own", desc=f"recompute_hashes interpreted on {n} histories (6 recorded sets: keys "
              "split / merge / cross / swap; 0-2 served before): every remaining recording is served exactly once, and only for its own new key")
    if bad is not None:
        ctx.note("R52.4 not evaluated: the re-index loses / duplicates / misfiles recordings (R52.3)")
        ctx.instance("R52.4", "not evaluated (R52.3 violated by the re-index)")
        return
    if wit is not None and grouped:
        ctx.fail("R52.4", W, F_C52, "after a matching option changed, recordings whose keys become equal are served group by group (old key), not in recording order: " + wit +
                 "; accepted: re-adding in recording order (kept index / kept global list)", witness=wit)
    else:
        ctx.check(wit is None, "R52.4", W, "recordings that share a new key are served neither in recording order nor grouped by old key", f"{wit}",
                  desc="recompute_hashes histories: recordings whose keys become equal are served in recording order")


def check_configure(ctx, ses, listed):
    """configure(updated) with a HASH_OPTIONS member in ``updated`` re-indexes; an unrelated update loses nothing."""
    cfg = ctx.func(F, f"{CLS}.configure")
    W = (F, f"{CLS}.configure", cfg)
    has_count = ctx.model.has(F, f"{CLS}.count")
    widen = [("x", "p", True), ("y", "p", True), ("x", "p", False), ("y", "p", True)]
    narrow = [("p", "x", True), ("p", "y", True), ("p", "x", True)]
    bad = None
    n = 0
    modelled = [o[len(P):] for o in listed if o.startswith(P) and o[len(P):] in OptionScenario.COMPONENTS]
    for o in modelled:
        for widening, pre in ((True, []), (True, ["x"]), (False, []), (False, ["p"])):
            for updated in ({P + o}, {P + o, P + "refresh", "anticache"})[: 2 if widening and not pre else 1]:
                ctx.cells += 1
                n += 1
                sc = OptionScenario(o, widening)
                b, _, _ = reindex_history(ses, sc, widen if widening else narrow, pre, f"configure(updated={sorted(updated)})", lambda h: h.call("configure", set(updated)), has_count)
                bad = bad or b
    ctx.require(modelled, "no member of HASH_OPTIONS is one of the modelled matching options")
    ctx.check(bad is None, "R52.1", W, "configure: recompute_hashes() when a HASH_OPTIONS member is updated",
              f"a changed matching option leaves the recordings indexed under the old keys: {bad}", desc=f"configure interpreted on {n} option-change histories ({len(modelled)} matching options, widening and narrowing, "
              "0-1 served before): every remaining recording is served for its new key afterwards")
    # an update of an unrelated option keeps every recording where it is
    bad = None
    for updated in (set(), {P + "refresh"}, {"anticache", "server_replay_extra"}):
        ctx.cells += 1
        h = History(ses, Scenario(), SERVE_SETS["interleaved keys with gaps"])
        r = h.load()
        if r[0] == "ok":
            r = h.call("configure", set(updated))
        if r[0] == "raise":
            bad = bad or f"configure(updated={sorted(updated)}) raises {r[1]}"
        else:
            for k in ["a", "b", "a", "b", "a", "c"]:
                got, want = h.next_flow(k), h.ref.serve(k)
                if got != want:
                    bad = bad or f"after configure(updated={sorted(updated)}) a request for key {k!r} gets {got}, the property asks for {want}"
        h.close()
    ctx.check(bad is None, "R52.1", W, "configure: recordings survive an update of unrelated options", f"{bad}", desc="configure with no matching option in `updated` keeps every recording")


# ---------------------------------------------------------------------------------------------------
# R52.3: the request hook


def outcome(f):
    resp, killed, mark = f.response, f.killed, f.is_replay
    if killed:
        return ("kill",) if resp is None else ("kill and response",)
    if resp is None:
        return ("forward",) if mark is None else ("forward, marked is_replay",)
    if not isinstance(resp, Rec):
        return ("other response", repr(resp))
    kind = ("status", resp.__dict__.get("made")) if resp.__dict__.get("made") is not None else ("recorded", resp.__dict__.get("origin", "?"))
    return kind if mark == "response" else kind + (f"is_replay={mark!r}",)


def expected_outcome(idx, kill_extra, extra):
    if idx is not None:
        return ("recorded", idx)
    if kill_extra or extra == "kill":
        return ("kill",)
    if extra != "forward":
        return ("status", int(extra))
    return ("forward",)


def check_request(ctx, ses):
    fn = ctx.func(F, f"{CLS}.request")
    W = (F, f"{CLS}.request", fn)
    keeper = [("keep", "keep", True)]
    bad = []
    n = 0

    def run(spec, reqs, reuse, kill_extra, extra, refresh, what):
        opts = {"extra": extra, "refresh": refresh}
        if ses.has_option("kill_extra"):
            opts["kill_extra"] = kill_extra
        h = History(ses, Scenario(), spec, reuse, **opts)
        r = h.load()
        ctx.require(r[0] == "ok", f"request histories: {ses.loader} raises {r[1]}")
        for pos, k in enumerate(reqs, 1):
            f = h.request_flow(k)
            res = h.call("request", f)
            got = ("raises " + res[1],) if res[0] == "raise" else outcome(f)
            want = expected_outcome(h.ref.serve(k) if spec else None, kill_extra and bool(spec), extra if spec else "forward")
            if got != want:
                kind = "recording available" if want[0] == "recorded" else "nothing loaded" if not spec else "no recording for the request"
                bad.append((f"{kind}, reuse={reuse}, kill_extra={kill_extra}, extra={extra!r}", want, got, f"recordings {h.describe()} ({what}), requests {reqs}: request #{pos} for key {k!r}"))
                break
        h.close()

    # the option table: hits and misses against a set that keeps the addon active throughout
    table = SERVE_SETS["interleaved keys with gaps"] + keeper
    for kill_extra, extra, refresh in itertools.product((False, True) if ses.has_option("kill_extra") else (False,), ("forward", "kill", "204", "404"), (False, True)):
        ctx.cells += 2
        n += 2
        run(table, ["a", "c", "b", "a", "c", "a", "b", "b"], False, kill_extra, extra, refresh, f"option table, refresh={refresh}")
    # serving discipline observed at the hook
    for (name, spec), reqs, reuse in itertools.product(SERVE_SETS.items(), SERVE_REQUESTS[1:4], (False, True)):
        ctx.cells += 1
        run(spec + keeper, reqs, reuse, False, "404", True, name)
    # nothing loaded: replay is not active, the request is left alone
    for kill_extra, extra in ((False, "kill"), (False, "404"), (True, "forward")):
        ctx.cells += 1
        run([], ["a"], False, kill_extra, extra, True, "nothing loaded")
    for cell, want, got, hist in bad[:4]:
        ctx.fail("R52.3", W, f"request: {cell}: does {list(got)}, expected {list(want)}", f"unmatched / matched requests are not handled as the option table says ({hist})")
    if not bad:
        ctx.ok("R52.3", f"request: {n} cells (recorded -> response of the recording + is_replay='response'; kill; status -> Response.make(int(extra)); forward -> untouched), "
               "serving discipline observed at the hook, inactive while nothing is loaded")


# ---------------------------------------------------------------------------------------------------


def discover(ctx, ses):
    """The mechanisms by what they do: the key function is the addon method whose result for a recording is that recording's key in the
    index; the serving function is the one the request hook calls with the request and that returns the recording.  (_hash / next_flow
    when the probe does not find them.)"""
    ses.keyfn, ses.servefn = "_hash", "next_flow"
    w = ses.world()
    w.log = []
    rec, req = _flow_rec(BASE, idx=0, response=True), _flow_rec(BASE, name="request")
    try:
        addon = ses.addon(w)
        w.method(addon, ses.loader, [rec])
        keys = [k for v in addon.__dict__.values() if isinstance(v, dict) for k in v]
        hits = [name for name, args, res in w.log if args and args[0] is rec and isinstance(res, (bytes, str, int, tuple)) and res in keys]
        if hits:
            ses.keyfn = hits[-1]
        w.log.clear()
        w.method(addon, "request", req)
        hits = [name for name, args, res in w.log if args and args[0] is req and res is rec]
        if hits:
            ses.servefn = hits[-1]
    except (AnalysisError, Raised):
        pass
    ses.done(w)


def find_loader(ctx, ses):
    """The method that replaces the index by the given flows: the ``replay.server`` command (load_flows)."""
    for st in ses.cls.body:
        if isinstance(st, ast.FunctionDef):
            for d in st.decorator_list:
                if isinstance(d, ast.Call) and last_attr(d.func) == "command" and d.args and isinstance(d.args[0], ast.Constant) and d.args[0].value == "replay.server":
                    ctx.func(F, f"{CLS}.{st.name}")
                    return st.name
    ctx.func(F, f"{CLS}.load_flows")
    return "load_flows"


def check(ctx):
    ctx.rule("R52.1", "options read by _hash == HASH_OPTIONS; configure re-indexes when one of them changes; all options registered")
    ctx.rule("R52.2", "key composition per option cell: scheme/method/path, content or filtered form fields, host, port, non-ignored query pairs, configured headers")
    ctx.rule("R52.4", "recompute_hashes re-adds the remaining recordings in an order that preserves recording order across keys (kept global list / "
             "sequence index / sort by a recording index); flattening flowmap.values() group by group is the violation")
    ctx.rule("R52.3", "reuse never consumes and serves the first recording with a response; non-reuse serves from the front at most once, never a response-less recording; "
             "re-index keeps every remaining recording under its own new key; request() follows the option table")
    ses = _Session(ctx)
    ses.loader = find_loader(ctx, ses)
    discover(ctx, ses)
    for q in (ses.keyfn, ses.servefn, "request", "configure"):
        ctx.func(F, f"{CLS}.{q}")
    ctx.guard(check_key, ctx, ses)
    listed = ctx.guard(check_options, ctx, ses)
    serving_ok = ctx.guard(check_serving, ctx, ses)
    if serving_ok:
        ctx.guard(check_reindex, ctx, ses)
        if listed:
            ctx.guard(check_configure, ctx, ses, listed)
    elif serving_ok is False:
        ctx.note("re-index histories (recompute_hashes, configure) not evaluated: they are observed through next_flow, which itself violates the serving discipline")
    ctx.guard(check_request, ctx, ses)
    ctx.guard(check_registration, ctx, ses)
    ctx.trust("urllib.parse, hashlib (run natively on concrete strings); model of MultiDictView / Headers.get; flow file reading and http.Response.make stubbed")
    ctx.assume("recorded sets, request sequences and requests are the representatives listed in SERVE_SETS / SERVE_REQUESTS / REINDEX_SETS / VARIANTS; ctx.options values are stable during one hook invocation")
    if not [f for f in ctx.findings if f.rule != "R52.4"] and not ctx.deferred:
        ctx.expect_instances("R52.1", 6 + 2 + 1)
        ctx.expect_instances("R52.2", len(VARIANTS))
        ctx.expect_instances("R52.3", 3)
    ctx.expect_instances("R52.4", 1)


MUTANTS = [
    Mutant("option-missing-from-hash-options", F, "    \"server_replay_ignore_port\",\n    \"server_replay_use_headers\",\n]", "    \"server_replay_use_headers\",\n]", "R52.1"),
    Mutant("hash-options-lists-unread-option", F, "    \"server_replay_use_headers\",\n]", "    \"server_replay_use_headers\",\n    \"server_replay_refresh\",\n]", "R52.1"),
    Mutant("configure-does-not-reindex", F, "        if any(option in updated for option in HASH_OPTIONS):\n            self.recompute_hashes()\n", "", "R52.1"),
    Mutant("configure-reindexes-only-for-the-first-option", F, "        if any(option in updated for option in HASH_OPTIONS):", "        if HASH_OPTIONS[0] in updated:", "R52.1"),
    Mutant("configure-returns-before-the-reindex", F, "        if not self.configured and ctx.options.server_replay:", "        if self.configured or not ctx.options.server_replay:\n            return\n        if True:", "R52.1"),
    Mutant("option-not-registered", F, "        loader.add_option(\n            \"server_replay_ignore_port\",", "        loader.add_option(\n            \"server_replay_ignore_ports\",", "R52.1"),
    Mutant("key-without-method", F, "key: list[Any] = [str(r.scheme), str(r.method), str(path)]", "key: list[Any] = [str(r.scheme), str(path)]", "R52.2"),
    Mutant("ignore-host-inverted", F, "        if not ctx.options.server_replay_ignore_host:", "        if ctx.options.server_replay_ignore_host:", "R52.2"),
    Mutant("port-always-in-key", F, "        if not ctx.options.server_replay_ignore_port:\n            key.append(r.port)", "        key.append(r.port)", "R52.2"),
    Mutant("content-ignored-when-payload-params-set", F, "            else:\n                key.append(str(r.raw_content))", "            elif not ctx.options.server_replay_ignore_payload_params:\n                key.append(str(r.raw_content))", "R52.2"),
    Mutant("urlencoded-fields-unfiltered", F, "                    if k not in ctx.options.server_replay_ignore_payload_params\n", "", "R52.2"),
    Mutant("form-fields-without-repeats", F, "for k, v in r.urlencoded_form.items(multi=True)", "for k, v in r.urlencoded_form.items()", "R52.2"),
    Mutant("query-values-not-in-key", F, "            key.append(p[0])\n            key.append(p[1])", "            key.append(p[0])", "R52.2"),
    Mutant("ignored-params-kept", F, "            if p[0] not in ignore_params:\n                filtered.append(p)", "            filtered.append(p)", "R52.2"),
    Mutant("blank-query-values-dropped", F, "urllib.parse.parse_qsl(query, keep_blank_values=True)", "urllib.parse.parse_qsl(query)", "R52.2"),
    Mutant("headers-not-appended", F, "            key.append(headers)\n", "", "R52.2"),
    Mutant("header-names-only", F, "                headers.append((i, v))", "                headers.append(i)", "R52.2"),
    Mutant("reuse-consumes", F, "                return next(\n                    (flow for flow in self.flowmap[hash] if flow.response), None\n                )",
           "                self.flowmap[hash].append(self.flowmap[hash].pop(0))\n                return next(\n                    (flow for flow in self.flowmap[hash] if flow.response), None\n                )", "R52.3"),
    Mutant("reuse-serves-responseless", F, "(flow for flow in self.flowmap[hash] if flow.response), None", "(flow for flow in self.flowmap[hash]), None", "R52.3"),
    Mutant("nopop-alias-ignored", F, "if ctx.options.server_replay_reuse or ctx.options.server_replay_nopop:", "if ctx.options.server_replay_reuse:", "R52.3"),
    Mutant("serve-from-the-back", F, "                ret = self.flowmap[hash].pop(0)\n                while", "                ret = self.flowmap[hash].pop()\n                while", "R52.3"),
    Mutant("empty-list-left-behind", F, "                if not self.flowmap[hash]:\n                    del self.flowmap[hash]\n                return ret", "                return ret", "R52.3"),
    Mutant("responseless-recording-served", F, "                while not ret.response:\n                    if self.flowmap[hash]:\n                        ret = self.flowmap[hash].pop(0)\n                    else:\n                        del self.flowmap[hash]\n                        return None\n", "", "R52.3"),
    Mutant("shared-lookup-then-pop-head", F, """        if hash in self.flowmap:
            if ctx.options.server_replay_reuse or ctx.options.server_replay_nopop:
                return next(
                    (flow for flow in self.flowmap[hash] if flow.response), None
                )
            else:
                ret = self.flowmap[hash].pop(0)
                while not ret.response:
                    if self.flowmap[hash]:
                        ret = self.flowmap[hash].pop(0)
                    else:
                        del self.flowmap[hash]
                        return None
                if not self.flowmap[hash]:
                    del self.flowmap[hash]
                return ret
        else:
            return None
""", """        flows = self.flowmap.get(hash)
        if not flows:
            return None
        ret = next((flow for flow in flows if flow.response), None)
        if ctx.options.server_replay_reuse or ctx.options.server_replay_nopop:
            return ret
        if ret:
            flows.pop(0)
        else:
            flows.clear()
        if not flows:
            del self.flowmap[hash]
        return ret
""", "R52.3"),
    Mutant("served-recording-stays-queued", F, "                ret = self.flowmap[hash].pop(0)\n                while", "                ret = self.flowmap[hash][0]\n                while", "R52.3"),
    Mutant("responseless-head-blocks-the-key", F, "                while not ret.response:\n                    if self.flowmap[hash]:\n                        ret = self.flowmap[hash].pop(0)\n                    else:\n                        del self.flowmap[hash]\n                        return None\n",
           "                if not ret.response:\n                    self.flowmap[hash].insert(0, ret)\n                    return None\n", "R52.3"),
    Mutant("reindex-rekeys-whole-buckets-by-first-flow", F, "        flows = [flow for lst in self.flowmap.values() for flow in lst]\n        self.load_flows(flows)\n",
           "        flowmap: dict[Hashable, list[http.HTTPFlow]] = {}\n        for flows in self.flowmap.values():\n            flowmap.setdefault(self._hash(flows[0]), []).extend(flows)\n        self.flowmap = flowmap\n", "R52.3"),
    Mutant("reindex-adds-without-reset", F, "        flows = [flow for lst in self.flowmap.values() for flow in lst]\n        self.load_flows(flows)\n",
           "        flows = [flow for lst in self.flowmap.values() for flow in lst]\n        self.add_flows(flows)\n", "R52.3"),
    Mutant("lazy-snapshot-consumed-after-clear", F, "        flows = [flow for lst in self.flowmap.values() for flow in lst]\n        self.load_flows(flows)\n",
           "        flows = (flow for lst in self.flowmap.values() for flow in lst)\n        self.flowmap.clear()\n        self.add_flows(flows)\n", "R52.3"),
    Mutant("reindex-drops-responseless", F, "flows = [flow for lst in self.flowmap.values() for flow in lst]", "flows = [flow for lst in self.flowmap.values() for flow in lst if flow.response]", "R52.3"),
    Mutant("reindex-keeps-one-flow-per-key", F, "flows = [flow for lst in self.flowmap.values() for flow in lst]", "flows = [lst[0] for lst in self.flowmap.values()]", "R52.3"),
    Mutant("reindex-walks-old-keys-backwards", F, "flows = [flow for lst in self.flowmap.values() for flow in lst]", "flows = [flow for lst in reversed(list(self.flowmap.values())) for flow in lst]", "R52.4"),
    Mutant("add-flows-prepends", F, "                lst.append(f)", "                lst.insert(0, f)", "R52.3"),
    Mutant("kill-option-ignored", F, "                ctx.options.server_replay_kill_extra\n                or ctx.options.server_replay_extra == \"kill\"", "                ctx.options.server_replay_kill_extra", "R52.3"),
    Mutant("replayed-flow-not-marked", F, "                f.response = response\n                f.is_replay = \"response\"", "                f.response = response", "R52.3"),
    Mutant("status-answer-for-forward", F, "            elif ctx.options.server_replay_extra != \"forward\":", "            elif ctx.options.server_replay_extra != \"kill\":", "R52.3"),
    Mutant("hook-active-without-recordings", F, "    def request(self, f: http.HTTPFlow) -> None:\n        if self.flowmap:", "    def request(self, f: http.HTTPFlow) -> None:\n        if True:", "R52.3"),
]
