"""C52 - server replay serves recorded responses only to matching requests, in order.

Decided from the source of mitmproxy/addons/serverplayback.py:
  R52.1 option/key agreement: the set of ``ctx.options.*`` read by ServerPlayback._hash equals HASH_OPTIONS; ``configure`` calls
        recompute_hashes() whenever one of HASH_OPTIONS is in ``updated`` (unconditionally reachable); every option the addon reads is
        registered in ``load``.
  R52.2 key composition (decision table, 128 option cells evaluated by path enumeration of _hash): scheme, method and path always;
        request content unless ignore_content - as filtered multipart / urlencoded form fields when ignore_payload_params is set and
        the request has such a form, else the raw content; host unless ignore_host; port unless ignore_port; configured headers iff
        use_headers; every query pair (name and value, blank values kept) whose name is not in ignore_params; the digest covers the
        whole key.
  R52.3 serving discipline: reuse (either option) never mutates flowmap and returns the first recording *with a response*; without
        reuse recordings leave from the front (pop(0)), a served recording has a response (while-not-response loop or guard), each pop
        is followed by an emptiness test that deletes the empty list; add_flows appends under setdefault(_hash(f)); recompute_hashes
        snapshots ALL remaining flows into a list (every list fully, no filter) before load_flows resets the map; ``request``:
        decision table recorded / kill / status / forward over 16 cells.
        The serving discipline and the re-index are decided by INTERPRETING next_flow / load_flows / add_flows / recompute_hashes from their
        ASTs (pyint) on histories, with ``_hash`` an abstract key function of (flow, active option configuration): 6 recorded sets
        (complete, response-less before / between complete recordings, only response-less, interleaved keys, empty) x 5 request sequences
        x {non-reuse, reuse, nopop} are compared request by request with the reference model coded from the property (first not-yet-served
        recording of the key that has a response; reuse: never consumed); 6 recorded sets whose keys split / merge / cross / swap under an option
        change x 0-2 recordings served before it: after recompute_hashes the addon's own count is unchanged, every remaining recording is
        served exactly once and only for its own new key, recordings of one old key in order.  A rewritten next_flow / recompute_hashes is thereby analysed; the structural
        path rules above are applied in addition while the code has the shape they model (else a note, not a refusal).
  R52.4 recompute_hashes must re-add the remaining recordings in recording order across keys (sorted by a kept index / from a kept
        global list).  Today it flattens flowmap.values() group by group: KNOWN FINDING F-C52 (findings/F-C52/repro.py), not fixed.
NOT decided: hash collisions, the form / query parsers, response.refresh().
"""

from __future__ import annotations

import ast
import itertools

from ..core import AnalysisError
from ..core import norm
from ..model import attr_chain
from ..model import call_name
from ..model import eval_order
from ..model import last_attr
from ..model import stmts_of
from ..model import walk_in_order
from ..paths import C
from ..paths import GenericSpec
from ..paths import index_of
from ..selftest import Mutant
from ._helpers_F import kwarg
from ._helpers_F import own_nodes
from ._helpers_F import params_of
from ._helpers_F import StrictEngine

PROP = "C52"
REG = {
    "strength": "partial",
    "technique": "registry agreement (options read vs HASH_OPTIONS vs load), decision tables of _hash (128 cells) and request (16 cells) "
    "evaluated by path enumeration, AST interpretation of next_flow / load_flows / recompute_hashes on request / option-change histories "
    "against a reference model, path rules on next_flow / add_flows / recompute_hashes",
    "claim": "the replay key contains exactly the request components the options ask for, option changes that affect the key trigger a "
    "re-index of all remaining recordings, reuse never consumes and serves the first recording with a response, non-reuse serves "
    "from the front at most once and drops empty lists, unmatched requests are killed / answered / forwarded per option table.",
    "note": "Loops unrolled once. Trusted: urllib.parse, MultiDict.items(multi=True), hashlib. R52.4 reports the known defect F-C52 (cross-group order after a re-index).",
}

F = "mitmproxy/addons/serverplayback.py"
OPT = "ctx.options."


def option_reads(node) -> set[str]:
    return {attr_chain(n)[len(OPT):] for n in ast.walk(node) if isinstance(n, ast.Attribute) and attr_chain(n).startswith(OPT) and attr_chain(n).count(".") == 2}


# ---------------------------------------------------------------------------------------------------
# R52.1


def check_options(ctx):
    hash_fn = ctx.func(F, "ServerPlayback._hash")
    listed = ctx.model.literal(F, "HASH_OPTIONS")
    ctx.require(isinstance(listed, list) and all(isinstance(x, str) for x in listed), "HASH_OPTIONS is not a list of strings")
    read = option_reads(hash_fn)
    for c in own_nodes(hash_fn):
        if isinstance(c, ast.Call) and attr_chain(c.func).startswith("self.") and ctx.model.has(F, "ServerPlayback." + attr_chain(c.func)[5:]):
            raise AnalysisError(f"_hash calls {norm(c.func)}: options read by helpers are not modelled")
        if isinstance(c, ast.Call) and call_name(c) == "getattr" and c.args and attr_chain(c.args[0]) == "ctx.options":
            raise AnalysisError("_hash reads options through getattr (not modelled)")
    for o in sorted(read | set(listed)):
        if o in read and o not in listed:
            ctx.fail("R52.1", (F, "ServerPlayback._hash", hash_fn), f"_hash reads {o}, which is not in HASH_OPTIONS",
                     "changing this option does not trigger recompute_hashes: recordings stay indexed under stale keys and never match")
        elif o not in read:
            ctx.fail("R52.1", (F, "<module>", ctx.model.const(F, "HASH_OPTIONS")), f"HASH_OPTIONS lists {o}, which _hash does not read",
                     "the key ignores an option documented to affect matching")
        else:
            ctx.ok("R52.1", f"{o}: read by _hash and listed in HASH_OPTIONS")
    ctx.require(len(set(listed)) == len(listed), "HASH_OPTIONS has duplicates")
    # configure -> recompute_hashes
    cfg = ctx.func(F, "ServerPlayback.configure")
    upd = params_of(cfg)[1]
    calls = [c for c in own_nodes(cfg) if isinstance(c, ast.Call) and call_name(c) == "self.recompute_hashes"]
    guards = [s for s in cfg.body if isinstance(s, ast.If) and any(c in list(ast.walk(s)) for c in calls)]
    ok = len(calls) == 1 and len(guards) == 1
    if ok:
        g = guards[0]
        names = {n.id for n in ast.walk(g.test) if isinstance(n, ast.Name)}
        ok = {"HASH_OPTIONS", upd} <= names and any(isinstance(s, ast.Expr) and s.value is calls[0] for s in g.body)
        shape = norm(g.test) in (f"any((option in {upd} for option in HASH_OPTIONS))", f"any((o in {upd} for o in HASH_OPTIONS))") or (
            isinstance(g.test, ast.Call) and call_name(g.test) == "any" and isinstance(g.test.args[0], (ast.GeneratorExp, ast.ListComp))
            and isinstance(g.test.args[0].elt, ast.Compare) and isinstance(g.test.args[0].elt.ops[0], ast.In)
            and attr_chain(g.test.args[0].elt.comparators[0]) == upd and attr_chain(g.test.args[0].generators[0].iter) == "HASH_OPTIONS"
            and not g.test.args[0].generators[0].ifs)
        ctx.require(not ok or shape, f"configure: guard of recompute_hashes not modelled: {norm(g.test)}")
        early = [n for s in cfg.body[: cfg.body.index(g)] for n in ast.walk(s) if isinstance(n, ast.Return)]
        ok = ok and not early
    ctx.check(ok, "R52.1", (F, "ServerPlayback.configure", cfg), "configure: recompute_hashes() when a HASH_OPTIONS member is updated",
              "a changed matching option leaves the recordings indexed under the old keys", desc="configure: any(option in updated for option in HASH_OPTIONS) -> recompute_hashes()")
    # registration
    load = ctx.func(F, "ServerPlayback.load")
    registered = {c.args[0].value for c in own_nodes(load) if isinstance(c, ast.Call) and last_attr(c.func) == "add_option" and c.args and isinstance(c.args[0], ast.Constant)}
    used = option_reads(ctx.model.cls(F, "ServerPlayback"))
    missing = sorted(used - registered)
    ctx.check(not missing, "R52.1", (F, "ServerPlayback.load", load), f"options read but not registered: {missing}", "reading an unregistered option raises at run time",
              desc=f"all {len(used)} options read by the addon are registered in load")


# ---------------------------------------------------------------------------------------------------
# R52.2


class HashSpec(GenericSpec):
    def __init__(self, info):
        super().__init__(record_conds=True)
        self.i = info

    def value(self, expr, st, depth):
        ch = attr_chain(expr)
        if ch.startswith(OPT) and st.has("$" + ch[len(OPT):]):
            return st.get("$" + ch[len(OPT):])
        if ch == f"{self.i['r']}.multipart_form":
            return st.get("$multipart")
        if ch == f"{self.i['r']}.urlencoded_form":
            return st.get("$urlencoded")
        return super().value(expr, st, depth)

    def tag(self, e, loopvar_of_filtered=None):
        r = self.i["r"]
        tags = set()
        for n in ast.walk(e):
            if isinstance(n, ast.Attribute) and isinstance(n.value, ast.Name) and n.value.id == r:
                tags.add({"raw_content": "content", "content": "content", "text": "content", "pretty_host": "host", "host": "host"}.get(n.attr, n.attr))
            elif isinstance(n, ast.Name) and n.id == self.i["path"]:
                tags.add("path")
            elif isinstance(n, ast.Name) and n.id == self.i.get("headers_list"):
                tags.add("headers")
            elif isinstance(n, ast.Subscript) and isinstance(n.value, ast.Name) and n.value.id in self.i["qvars"] and isinstance(n.slice, ast.Constant):
                tags.add({0: "qname", 1: "qvalue"}.get(n.slice.value, "q?"))
        if isinstance(e, (ast.GeneratorExp, ast.ListComp)):
            g = e.generators[0]
            filt = any(isinstance(c, ast.Compare) and isinstance(c.ops[0], ast.NotIn) and attr_chain(c.comparators[0]) == OPT + "server_replay_ignore_payload_params" for c in g.ifs)
            pair = isinstance(e.elt, ast.Tuple) and len(e.elt.elts) == 2 and isinstance(g.target, ast.Tuple) and [norm(x) for x in e.elt.elts] == [norm(x) for x in g.target.elts]
            multi = isinstance(g.iter, ast.Call) and last_attr(g.iter.func) == "items" and (any(k.arg == "multi" and isinstance(k.value, ast.Constant) and k.value.value for k in g.iter.keywords)
                                                                                            or (g.iter.args and isinstance(g.iter.args[0], ast.Constant) and g.iter.args[0].value))
            if filt and pair and multi and len(e.generators) == 1:
                tags = {t + "+filtered-pairs" if t in ("multipart_form", "urlencoded_form") else t for t in tags}
        tags.discard("headers") if "headers" in tags and tags != {"headers"} and not (isinstance(e, ast.Name)) else None
        return "|".join(sorted(tags)) or "?"

    def events(self, node, st):
        out = []
        key = self.i["key"]
        if isinstance(node, (ast.Assign, ast.AnnAssign)):
            tgt = node.targets[0] if isinstance(node, ast.Assign) else node.target
            if isinstance(tgt, ast.Name) and tgt.id == key:
                if not isinstance(node.value, ast.List):
                    raise AnalysisError(f"_hash: `{key}` is (re)bound to {norm(node.value)} (not modelled)")
                out += [("key", self.tag(e)) for e in node.value.elts]
        elif isinstance(node, ast.AugAssign) and isinstance(node.target, ast.Name) and node.target.id == key:
            raise AnalysisError(f"_hash: `{key} {norm(node.op)}= ...` not modelled")
        for n in eval_order(node):
            if isinstance(n, ast.Call) and isinstance(n.func, ast.Attribute) and isinstance(n.func.value, ast.Name):
                if n.func.value.id == key:
                    if n.func.attr in ("append", "extend") and len(n.args) == 1:
                        out.append(("key", self.tag(n.args[0])))
                    else:
                        raise AnalysisError(f"_hash: {norm(n)} not modelled")
                elif n.func.value.id == self.i["filtered"] and n.func.attr == "append":
                    ok = len(n.args) == 1 and isinstance(n.args[0], ast.Name) and n.args[0].id in self.i["rawq"]
                    out.append(("filtered", ok))
        return out

    def cond_event(self, expr, value, st):
        if isinstance(expr, ast.Compare) and len(expr.ops) == 1 and isinstance(expr.ops[0], (ast.In, ast.NotIn)):
            left, right = expr.left, expr.comparators[0]
            is_name = isinstance(left, ast.Subscript) and isinstance(left.value, ast.Name) and left.value.id in self.i["rawq"] and isinstance(left.slice, ast.Constant) and left.slice.value == 0
            is_ign = attr_chain(right) == OPT + "server_replay_ignore_params" or (isinstance(right, ast.Name) and right.id == self.i.get("ignore_params"))
            if is_name and is_ign:
                return ("qignored", value if isinstance(expr.ops[0], ast.In) else not value)
        return None


def hash_info(ctx, fn):
    flow = params_of(fn)[1]
    info = {"qvars": set(), "rawq": set()}
    for st in stmts_of(fn):
        if isinstance(st, ast.Assign) and len(st.targets) == 1:
            t, v = st.targets[0], st.value
            if isinstance(t, ast.Name) and attr_chain(v) == f"{flow}.request":
                info["r"] = t.id
            elif isinstance(t, ast.Tuple) and isinstance(v, ast.Call) and call_name(v).endswith("urlparse") and len(t.elts) == 6 and all(isinstance(e, ast.Name) for e in t.elts):
                ctx.require(v.args and attr_chain(v.args[0]) == f"{info.get('r')}.url", "_hash: urlparse argument is not r.url")
                info["path"], info["query"] = t.elts[2].id, t.elts[4].id
            elif isinstance(t, ast.Name) and isinstance(v, ast.Call) and call_name(v).endswith("parse_qsl"):
                info["qarray"] = t.id
                info["parse_qsl"] = v
            elif isinstance(t, ast.Name) and isinstance(v, ast.List) and not v.elts and "key" in info and "filtered" not in info:
                info["filtered"] = t.id
            elif isinstance(t, ast.Name) and isinstance(v, ast.BoolOp) and attr_chain(v.values[0]) == OPT + "server_replay_ignore_params":
                info["ignore_params"] = t.id
        elif isinstance(st, ast.AnnAssign) and isinstance(st.target, ast.Name) and isinstance(st.value, ast.List) and "key" not in info:
            info["key"] = st.target.id
        if isinstance(st, ast.Assign) and len(st.targets) == 1 and isinstance(st.targets[0], ast.Name) and isinstance(st.value, ast.List) and st.value.elts and "key" not in info:
            info["key"] = st.targets[0].id
    for k in ("r", "path", "query", "qarray", "key", "filtered"):
        ctx.require(k in info, f"_hash: could not identify `{k}` (shape not modelled)")
    for n in own_nodes(fn):
        if isinstance(n, ast.For) and isinstance(n.target, ast.Name):
            if isinstance(n.iter, ast.Name) and n.iter.id == info["filtered"]:
                info["qvars"].add(n.target.id)
            elif isinstance(n.iter, ast.Name) and n.iter.id == info["qarray"]:
                info["rawq"].add(n.target.id)
            elif attr_chain(n.iter) == OPT + "server_replay_use_headers":
                info["hdr_loop"] = n
    # headers list: the local list appended to inside the use_headers loop
    if "hdr_loop" in info:
        for c in ast.walk(info["hdr_loop"]):
            if isinstance(c, ast.Call) and isinstance(c.func, ast.Attribute) and c.func.attr == "append" and isinstance(c.func.value, ast.Name):
                info["headers_list"] = c.func.value.id
                info["hdr_append"] = c
    return info


def expected_tags(cell):
    ic, pp, mp, ue, ih, ip, uh = cell
    want = {"scheme", "method", "path"}
    if not ic:
        if pp and mp:
            want.add("multipart_form+filtered-pairs")
        elif pp and ue:
            want.add("urlencoded_form+filtered-pairs")
        else:
            want.add("content")
    if not ih:
        want.add("host")
    if not ip:
        want.add("port")
    if uh:
        want.add("headers")
    return want


def check_key(ctx):
    fn = ctx.func(F, "ServerPlayback._hash")
    info = hash_info(ctx, fn)
    W = (F, "ServerPlayback._hash", fn)
    names = ("server_replay_ignore_content", "server_replay_ignore_payload_params", "$multipart", "$urlencoded", "server_replay_ignore_host",
             "server_replay_ignore_port", "server_replay_use_headers")
    truthy = {1: C(("x",)), 6: C(("x",))}
    missing, extra = {}, {}
    q_ok = q_seen = False
    q_bad = None
    for cell in itertools.product((False, True), repeat=7):
        env = {}
        for i, (n, v) in enumerate(zip(names, cell)):
            val = (truthy[i] if v else C(())) if i in truthy else (C(True) if v else (C(None) if n.startswith("$") else C(False)))
            env[n if n.startswith("$") else "$" + n] = val
        eng = StrictEngine(HashSpec(info), lambda e: HashSpec(info).cond_event(e, True, None) is not None, "_hash")
        trs = eng.terminal(fn, env)
        ctx.cells += 1
        ctx.paths += len(trs)
        want = expected_tags(cell)
        for tr, how, _ in trs:
            ctx.require(how == "return", f"_hash raises on a path ({how})")
            got = {e[1] for e in tr if e[0] == "key"}
            ctx.require("?" not in got and "q?" not in got, f"_hash: a key component could not be classified on path {list(tr)}")
            qpart = {g for g in got if g in ("qname", "qvalue")}
            got -= qpart
            desc = ", ".join(f"{n.replace('server_replay_', '').replace('$', 'has_')}={v}" for n, v in zip(names, cell))
            for m in want - got:
                missing.setdefault(m, desc)
            for x in got - want:
                extra.setdefault(x, desc)
            if qpart:
                q_seen = True
                if qpart != {"qname", "qvalue"}:
                    q_bad = q_bad or f"a query pair contributes only {sorted(qpart)}"
            # filtering of query pairs
            for i, e in enumerate(tr):
                if e == ("qignored", False) and not any(x[0] == "filtered" for x in tr[i + 1:i + 2]):
                    q_bad = q_bad or "a query pair whose name is not ignored is dropped"
                if e == ("qignored", True) and any(x[0] == "filtered" for x in tr[i + 1:i + 2]):
                    q_bad = q_bad or "an ignored query parameter still enters the key"
                if e[0] == "filtered":
                    if not e[1]:
                        q_bad = q_bad or "the filtered list receives something other than the query pair"
                    if i == 0 or tr[i - 1][0] != "qignored":
                        q_bad = q_bad or "query pairs are collected without testing ignore_params"
                    q_ok = True
    for m, desc in missing.items():
        ctx.fail("R52.2", W, f"key lacks {m}", f"requests differing only in {m} get the same key although the options ask to match it (e.g. {desc})")
    for x, desc in extra.items():
        ctx.fail("R52.2", W, f"key contains {x}", f"{x} enters the key although the options ask to ignore it (e.g. {desc}): matching requests are not served")
    if not missing and not extra:
        for comp in ("scheme|method|path always", "content / filtered form fields unless ignore_content", "host unless ignore_host", "port unless ignore_port", "headers iff use_headers"):
            ctx.ok("R52.2", f"_hash key: {comp} (128 cells)")
    ctx.require(q_seen and (q_ok or q_bad), "_hash: query handling not recognised")
    ctx.check(not q_bad, "R52.2", W, f"query pairs: {q_bad}", "every query pair whose name is not in ignore_params must contribute name and value", desc="_hash key: name and value of every non-ignored query pair")
    # parse_qsl keeps blank values, on the query of r.url
    pq = info["parse_qsl"]
    kb = kwarg(pq, "keep_blank_values")
    ok = pq.args and isinstance(pq.args[0], ast.Name) and pq.args[0].id == info["query"] and isinstance(kb, ast.Constant) and kb.value is True
    ctx.check(ok, "R52.2", W, norm(pq), "pairs with empty values (?a=) must not be dropped from the key", desc="parse_qsl(query, keep_blank_values=True)")
    # configured headers: (name, value of that request header) for every configured name
    ok = "hdr_append" in info
    if ok:
        loop, app = info["hdr_loop"], info["hdr_append"]
        gets = [c for c in ast.walk(loop) if isinstance(c, ast.Call) and call_name(c) in (f"{info['r']}.headers.get", f"{info['r']}.headers.get_all") and c.args and isinstance(c.args[0], ast.Name) and c.args[0].id == loop.target.id]
        ok = bool(gets) and any(isinstance(n, ast.Name) and n.id == loop.target.id for n in ast.walk(app.args[0])) and not any(isinstance(n, (ast.If, ast.Break, ast.Continue)) for n in ast.walk(loop))
    ctx.check(ok, "R52.2", W, "configured headers -> (name, r.headers.get(name))", "every configured header must contribute its value to the key", desc="_hash key: (name, r.headers.get(name)) for every configured header")
    # digest over the whole key
    rets = [n for n in own_nodes(fn) if isinstance(n, ast.Return)]
    ctx.require(len(rets) == 1, "_hash: more than one return")
    whole = [c for c in ast.walk(rets[0]) if isinstance(c, ast.Call) and call_name(c) in ("repr", "str", "tuple") and len(c.args) == 1 and isinstance(c.args[0], ast.Name) and c.args[0].id == info["key"]]
    ctx.check(bool(whole), "R52.2", W, norm(rets[0]), "the returned key must cover every collected component", desc="_hash returns a digest of repr(key)")


# ---------------------------------------------------------------------------------------------------
# R52.3


def is_flowlist(e):
    """self.flowmap[<k>]"""
    return isinstance(e, ast.Subscript) and attr_chain(e.value) == "self.flowmap"


class NextSpec(GenericSpec):
    def __init__(self):
        super().__init__(record_conds=True)

    def value(self, expr, st, depth):
        ch = attr_chain(expr)
        if ch in (OPT + "server_replay_reuse", OPT + "server_replay_nopop"):
            return st.get("$" + ch[len(OPT):])
        return super().value(expr, st, depth)

    def events(self, node, st):
        out = []
        for n in eval_order(node):
            if isinstance(n, ast.Call) and isinstance(n.func, ast.Attribute) and is_flowlist(n.func.value):
                if n.func.attr in ("pop", "popleft"):
                    front = n.func.attr == "popleft" or (len(n.args) == 1 and isinstance(n.args[0], ast.Constant) and n.args[0].value == 0)
                    out.append(("pop", front))
                elif n.func.attr in ("remove", "clear", "insert", "append", "extend", "reverse", "sort"):
                    out.append(("mutate", n.func.attr))
            elif isinstance(n, ast.Call) and attr_chain(n.func) in ("self.flowmap.pop", "self.flowmap.clear", "self.flowmap.popitem"):
                out.append(("dellist",))
        if isinstance(node, ast.Delete):
            for t in node.targets:
                if is_flowlist(t):
                    out.append(("dellist",))
                else:
                    out.append(("mutate", norm(t)))
        if isinstance(node, ast.Assign) and any(is_flowlist(t) or attr_chain(t) == "self.flowmap" for t in node.targets):
            out.append(("mutate", "assign"))
        if isinstance(node, ast.Return):
            v = node.value
            out.append(("return", "None" if v is None or (isinstance(v, ast.Constant) and v.value is None) else norm(v)))
        return out

    def cond_event(self, expr, value, st):
        if is_flowlist(expr):
            return ("nonempty", value)
        if isinstance(expr, ast.Attribute) and expr.attr == "response" and isinstance(expr.value, ast.Name):
            return ("has-response", value)
        if isinstance(expr, ast.Compare) and len(expr.ops) == 1 and isinstance(expr.ops[0], (ast.In, ast.NotIn)) and attr_chain(expr.comparators[0]) == "self.flowmap":
            return ("known", value if isinstance(expr.ops[0], ast.In) else not value)
        return None


def check_next_flow(ctx):
    fn = ctx.func(F, "ServerPlayback.next_flow")
    W = (F, "ServerPlayback.next_flow", fn)
    sp = NextSpec()
    allow = lambda e: sp.cond_event(e, True, None) is not None
    reuse_mut, reuse_ret = None, set()
    pop_traces = []
    for reuse, nopop in itertools.product((False, True), repeat=2):
        eng = StrictEngine(NextSpec(), allow, "next_flow")
        trs = eng.terminal(fn, {"$server_replay_reuse": C(reuse), "$server_replay_nopop": C(nopop)})
        ctx.cells += 1
        ctx.paths += len(trs)
        for tr, how, _ in trs:
            if reuse or nopop:
                if any(e[0] in ("pop", "mutate", "dellist") for e in tr):
                    reuse_mut = reuse_mut or (reuse, nopop, tr)
                if not any(e[0] in ("pop", "mutate", "dellist") for e in tr):
                    reuse_ret |= {e[1] for e in tr if e[0] == "return" and e[1] != "None" and ("known", True) in tr}
            else:
                pop_traces.append(tr)
    if reuse_mut:
        ctx.fail("R52.3", W, "reuse mode consumes recordings", f"with server_replay_reuse={reuse_mut[0]}, server_replay_nopop={reuse_mut[1]} the path {list(reuse_mut[2])} mutates flowmap")
    else:
        ctx.ok("R52.3", "next_flow: reuse / nopop never mutates flowmap (3 cells)")
    # reuse returns the first recording with a response
    rets = [n for n in own_nodes(fn) if isinstance(n, ast.Return) and isinstance(n.value, ast.Call) and call_name(n.value) == "next"]
    ctx.require(len(rets) == 1 and (reuse_mut or (len(reuse_ret) == 1 and norm(rets[0].value) in reuse_ret)), f"next_flow: reuse-mode result not modelled: {sorted(reuse_ret)}")
    nx = rets[0].value
    ctx.require(len(nx.args) == 2 and isinstance(nx.args[0], ast.GeneratorExp) and isinstance(nx.args[1], ast.Constant) and nx.args[1].value is None, f"next_flow: {norm(nx)} not modelled")
    g = nx.args[0]
    gen = g.generators[0]
    ctx.require(len(g.generators) == 1 and isinstance(gen.target, ast.Name) and isinstance(g.elt, ast.Name) and g.elt.id == gen.target.id and is_flowlist(gen.iter), f"next_flow: {norm(g)} not modelled")
    has_resp = any(isinstance(c, ast.Attribute) and c.attr == "response" and isinstance(c.value, ast.Name) and c.value.id == gen.target.id for c in gen.ifs) and len(gen.ifs) == 1
    ctx.check(has_resp, "R52.3", W, f"reuse: {norm(nx)}", "reuse must serve the first recording that has a response (request() asserts rflow.response)",
              desc="next_flow (reuse): first recording of the list with a response, else None")
    # non-reuse: FIFO, each pop followed by an emptiness test that drops the empty list
    ctx.require(any(("pop", True) in tr or ("pop", False) in tr for tr in pop_traces), "next_flow: no consuming path found (shape not modelled)")
    bad = None
    for tr in pop_traces:
        for i, e in enumerate(tr):
            if e[0] == "pop":
                if not e[1]:
                    bad = bad or ("recordings are not taken from the front of the list (recording order)", tr)
                j = index_of(tr, lambda x: x[0] in ("nonempty", "pop", "return"), i + 1)
                # the next list-related event after a pop must be the emptiness test (loop re-test of .response may come in between)
                if j < 0 or tr[j][0] != "nonempty":
                    bad = bad or ("a pop is not followed by an emptiness test of the list (an empty list stays in flowmap and the next lookup raises IndexError)", tr)
                elif tr[j] == ("nonempty", False) and not (j + 1 < len(tr) and tr[j + 1] == ("dellist",)):
                    bad = bad or ("an emptied list is not deleted from flowmap", tr)
            if e[0] == "mutate":
                bad = bad or (f"unexpected mutation {e[1]}", tr)
        if any(e[0] == "pop" for e in tr) and ("known", True) not in tr:
            bad = bad or ("pop without checking that the key is known", tr)
    ctx.check(not bad, "R52.3", W, f"non-reuse: {bad[0] if bad else ''}", f"{bad[0] if bad else ''} (path {list(bad[1]) if bad else ''})",
              desc=f"next_flow (non-reuse): pop(0) only, every pop followed by an emptiness test, empty lists deleted ({len(pop_traces)} paths)")
    # a served recording has a response: `while not ret.response` (no break) or an if-guard dominates `return ret`
    served = [n for n in own_nodes(fn) if isinstance(n, ast.Return) and isinstance(n.value, ast.Name)]
    ctx.require(served, "next_flow: no `return <name>` (shape not modelled)")
    for r in served:
        name = r.value.id
        blk = r._parent
        body = next((getattr(blk, f) for f in ("body", "orelse", "finalbody") if r in getattr(blk, f, [])), None)
        ctx.require(body is not None, "next_flow: return not in a plain block")
        before = body[: body.index(r)]
        loops = [s for s in before if isinstance(s, ast.While) and norm(s.test) == f"not {name}.response" and not s.orelse and not any(isinstance(x, ast.Break) for x in ast.walk(s))]
        ok = False
        if loops:
            after = before[before.index(loops[-1]) + 1:]
            ok = not any(isinstance(x, ast.Name) and x.id == name and isinstance(x.ctx, ast.Store) for s in after for x in ast.walk(s))
        elif isinstance(blk, ast.If) and r in blk.body and norm(blk.test) == f"{name}.response":
            ok = True
        ctx.check(ok, "R52.3", W, f"return {name} without a `{name}.response` loop / guard", "a recording without a response may be served (request() asserts, the client gets nothing)",
                  desc=f"next_flow (non-reuse): `return {name}` only after `while not {name}.response`")


def check_reindex(ctx):
    add = ctx.func(F, "ServerPlayback.add_flows")
    W = (F, "ServerPlayback.add_flows", add)
    loops = [s for s in stmts_of(add) if isinstance(s, ast.For)]
    ctx.require(len(loops) == 1 and isinstance(loops[0].target, ast.Name) and attr_chain(loops[0].iter) == params_of(add)[1], "add_flows: loop over the flows not found")
    fv = loops[0].target.id
    sd = [c for c in ast.walk(loops[0]) if isinstance(c, ast.Call) and attr_chain(c.func) == "self.flowmap.setdefault"]
    ok = len(sd) == 1 and len(sd[0].args) == 2 and norm(sd[0].args[0]) == f"self._hash({fv})" and isinstance(sd[0].args[1], ast.List) and not sd[0].args[1].elts
    lst = None
    if ok and isinstance(sd[0]._parent, ast.Assign) and isinstance(sd[0]._parent.targets[0], ast.Name):
        lst = sd[0]._parent.targets[0].id
    apps = [c for c in ast.walk(loops[0]) if isinstance(c, ast.Call) and isinstance(c.func, ast.Attribute) and c.func.attr in ("append", "insert", "extend")
            and ((lst and isinstance(c.func.value, ast.Name) and c.func.value.id == lst) or c.func.value is (sd[0] if sd else None))]
    ok = ok and len(apps) == 1 and apps[0].func.attr == "append" and len(apps[0].args) == 1 and norm(apps[0].args[0]) == fv
    ctx.check(ok, "R52.3", W, "add_flows: flowmap.setdefault(self._hash(f), []).append(f)", "recordings must be indexed under their key, appended in recording order",
              desc="add_flows: setdefault(self._hash(f), []).append(f) for every HTTP flow")
    guards = [n for n in ast.walk(loops[0]) if isinstance(n, ast.If)]
    ok = all(norm(g.test) in (f"isinstance({fv}, http.HTTPFlow)",) for g in guards) and not any(isinstance(n, (ast.Break, ast.Continue, ast.Return)) for n in ast.walk(loops[0]))
    ctx.check(ok, "R52.3", W, f"add_flows skips flows: {[norm(g.test) for g in guards]}", "recordings are lost when (re)indexing", desc="add_flows: only non-HTTP flows are skipped")
    # load_flows: reset then add
    lf = ctx.func(F, "ServerPlayback.load_flows")
    body = [norm(s) for s in stmts_of(lf)]
    p = params_of(lf)[1]
    ctx.check(body == ["self.flowmap = {}", f"self.add_flows({p})"], "R52.3", (F, "ServerPlayback.load_flows", lf), f"load_flows: {'; '.join(body)}", "load_flows must replace the index by exactly the given flows",
              desc="load_flows: flowmap = {} ; add_flows(flows)")
    # recompute_hashes: eager snapshot of everything
    rc = ctx.func(F, "ServerPlayback.recompute_hashes")
    W = (F, "ServerPlayback.recompute_hashes", rc)
    st = stmts_of(rc)
    ctx.require(len(st) == 2 and isinstance(st[0], ast.Assign) and isinstance(st[0].targets[0], ast.Name) and isinstance(st[1], ast.Expr) and isinstance(st[1].value, ast.Call)
                and call_name(st[1].value) == "self.load_flows" and norm(st[1].value.args[0]) == st[0].targets[0].id, f"recompute_hashes not modelled: {norm(rc)}")
    snap = st[0].value
    info = snapshot_shape(snap)
    ctx.require(info is not None, f"recompute_hashes snapshot not modelled: {norm(snap)}")
    ctx.check(info["eager"], "R52.3", W, f"lazy snapshot {norm(snap)}", "load_flows resets flowmap before the generator is consumed: every remaining recording is lost",
              desc="recompute_hashes: snapshot is a list (taken before load_flows resets the map)")
    ctx.check(not info["filtered"], "R52.3", W, f"filtered snapshot {norm(snap)}", "recordings are lost by the re-index", desc="recompute_hashes: every flow of every list, unfiltered")
    # R52.4: recording order across keys
    ctx.check(info["ordered"], "R52.4", W, f"flows re-added grouped by old key ({info['how']} over self.flowmap.values())",
              "after a matching option changed, recordings whose keys become equal are served group by group (old key), not in recording order; "
              "accepted: re-sorting by a kept recording index (sorted(..., key=...)) or re-adding from a kept global list",
              desc="recompute_hashes: snapshot re-sorted by a recording index", snapshot=norm(snap))


def snapshot_shape(snap):
    """{'eager','filtered','ordered'} for the accepted ways of flattening flowmap, else None."""
    ordered = False
    if isinstance(snap, ast.Call) and call_name(snap) == "sorted" and len(snap.args) == 1 and kwarg(snap, "key") is not None:
        inner = snapshot_shape(snap.args[0])
        return None if inner is None else {**inner, "eager": True, "ordered": True}
    if isinstance(snap, ast.Call) and call_name(snap) == "list" and len(snap.args) == 1:
        inner = snapshot_shape(snap.args[0])
        return None if inner is None else {**inner, "eager": True}
    values = lambda e: isinstance(e, ast.Call) and attr_chain(e.func) == "self.flowmap.values" and not e.args
    if isinstance(snap, (ast.ListComp, ast.GeneratorExp)):
        gens = snap.generators
        shape = (len(gens) == 2 and values(gens[0].iter) and isinstance(gens[0].target, ast.Name)
                 and isinstance(gens[1].iter, ast.Name) and gens[1].iter.id == gens[0].target.id and isinstance(gens[1].target, ast.Name)
                 and isinstance(snap.elt, ast.Name) and snap.elt.id == gens[1].target.id)
        if not shape:
            return None
        return {"eager": isinstance(snap, ast.ListComp), "filtered": bool(gens[0].ifs or gens[1].ifs), "ordered": ordered, "how": "comprehension"}
    if isinstance(snap, ast.Call) and call_name(snap) == "sum" and len(snap.args) == 2 and values(snap.args[0]) and isinstance(snap.args[1], ast.List) and not snap.args[1].elts:
        return {"eager": True, "filtered": False, "ordered": False, "how": "sum"}
    if isinstance(snap, ast.Call) and call_name(snap) in ("itertools.chain.from_iterable", "chain.from_iterable") and len(snap.args) == 1 and values(snap.args[0]):
        return {"eager": False, "filtered": False, "ordered": False, "how": "chain"}
    return None


class RequestSpec(GenericSpec):
    def __init__(self, fparam, rvar):
        super().__init__(record_conds=False)
        self.f, self.rvar = fparam, rvar
        self.resp_src = {}

    def value(self, expr, st, depth):
        ch = attr_chain(expr)
        if ch in (OPT + "server_replay_kill_extra", OPT + "server_replay_extra"):
            return st.get("$" + ch[len(OPT):])
        if ch == "self.flowmap":
            return C(True)
        if isinstance(expr, ast.Call) and call_name(expr) == "self.next_flow":
            return st.get("$rflow")
        return super().value(expr, st, depth)

    def events(self, node, st):
        out = []
        for n in eval_order(node):
            if isinstance(n, ast.Call) and call_name(n) == f"{self.f}.kill":
                out.append(("kill",))
        if isinstance(node, ast.Assign) and len(node.targets) == 1:
            t = attr_chain(node.targets[0])
            v = node.value
            if t == f"{self.f}.response":
                out.append(("response", self.kind(v)))
            elif t == f"{self.f}.is_replay":
                out.append(("is_replay", v.value if isinstance(v, ast.Constant) else norm(v)))
            elif isinstance(node.targets[0], ast.Name):
                self.resp_src[node.targets[0].id] = self.kind(v)
        return out

    def kind(self, v):
        if isinstance(v, ast.Name) and v.id in self.resp_src:
            return self.resp_src[v.id]
        t = norm(v)
        if t in (f"{self.rvar}.response.copy()", f"{self.rvar}.response"):
            return "recorded"
        if isinstance(v, ast.Call) and call_name(v) == "http.Response.make" and v.args and norm(v.args[0]) == f"int({OPT}server_replay_extra)":
            return "status"
        return "other:" + t


def check_request(ctx):
    fn = ctx.func(F, "ServerPlayback.request")
    W = (F, "ServerPlayback.request", fn)
    fparam = params_of(fn)[1]
    rv = [n.targets[0].id for n in own_nodes(fn) if isinstance(n, ast.Assign) and isinstance(n.value, ast.Call) and call_name(n.value) == "self.next_flow" and isinstance(n.targets[0], ast.Name)]
    ctx.require(len(rv) == 1, "request: `rflow = self.next_flow(f)` not found")
    nf = [n for n in own_nodes(fn) if isinstance(n, ast.Call) and call_name(n) == "self.next_flow"]
    ctx.require(len(nf) == 1 and norm(nf[0].args[0]) == fparam, "request: next_flow is not called exactly once with the request flow")
    bad = []
    for hit, kill_extra, extra in itertools.product((True, False), (False, True), ("forward", "kill", "204", "404")):
        sp = RequestSpec(fparam, rv[0])
        eng = StrictEngine(sp, lambda e: attr_chain(e) in (OPT + "server_replay_refresh", f"{rv[0]}.response"), "request")
        trs = eng.terminal(fn, {"$rflow": C(True) if hit else C(None), "$server_replay_kill_extra": C(kill_extra), "$server_replay_extra": C(extra)})
        ctx.cells += 1
        ctx.paths += len(trs)
        if hit:
            want = {("response", "recorded"), ("is_replay", "response")}
        elif kill_extra or extra == "kill":
            want = {("kill",)}
        elif extra != "forward":
            want = {("response", "status"), ("is_replay", "response")}
        else:
            want = set()
        for tr, how, _ in trs:
            got = set(tr)
            if got != want or how != "return":
                bad.append((f"recorded response available={hit}, kill_extra={kill_extra}, extra={extra!r}", sorted(want), sorted(got)))
    for cell, want, got in bad[:4]:
        ctx.fail("R52.3", W, f"request: {cell}: does {got}, expected {want}", "unmatched / matched requests are not handled as the option table says")
    if not bad:
        ctx.ok("R52.3", "request: 16 cells (recorded -> copy + is_replay='response'; kill; status -> Response.make(int(extra)); forward -> untouched)")


# ---------------------------------------------------------------------------------------------------
# R52.3 / R52.4 by interpretation: histories of the addon's own methods against the reference model of the property


def _replay_world(ctx, reuse, nopop):
    """An interpreter (pyint) over serverplayback.py in which ``self._hash`` is the abstract key function `flow -> flow.keys[<active option
    configuration>]` (key composition itself is R52.2's business), ``ctx.options`` carries the two serving options and the UI update hook is a
    no-op.  -> (interp, addon record, config cell)"""
    from ..pyint import Interp
    from ..pyint import Raised
    from ..pyint import Rec

    class ReplayInterp(Interp):
        def builtin(self, name, args, kwargs, e, env, mod, depth):
            if name == "next" and args and isinstance(args[0], list):  # generator expressions are materialised by pyint
                args = [iter(args[0])] + list(args[1:])
            return Interp.builtin(self, name, args, kwargs, e, env, mod, depth)

    cfg = {"mode": "A"}
    it = ReplayInterp(ctx.model, externals={
        "self._hash": lambda f: f.keys[cfg["mode"]],
        "ctx.master.addons.trigger": lambda *a, **k: None,
        "hooks.UpdateHook": lambda *a, **k: None,
    })
    opts = Rec("Options", server_replay_reuse=reuse, server_replay_nopop=nopop, server_replay_kill_extra=False, server_replay_extra="forward", server_replay_refresh=False)
    it.overrides[(F, "ctx")] = Rec("ctx", options=opts)
    addon = Rec("ServerPlayback", _impl=(F, "ServerPlayback"), flowmap={}, configured=True)
    return it, addon, cfg


def _flows(spec):
    """[(keyA, keyB, has_response)] -> recordings as abstract HTTPFlow records, numbered in recording order."""
    from ..pyint import Rec

    return [Rec("HTTPFlow", _bases=("Flow",), _name=f"rec{i}", idx=i, keys={"A": a, "B": b}, response=(Rec("Response", _name=f"resp{i}") if r else None), request=Rec("Request"))
            for i, (a, b, r) in enumerate(spec)]


def _request(key):
    from ..pyint import Rec

    return Rec("HTTPFlow", _bases=("Flow",), _name=f"req:{key}", idx=None, keys={"A": key, "B": key}, response=None, request=Rec("Request"))


class _Ref:
    """The property, coded from its statement: recordings in recording order; a request is answered by the first not-yet-served recording with
    the request's key that has a response; without reuse that recording is never served again."""

    def __init__(self, spec, reuse):
        self.recs = [(i, a, b, r) for i, (a, b, r) in enumerate(spec)]
        self.reuse = reuse
        self.served = set()
        self.mode = "A"

    def key(self, rec):
        return rec[1] if self.mode == "A" else rec[2]

    def serve(self, k):
        for rec in self.recs:
            if rec[3] and rec[0] not in self.served and self.key(rec) == k:
                if not self.reuse:
                    self.served.add(rec[0])
                return rec[0]
        return None


SERVE_SETS = {
    "complete recordings, two keys": [("a", "a", True), ("a", "a", True), ("b", "b", True)],
    "response-less recording before complete ones": [("a", "a", False), ("a", "a", True), ("a", "a", True)],
    "response-less recording between complete ones": [("a", "a", True), ("a", "a", False), ("a", "a", True)],
    "only response-less recordings": [("a", "a", False), ("a", "a", False)],
    "interleaved keys with gaps": [("a", "a", False), ("b", "b", True), ("a", "a", True), ("b", "b", False), ("a", "a", True), ("b", "b", True)],
    "nothing recorded": [],
}
SERVE_REQUESTS = [["a", "a", "a", "a"], ["a", "b", "a", "b", "a", "b"], ["b", "a", "a", "a"], ["c", "a", "b", "c"], ["b", "b", "b", "a", "a"]]
REINDEX_SETS = {
    "narrowing: one old key splits into two": [("x", "p", True), ("x", "q", True), ("x", "p", True)],
    "widening: two old keys merge": [("x", "p", True), ("y", "p", True), ("x", "p", False), ("y", "p", True)],
    "regrouping: old and new keys cross": [("x", "p", True), ("y", "q", True), ("x", "q", False), ("y", "p", True), ("x", "q", True)],
    "keys swap: one recording's old key is another one's new key": [("p", "q", True), ("q", "p", True), ("p", "q", True)],
    "single recording": [("x", "p", True)],
    "nothing recorded": [],
}


def check_histories(ctx):
    """-> verdict of the cross-group order after a re-index (None = in recording order, else a witness text); used for R52.4 only when the
    structural reading of recompute_hashes is not available."""
    from ..pyint import Raised

    nf = ctx.func(F, "ServerPlayback.next_flow")
    rc = ctx.func(F, "ServerPlayback.recompute_hashes")
    for q in ("load_flows", "add_flows"):
        ctx.func(F, "ServerPlayback." + q)

    def call(it, addon, meth, *args):
        try:
            return ("ok", it.method(addon, meth, *args))
        except Raised as r:
            return ("raise", r.name)

    def idx(res):
        if res[0] == "raise":
            return "raises " + res[1]
        v = res[1]
        return None if v is None else getattr(v, "idx", "?")

    # (a) serving histories
    bad = None
    n = 0
    for (reuse, nopop), (name, spec), reqs in itertools.product(((False, False), (True, False), (False, True)), SERVE_SETS.items(), SERVE_REQUESTS):
        it, addon, cfg = _replay_world(ctx, reuse, nopop)
        ref = _Ref(spec, reuse or nopop)
        r = call(it, addon, "load_flows", _flows(spec) + [_tcp_flow()])
        ctx.cells += 1
        n += 1
        got, want = [], []
        if r[0] == "raise":
            got = ["load_flows raises " + r[1]]
        else:
            for k in reqs:
                got.append(idx(call(it, addon, "next_flow", _request(k))))
                want.append(ref.serve(k))
                if isinstance(got[-1], str):
                    break
        if got != want[: len(got)] or len(got) != len(reqs):
            bad = bad or (f"recordings [{', '.join(f'#{i}:{a}' + ('' if r_ else ' (no response)') for i, (a, _, r_) in enumerate(spec))}] ({name}), server_replay_reuse={reuse} server_replay_nopop={nopop}, "
                          f"requests {reqs}: served {got}, the property asks for {want}")
    mode = "reuse" if bad and ("reuse=True" in bad or "nopop=True" in bad) else "non-reuse"
    ctx.check(bad is None, "R52.3", (F, "ServerPlayback.next_flow", nf), f"next_flow histories ({mode}): recordings not served first-unserved-with-a-response per key" if bad else "next_flow histories",
              f"{bad} - a recording is served twice / skipped / out of recording order, or the lookup raises", desc=f"next_flow interpreted on {n} histories (6 recorded sets x 5 request sequences x reuse/nopop): "
              "every request gets the first not-yet-served recording of its key that has a response (reuse: the first one, every time)")

    # (b) re-index histories: load under option configuration A, optionally serve one request, switch to B, recompute_hashes, then drain every new key
    if bad is not None:
        ctx.note("recompute_hashes histories not evaluated: they are observed through next_flow, which itself violates the serving discipline")
        return None
    order_wit = None
    n = 0
    has_count = ctx.model.has(F, "ServerPlayback.count")
    for (name, spec), pre in itertools.product(REINDEX_SETS.items(), ([], ["x"], ["y", "x"], ["p"])):
        it, addon, cfg = _replay_world(ctx, False, False)
        ref = _Ref(spec, False)
        ctx.cells += 1
        n += 1
        r = call(it, addon, "load_flows", _flows(spec))
        for k in pre:
            if r[0] == "ok":
                r = call(it, addon, "next_flow", _request(k))
                ref.serve(k)
        if r[0] == "ok":
            before = call(it, addon, "count") if has_count else None
            cfg["mode"] = ref.mode = "B"
            r = call(it, addon, "recompute_hashes")
            after = call(it, addon, "count") if has_count and r[0] == "ok" else None
            if before != after:
                bad = bad or f"{name}: replay.server.count is {before[1]} before and {after[1]} after the re-index (recordings lost or duplicated)"
        if r[0] == "raise":
            bad = bad or f"{name}: raises {r[1]}"
            continue
        left = [rec for rec in ref.recs if rec[3] and rec[0] not in ref.served]
        for kb in sorted({rec[2] for rec in ref.recs} | {"unknown"}):
            exp = [rec[0] for rec in left if rec[2] == kb]
            got = [idx(call(it, addon, "next_flow", _request(kb))) for _ in range(len(exp) + 1)]
            desc = (f"recordings [{', '.join(f'#{i}:{a}->{b}' + ('' if r_ else ' (no response)') for i, (a, b, r_) in enumerate(spec))}] (old key->new key; {name}), {len(pre)} served before the option change: "
                    f"requests for new key {kb!r} get {got}, the remaining recordings of that key are {exp}")
            if sorted(map(str, got[:-1])) != sorted(map(str, exp)) or got[-1] is not None:
                bad = bad or desc
            elif got[:-1] != exp:
                same_old = all(spec[a][0] == spec[b][0] for a in exp for b in exp)
                if same_old or any(got[:-1].index(a) > got[:-1].index(b) for a in exp for b in exp if a < b and spec[a][0] == spec[b][0]):
                    bad = bad or desc + " (recordings of one old key out of order)"
                else:
                    order_wit = order_wit or desc
    ctx.check(bad is None, "R52.3", (F, "ServerPlayback.recompute_hashes", rc), "recompute_hashes histories: remaining recordings not re-indexed under their own new keys" if bad else "recompute_hashes histories",
              f"{bad} - after a matching option changed a recording is lost, duplicated, or answers a request whose key differs from its own", desc=f"recompute_hashes interpreted on {n} histories (6 recorded sets: keys "
              "split / merge / cross / swap; 0-2 served before): every remaining recording is served exactly once, and only for its own new key")
    return order_wit


def _tcp_flow():
    from ..pyint import Rec

    return Rec("TCPFlow", _bases=("Flow",), _name="tcp", idx="tcp", keys={"A": "a", "B": "a"}, response=None)


def check(ctx):
    ctx.rule("R52.1", "options read by _hash == HASH_OPTIONS; configure re-indexes when one of them changes; all options registered")
    ctx.rule("R52.2", "key composition per option cell: scheme/method/path, content or filtered form fields, host, port, non-ignored query pairs, configured headers")
    ctx.rule("R52.4", "recompute_hashes re-adds the remaining recordings in an order that preserves recording order across keys (kept global list / "
             "sequence index / sort by a recording index); flattening flowmap.values() group by group is the violation")
    ctx.rule("R52.3", "reuse never consumes and serves the first recording with a response; non-reuse pops from the front, never serves a response-less recording, "
             "deletes empty lists; re-index keeps every remaining recording; request() follows the option table")
    check_options(ctx)
    check_key(ctx)
    # serving discipline and re-index: decided by interpreting the addon's methods on histories; the structural path rules refine the verdict
    # (and carry the known finding of R52.4) as long as the code has a shape they model
    order_wit = check_histories(ctx)
    structural = 0
    try:
        check_next_flow(ctx)
        structural += 1
    except AnalysisError as e:
        ctx.note(f"R52.3 structural path rules on next_flow not applicable ({e}); the interpreted histories are the decision")
    try:
        check_reindex(ctx)
        structural += 1
    except AnalysisError as e:
        ctx.note(f"R52.3/R52.4 structural reading of add_flows / load_flows / recompute_hashes not applicable ({e}); the interpreted histories are the decision")
        rc = ctx.func(F, "ServerPlayback.recompute_hashes")
        ctx.check(order_wit is None, "R52.4", (F, "ServerPlayback.recompute_hashes", rc), "recordings whose keys become equal are not served in recording order after a re-index",
                  f"{order_wit}", desc="recompute_hashes histories: merged recordings are served in recording order")
    check_request(ctx)
    ctx.assume("loops unrolled once; ctx.options values are stable during one hook invocation")
    ctx.assume("histories: _hash is an arbitrary key function of the flow and the matching options (its composition is R52.2); recorded sets and request sequences are the representatives listed in SERVE_SETS / SERVE_REQUESTS / REINDEX_SETS")
    if not [f for f in ctx.findings if f.rule != "R52.4"]:
        ctx.expect_instances("R52.1", 6 + 2)
        ctx.expect_instances("R52.2", 5 + 4)
        ctx.expect_instances("R52.3", 2 + 1 + (4 if structural >= 1 else 0) + (5 if structural == 2 else 0))
    ctx.expect_instances("R52.4", 1)


MUTANTS = [
    Mutant("option-missing-from-hash-options", F, "    \"server_replay_ignore_port\",\n    \"server_replay_use_headers\",\n]", "    \"server_replay_use_headers\",\n]", "R52.1"),
    Mutant("hash-options-lists-unread-option", F, "    \"server_replay_use_headers\",\n]", "    \"server_replay_use_headers\",\n    \"server_replay_refresh\",\n]", "R52.1"),
    Mutant("configure-does-not-reindex", F, "        if any(option in updated for option in HASH_OPTIONS):\n            self.recompute_hashes()\n", "", "R52.1"),
    Mutant("key-without-method", F, "key: list[Any] = [str(r.scheme), str(r.method), str(path)]", "key: list[Any] = [str(r.scheme), str(path)]", "R52.2"),
    Mutant("ignore-host-inverted", F, "        if not ctx.options.server_replay_ignore_host:", "        if ctx.options.server_replay_ignore_host:", "R52.2"),
    Mutant("port-always-in-key", F, "        if not ctx.options.server_replay_ignore_port:\n            key.append(r.port)", "        key.append(r.port)", "R52.2"),
    Mutant("content-ignored-when-payload-params-set", F, "            else:\n                key.append(str(r.raw_content))", "            elif not ctx.options.server_replay_ignore_payload_params:\n                key.append(str(r.raw_content))", "R52.2"),
    Mutant("urlencoded-fields-unfiltered", F, "                    if k not in ctx.options.server_replay_ignore_payload_params\n", "", "R52.2"),
    Mutant("query-values-not-in-key", F, "            key.append(p[0])\n            key.append(p[1])", "            key.append(p[0])", "R52.2"),
    Mutant("ignored-params-kept", F, "            if p[0] not in ignore_params:\n                filtered.append(p)", "            filtered.append(p)", "R52.2"),
    Mutant("blank-query-values-dropped", F, "urllib.parse.parse_qsl(query, keep_blank_values=True)", "urllib.parse.parse_qsl(query)", "R52.2"),
    Mutant("headers-not-appended", F, "            key.append(headers)\n", "", "R52.2"),
    Mutant("reuse-consumes", F, "                return next(\n                    (flow for flow in self.flowmap[hash] if flow.response), None\n                )",
           "                self.flowmap[hash].append(self.flowmap[hash].pop(0))\n                return next(\n                    (flow for flow in self.flowmap[hash] if flow.response), None\n                )", "R52.3"),
    Mutant("reuse-serves-responseless", F, "(flow for flow in self.flowmap[hash] if flow.response), None", "(flow for flow in self.flowmap[hash]), None", "R52.3"),
    Mutant("nopop-alias-ignored", F, "if ctx.options.server_replay_reuse or ctx.options.server_replay_nopop:", "if ctx.options.server_replay_reuse:", "R52.3"),
    Mutant("serve-from-the-back", F, "                ret = self.flowmap[hash].pop(0)\n                while", "                ret = self.flowmap[hash].pop()\n                while", "R52.3"),
    Mutant("empty-list-left-behind", F, "                if not self.flowmap[hash]:\n                    del self.flowmap[hash]\n                return ret", "                return ret", "R52.3"),
    Mutant("responseless-recording-served", F, "                while not ret.response:\n                    if self.flowmap[hash]:\n                        ret = self.flowmap[hash].pop(0)\n                    else:\n                        del self.flowmap[hash]\n                        return None\n", "", "R52.3"),
    Mutant("shared-lookup-then-pop-head", F, """        if hash in self.flowmap:
            if ctx.options.server_replay_reuse or ctx.options.server_replay_nopop:
                return next(
                    (flow for flow in self.flowmap[hash] if flow.response), None
                )
            else:
                ret = self.flowmap[hash].pop(0)
                while not ret.response:
                    if self.flowmap[hash]:
                        ret = self.flowmap[hash].pop(0)
                    else:
                        del self.flowmap[hash]
                        return None
                if not self.flowmap[hash]:
                    del self.flowmap[hash]
                return ret
        else:
            return None
""", """        flows = self.flowmap.get(hash)
        if not flows:
            return None
        ret = next((flow for flow in flows if flow.response), None)
        if ctx.options.server_replay_reuse or ctx.options.server_replay_nopop:
            return ret
        if ret:
            flows.pop(0)
        else:
            flows.clear()
        if not flows:
            del self.flowmap[hash]
        return ret
""", "R52.3"),
    Mutant("served-recording-stays-queued", F, "                ret = self.flowmap[hash].pop(0)\n                while", "                ret = self.flowmap[hash][0]\n                while", "R52.3"),
    Mutant("responseless-head-blocks-the-key", F, "                while not ret.response:\n                    if self.flowmap[hash]:\n                        ret = self.flowmap[hash].pop(0)\n                    else:\n                        del self.flowmap[hash]\n                        return None\n",
           "                if not ret.response:\n                    self.flowmap[hash].insert(0, ret)\n                    return None\n", "R52.3"),
    Mutant("reindex-rekeys-whole-buckets-by-first-flow", F, "        flows = [flow for lst in self.flowmap.values() for flow in lst]\n        self.load_flows(flows)\n",
           "        flowmap: dict[Hashable, list[http.HTTPFlow]] = {}\n        for flows in self.flowmap.values():\n            flowmap.setdefault(self._hash(flows[0]), []).extend(flows)\n        self.flowmap = flowmap\n", "R52.3"),
    Mutant("reindex-adds-without-reset", F, "        flows = [flow for lst in self.flowmap.values() for flow in lst]\n        self.load_flows(flows)\n",
           "        flows = [flow for lst in self.flowmap.values() for flow in lst]\n        self.add_flows(flows)\n", "R52.3"),
    Mutant("lazy-reindex-snapshot", F, "flows = [flow for lst in self.flowmap.values() for flow in lst]", "flows = (flow for lst in self.flowmap.values() for flow in lst)", "R52.3"),
    Mutant("reindex-drops-responseless", F, "flows = [flow for lst in self.flowmap.values() for flow in lst]", "flows = [flow for lst in self.flowmap.values() for flow in lst if flow.response]", "R52.3"),
    Mutant("reindex-flattens-with-sum", F, "flows = [flow for lst in self.flowmap.values() for flow in lst]", "flows = sum(self.flowmap.values(), [])", "R52.4"),
    Mutant("add-flows-prepends", F, "                lst.append(f)", "                lst.insert(0, f)", "R52.3"),
    Mutant("kill-option-ignored", F, "                ctx.options.server_replay_kill_extra\n                or ctx.options.server_replay_extra == \"kill\"", "                ctx.options.server_replay_kill_extra", "R52.3"),
    Mutant("replayed-flow-not-marked", F, "                f.response = response\n                f.is_replay = \"response\"", "                f.response = response", "R52.3"),
]
