"""C18 - ALPN negotiation with the client is consistent with offers and upstream.

Decided:
  R18.1 guard dominance in ``alpn_select_callback``: on every path the returned value is ``SSL.NO_OVERLAPPING_PROTOCOLS`` or a
        name proven to be a member of the ``options`` parameter (latest fact about it on the path is ``x in options`` taken true,
        or it is the loop variable of ``for x in options``).  => selected in offered or none, for *all* inputs.
  R18.2 decision table: ``alpn_select_callback`` is executed by a small concrete AST interpreter (anything it does not model is an
        ANALYSIS-ERROR) for every offer list of length <= 3 (quick: <= 2) over the protocol classes
        {h2, h3, http/1.1, http/1.0, http/0.9, unknown}, client_alpn in {None, b"", each offered, one not offered},
        server_alpn in {None, b"", each offered, each known-but-not-offered}, http2 in {T, F}.  Expected:
          client override set      -> it if offered else none          (an addon / the secure-web-proxy rule chose it explicitly)
          upstream protocol known  -> it if offered else none          (F-C18 was the "else" falling through; repaired, mutant kept)
          upstream negotiated none -> none
          upstream unknown         -> a member of HTTP_ALPNS (http2 on) / HTTP1_ALPNS (http2 off) that was offered - the client's first
                                      such offer - and none iff there is no such offer; never h2 with http2 off.
        plus the constants: HTTP1_ALPNS contains neither h2 nor h3.
  R18.3 wiring in ``TlsConfig``: ``tls_start_client`` stores AppData(client_alpn, server_alpn, http2) with client_alpn = b"http/1.1"
        exactly in the worlds where the layer stack is [HttpProxy, <one more layer>] (evaluated semantically on sample stacks) and
        ``client.alpn`` otherwise, server_alpn = ``server.alpn`` of ``tls_start.context.server``, http2 = the option; the callback is
        handed to ``create_client_proxy_context`` which installs it; ``tls_start_server`` never mirrors ``h2`` upstream with http2 off.
Not decided: OpenSSL calling the callback / honouring its answer (library).
"""

from __future__ import annotations

import ast
import itertools

from ..core import AnalysisError
from ..core import norm
from ..model import attr_chain
from ..model import call_name
from ..model import calls_in
from ..model import last_attr
from ..model import walk_in_order
from ..paths import C
from ..paths import is_const
from ..paths import R
from ..paths import traces_of
from ..selftest import Mutant
from ._helpers_B import ceval
from ._helpers_B import FlowSpec
from ._helpers_B import MiniInterp
from ._helpers_B import module_const
from ._helpers_B import NotAnAtom

PROP = "C18"
REG = {
    "strength": "strong",
    "technique": "guard dominance on all paths (membership facts) + exhaustive decision table by concrete AST interpretation over a finite "
    "protocol-class domain + dataflow of the AppData wiring evaluated on sample layer stacks",
    "claim": "alpn_select_callback returns an offered protocol or NO_OVERLAPPING_PROTOCOLS on every path; over the finite class domain it "
    "implements exactly the override / upstream-known / upstream-none / generic table of the property; tls_start_client feeds it "
    "client_alpn=http/1.1 exactly for the secure-web-proxy outer connection, server.alpn and the http2 option; h2 is not mirrored upstream with http2 off.",
    "note": "The table quantifies over protocol classes (one representative per class, offer lists up to length 3); R18.1 covers arbitrary values. "
    "A client override takes precedence over a known upstream protocol (by design: it is set explicitly).",
}
T = "mitmproxy/addons/tlsconfig.py"
PT = "mitmproxy/proxy/layers/tls.py"
NT = "mitmproxy/net/tls.py"

NONE = "<NO_OVERLAPPING_PROTOCOLS>"
H2, H3, H11, H10, H09, UNK = b"h2", b"h3", b"http/1.1", b"http/1.0", b"http/0.9", b"x-unknown"
CLASSES = (H2, H3, H11, H10, H09, UNK)


class RetSpec(FlowSpec):
    def events(self, node, st):
        out = list(super().events(node, st))
        if isinstance(node, ast.Return):
            out.append(("ret", node.value))
        return out


def _r18_1(ctx, fn, options):
    where = lambda n: (T, "alpn_select_callback", n)  # noqa: E731
    for n in walk_in_order(fn):
        if isinstance(n, ast.Return) and isinstance(n.value, ast.IfExp):
            raise AnalysisError("alpn_select_callback: `return a if c else b` is not modelled by R18.1")
        if isinstance(n, (ast.Assign, ast.AugAssign, ast.AnnAssign, ast.NamedExpr, ast.For)):
            targets = n.targets if isinstance(n, ast.Assign) else [n.target]
            for t in targets:
                if any(isinstance(x, ast.Name) and x.id == options for x in ast.walk(t)):
                    raise AnalysisError("alpn_select_callback rebinds its offers parameter (not modelled)")
        if isinstance(n, ast.Call) and attr_chain(n.func).startswith(options + "."):
            raise AnalysisError(f"alpn_select_callback calls a method on the offers list: {norm(n)} (not modelled)")
    spec = RetSpec(keep=lambda ev: ev[0] in ("cond", "loop", "assign", "ret"), loops=True, implicit_raises=False)
    res, eng = traces_of(fn, spec)
    seen = {}
    for t, how, st in res:
        ctx.paths += 1
        if how != "return":
            continue
        rets = [e for e in t if e[0] == "ret"]
        if not rets:
            ctx.fail("R18.1", where(fn), "implicit return None", "a path falls off the end of the callback: the answer is neither an offered protocol nor NO_OVERLAPPING_PROTOCOLS")
            continue
        v = rets[-1][1]
        key = id(v)
        ok, why = False, ""
        if v is not None and attr_chain(v).split(".")[-1] == "NO_OVERLAPPING_PROTOCOLS":
            ok, why = True, "none"
        elif isinstance(v, ast.Name):
            x = v.id
            i = max(k for k, e in enumerate(t) if e[0] == "ret")
            for e in reversed(t[:i]):
                if e[0] == "assign" and e[1] == x:
                    break
                if e[0] == "loop" and isinstance(e[2].target, ast.Name) and e[2].target.id == x:
                    if e[1] and isinstance(e[2].iter, ast.Name) and e[2].iter.id == options:
                        ok, why = True, f"loop variable of `for {x} in {options}`"
                    break
                if e[0] == "cond":
                    c = e[3]
                    if (isinstance(c, ast.Compare) and len(c.ops) == 1 and isinstance(c.left, ast.Name) and c.left.id == x
                            and isinstance(c.comparators[0], ast.Name) and c.comparators[0].id == options):
                        if (isinstance(c.ops[0], ast.In) and e[2]) or (isinstance(c.ops[0], ast.NotIn) and not e[2]):
                            ok, why = True, f"`{x} in {options}` holds on the path"
                            break
        prev = seen.get(key)
        seen[key] = (v, (prev[1] if prev else True) and ok, why or (prev[2] if prev else ""))
    ctx.require(seen, "alpn_select_callback: no return found")
    for v, ok, why in seen.values():
        ctx.check(ok, "R18.1", where(v), f"return {norm(v) if v is not None else 'None'}",
                  "the returned value is not proven to be one of the client's offers on every path reaching this return (no dominating `in options` test / not the loop variable over options)",
                  desc=f"return {norm(v) if v is not None else 'None'}: {why}")
    ctx.expect_instances("R18.1", 4)  # 7 returns today; fewer than 4 means the callback changed shape entirely


# ---- R18.2 ---------------------------------------------------------------------------------------


def _interp(ctx, fn, conn_param, http_alpns, http1_alpns):
    CONN = object()
    holder = {}

    def atom(node, env):
        if isinstance(node, ast.Call) and isinstance(node.func, ast.Attribute) and node.func.attr == "get_app_data" and not node.args:
            if isinstance(node.func.value, ast.Name) and env.get(node.func.value.id) is CONN:
                return holder["app_data"]
        if isinstance(node, ast.Attribute):
            ch = attr_chain(node)
            if ch.split(".")[-1] == "NO_OVERLAPPING_PROTOCOLS":
                return NONE
            if ch == "proxy_tls.HTTP_ALPNS":
                return http_alpns
            if ch == "proxy_tls.HTTP1_ALPNS":
                return http1_alpns
            if ch == "proxy_tls.HTTP2_ALPN":
                return H2
            if ch == "proxy_tls.HTTP3_ALPN":
                return H3
        raise NotAnAtom

    mi = MiniInterp(atom=atom, what="alpn_select_callback")

    def run(options, client_alpn, server_alpn, http2):
        holder["app_data"] = {"client_alpn": client_alpn, "server_alpn": server_alpn, "http2": http2}
        return mi.run(fn, {conn_param: CONN, fn.args.args[1].arg: list(options)})

    return run


def expected(options, client_alpn, server_alpn, http2, http_alpns, http1_alpns):
    """-> (set of acceptable answers, label of the table row)"""
    if client_alpn is not None:
        return ({client_alpn} if client_alpn in options else {NONE}), "client override"
    if server_alpn:
        return ({server_alpn} if server_alpn in options else {NONE}), "upstream known"
    if server_alpn == b"":
        return {NONE}, "upstream negotiated none"
    allowed = http_alpns if http2 else http1_alpns
    first = next((o for o in options if o in allowed), None)
    return ({first} if first is not None else {NONE}), "upstream unknown"


def _r18_2(ctx, fn):
    m = ctx.model
    mod = m.module(T)
    ctx.require(mod.imports.get("proxy_tls") == "mitmproxy.proxy.layers.tls", "tlsconfig no longer imports mitmproxy.proxy.layers.tls as proxy_tls")
    http1 = module_const(m, PT, "HTTP1_ALPNS")
    http = module_const(m, PT, "HTTP_ALPNS")
    ctx.require(isinstance(http1, tuple) and isinstance(http, tuple) and all(isinstance(x, bytes) for x in http1 + http), "HTTP_ALPNS / HTTP1_ALPNS are not tuples of bytes")
    ctx.check(H2 not in http1 and H3 not in http1, "R18.2", (PT, "<module>", m.const(PT, "HTTP1_ALPNS")), "HTTP1_ALPNS contains h2/h3",
              "with http2 disabled the generic selection may pick HTTP/2 or HTTP/3", desc=f"HTTP1_ALPNS={http1!r} has no h2/h3")
    params = [a.arg for a in fn.args.args]
    ctx.require(len(params) == 2, "alpn_select_callback signature changed")
    run = _interp(ctx, fn, params[0], http, http1)
    maxlen = 3 if ctx.tier == "thorough" else 2
    rows = {}
    bad = {}
    for n in range(0, maxlen + 1):
        for options in itertools.permutations(CLASSES, n):
            not_offered = [c for c in CLASSES if c not in options]
            clients = [None, b""] + list(options) + not_offered[:1]
            servers = [None, b""] + list(options) + not_offered
            for ca in clients:
                for sa in servers:
                    for http2 in (True, False):
                        got = run(options, ca, sa, http2)
                        want, row = expected(options, ca, sa, http2, http, http1)
                        ctx.cells += 1
                        rows[row] = rows.get(row, 0) + 1
                        problems = []
                        if got != NONE and got not in options:
                            problems.append("selected a protocol the client did not offer")
                        if got not in want:
                            problems.append(f"{row}: expected {sorted(map(repr, want))}")
                        if not http2 and ca is None and not sa and got == H2:
                            problems.append("h2 selected although http2 is disabled")
                        if problems:
                            b = bad.setdefault(row, [])
                            if len(b) < 3:
                                b.append({"options": list(options), "client_alpn": ca, "server_alpn": sa, "http2": http2, "got": got, "problems": problems})
                            bad[row + "#n"] = bad.get(row + "#n", 0) + 1
                        elif len(ctx.samples) < 6 and n == 2 and ca is None and sa in (H2, None) and options[0] == H11:
                            ctx.sample({"rule": "R18.2", "options": [o.decode() for o in options], "client_alpn": ca, "server_alpn": sa and sa.decode(), "http2": http2, "selected": got if got == NONE else got.decode()})
    ctx.require(set(rows) == {"client override", "upstream known", "upstream negotiated none", "upstream unknown"}, f"table rows not all exercised: {rows}")
    for row in sorted(rows):
        ex = bad.get(row)
        ctx.check(not ex, "R18.2", (T, "alpn_select_callback", fn), f"decision table row: {row}",
                  f"{bad.get(row + '#n', 0)} of {rows[row]} cells wrong, e.g. {ex[0] if ex else ''}", desc=f"row '{row}': {rows[row]} cells", examples=ex)
    ctx.expect_instances("R18.2", 5)


# ---- R18.3 ---------------------------------------------------------------------------------------


class AppDataSpec(FlowSpec):
    def events(self, node, st):
        out = list(super().events(node, st))
        for n in ast.walk(node):
            if isinstance(n, ast.Call) and call_name(n) == "AppData":
                if n.args or any(k.arg is None for k in n.keywords):
                    raise AnalysisError(f"AppData built with positional/starred arguments: {norm(n)} (not modelled)")
                vals = tuple(sorted((k.arg, self._deep(k.value, st)) for k in n.keywords))
                par = getattr(n, "_parent", None)
                sink = call_name(par) if isinstance(par, ast.Call) else ""
                out.append(("appdata", vals, sink))
        return out

    def _deep(self, expr, st):
        """value of expr with locals substituted: R('a.b.c') where the head local is itself a reference"""
        v = self.value(expr, st, 0)
        if v[0] == "r":
            head, _, rest = v[1].partition(".")
            hv = st.get(f"0:{head}")
            if hv[0] == "r" and rest:
                return R(hv[1] + "." + rest)
        return v


NL = "mitmproxy/addons/next_layer.py"
LAYER_BASES = {
    "ClientTLSLayer": ("TLSLayer", "TunnelLayer", "Layer"),
    "ServerTLSLayer": ("TLSLayer", "TunnelLayer", "Layer"),
}


def _explicit_proxy_stacks(ctx):
    """Layer stacks (class names below the mode layer) that NextLayer._setup_explicit_http_proxy builds for a client that starts
    with a TLS record - read from the function's AST: the ordered `stack /= layers.X(...)` statements, one alternative per branch."""
    fn = ctx.func(NL, "NextLayer._setup_explicit_http_proxy")

    def pushes(stmts):  # -> list of alternatives, each a list of class names
        alts = [[]]
        for st in stmts:
            if isinstance(st, ast.AugAssign) and isinstance(st.op, ast.Div) and isinstance(st.target, ast.Name) and isinstance(st.value, ast.Call):
                name = last_attr(st.value.func)
                ctx.require(bool(name), f"_setup_explicit_http_proxy: pushed layer not understood: {norm(st)}")
                alts = [a + [name] for a in alts]
            elif isinstance(st, ast.If):
                branches = [pushes(st.body), pushes(st.orelse) if st.orelse else [[]]]
                alts = [a + b for a in alts for br in branches for b in br]
            elif isinstance(st, (ast.For, ast.While, ast.With, ast.Try, ast.Match)):
                if any(isinstance(x, ast.AugAssign) for x in ast.walk(st)):
                    raise AnalysisError(f"_setup_explicit_http_proxy: stack built inside {type(st).__name__} (not modelled)")
        return alts

    stacks = {tuple(a) for a in pushes(fn.body)}
    tls = sorted(a for a in stacks if a and a[0] == "ClientTLSLayer")
    ctx.require(tls, f"_setup_explicit_http_proxy builds no stack that starts with ClientTLSLayer (found {sorted(stacks)})")
    return tls


def _explicit_modes(ctx):
    """Mode layer classes for which NextLayer._next_layer uses _setup_explicit_http_proxy (the isinstance tuple guarding the call)."""
    fn = ctx.func(NL, "NextLayer._next_layer")
    out = set()
    for n in ast.walk(fn):
        if isinstance(n, ast.If) and any(isinstance(c, ast.Call) and call_name(c).endswith("_setup_explicit_http_proxy") for st in n.body for c in ast.walk(st)):
            for c in ast.walk(n.test):
                if isinstance(c, ast.Call) and c.args:
                    a = c.args[-1]
                    for e in a.elts if isinstance(a, ast.Tuple) else [a]:
                        if last_attr(e):
                            out.add(last_attr(e))
    ctx.require(out, "_next_layer: guard of _setup_explicit_http_proxy not understood")
    return sorted(out)


def _client_alpn_slice(tsc):
    """Statements of tls_start_client that (transitively) define the `client_alpn=` argument of AppData(...), in source order."""
    call = next((n for n in ast.walk(tsc) if isinstance(n, ast.Call) and call_name(n) == "AppData"), None)
    if call is None:
        raise AnalysisError("tls_start_client no longer builds AppData(...)")
    kw = {k.arg: k.value for k in call.keywords}
    if "client_alpn" not in kw:
        raise AnalysisError("AppData(...) without client_alpn=")
    params = {a.arg for a in tsc.args.args}
    need = {n.id for n in ast.walk(kw["client_alpn"]) if isinstance(n, ast.Name)} - params

    def targets(st):
        out = set()
        for n in ast.walk(st):
            if isinstance(n, (ast.Assign, ast.AnnAssign, ast.AugAssign)):
                for t in n.targets if isinstance(n, ast.Assign) else [n.target]:
                    for x in t.elts if isinstance(t, (ast.Tuple, ast.List)) else [t]:
                        if isinstance(x, ast.Name):  # a binding of the local, not a write through it
                            out.add(x.id)
            elif isinstance(n, ast.NamedExpr):
                out.add(n.target.id)
        return out

    chosen = []
    changed = True
    while changed:
        changed = False
        for st in tsc.body:
            if st in chosen or not (targets(st) & need):
                continue
            if not isinstance(st, (ast.Assign, ast.AnnAssign, ast.If)):
                raise AnalysisError(f"tls_start_client: client_alpn defined by a {type(st).__name__} statement (not modelled)")
            chosen.append(st)
            need |= {n.id for n in ast.walk(st) if isinstance(n, ast.Name)} - params
            changed = True
    chosen.sort(key=lambda st: st.lineno)
    return chosen, kw["client_alpn"]


def _r18_3(ctx):
    m = ctx.model
    tsc = ctx.func(T, "TlsConfig.tls_start_client")
    # isinstance(x, modes.HttpProxy) is modelled by class-name equality: HttpProxy must have no subclass in its module
    MODES = "mitmproxy/proxy/layers/modes.py"
    m.cls(MODES, "HttpProxy")
    subs = [q for q, d in m.module(MODES).defs().items() if isinstance(d, ast.ClassDef) and any(last_attr(b) == "HttpProxy" for b in d.bases)]
    ctx.require(not subs, f"HttpProxy has subclasses {subs}: the sample layer stacks of R18.3 must be extended")
    ctx.assume("isinstance(layer, modes.HttpProxy) holds exactly for HttpProxy itself (no subclass in proxy/layers/modes.py)")
    SSLCONN = "tls_start.ssl_conn is not None"
    spec = AppDataSpec(keep=lambda ev: (ev[0] == "cond" and ev[1] == SSLCONN) or ev[0] == "appdata", implicit_raises=False)
    res, eng = traces_of(tsc, spec)
    term = [(t, how, st) for t, how, st in res if how == "return"]
    withdata = [t for t, how, st in term if any(e[0] == "appdata" for e in t)]
    ctx.require(withdata, "tls_start_client no longer builds AppData(...)")
    ctx.paths += len(term)
    where = (T, "TlsConfig.tls_start_client", tsc)
    # every path that creates the connection stores exactly one AppData on it
    creates = lambda t: any(e[0] == "cond" and e[1] == "tls_start.ssl_conn is not None" and not e[2] for e in t)  # noqa: E731
    ctx.require(any(creates(t) for t, _, _ in term), "tls_start_client: the `tls_start.ssl_conn is not None` early return changed shape")
    bad_store = [t for t, _, _ in term if creates(t) and ([e for e in t if e[0] == "appdata"].__len__() != 1 or not any(e[0] == "appdata" and e[2].endswith("ssl_conn.set_app_data") for e in t))]
    ctx.check(not bad_store, "R18.3", where, "tls_start.ssl_conn.set_app_data(AppData(...)) exactly once",
              f"{len(bad_store)} path(s) create the client TLS connection without storing the ALPN app data on it: the callback would read stale/no data", desc="AppData stored on ssl_conn on every creating path")
    # values
    bad = {"server_alpn": 0, "http2": 0}
    for t in withdata:
        vals = dict(next(e for e in t if e[0] == "appdata")[1])
        if set(vals) != {"client_alpn", "server_alpn", "http2"}:
            raise AnalysisError(f"AppData fields changed: {sorted(vals)}")
        if vals["server_alpn"] != R("tls_start.context.server.alpn"):
            bad["server_alpn"] += 1
        if vals["http2"] != R("ctx.options.http2"):
            bad["http2"] += 1
    ctx.check(bad["server_alpn"] == 0, "R18.3", where, "server_alpn=server.alpn", "the upstream protocol given to the callback is not tls_start.context.server.alpn", desc="server_alpn = tls_start.context.server.alpn")
    ctx.check(bad["http2"] == 0, "R18.3", where, "http2=ctx.options.http2", "the http2 flag given to the callback is not the http2 option", desc="http2 = ctx.options.http2")
    # client_alpn per world: the statements defining client_alpn are interpreted (pyint) on layer stacks read from next_layer.py
    from ..pyint import Interp
    from ..pyint import Raised
    from ..pyint import Rec

    stmts, expr = _client_alpn_slice(tsc)
    ctx.require(any("layers" == getattr(n, "attr", None) for st in stmts for n in ast.walk(st)), "tls_start_client: client_alpn no longer depends on context.layers (secure-web-proxy rule changed shape)")
    inner_stacks = _explicit_proxy_stacks(ctx)
    modes_explicit = _explicit_modes(ctx)
    worlds = []
    for mode in modes_explicit:
        for st in inner_stacks:
            worlds.append(((mode, *st), True))  # outer TLS connection of a secure web proxy, as NextLayer builds it
            worlds.append(((mode, *st, "HttpStream", "ServerTLSLayer", "ClientTLSLayer"), False))  # TLS *inside* its CONNECT tunnel
            worlds.append(((mode, *st, "HttpStream", "ClientTLSLayer"), False))
        worlds.append(((mode, "HttpLayer", "HttpStream", "ServerTLSLayer", "ClientTLSLayer"), False))  # plain proxy, TLS after CONNECT
        worlds.append(((mode, "HttpLayer", "HttpStream", "ClientTLSLayer"), False))
    for mode in ("ReverseProxy", "TransparentProxy", "Socks5Proxy"):
        worlds.append(((mode, "ClientTLSLayer"), False))
        worlds.append(((mode, "ServerTLSLayer", "ClientTLSLayer"), False))
        worlds.append(((mode, "ServerTLSLayer", "ClientTLSLayer", "HttpLayer"), False))
    ctx.note(f"R18.3 layer stacks: explicit-proxy modes {modes_explicit}, TLS stacks built by _setup_explicit_http_proxy {inner_stacks}")
    SENT = b"<client.alpn>"
    tmod = m.module(T)
    for stack, swp in worlds:
        it = Interp(m)
        layers = [Rec(n, _bases=LAYER_BASES.get(n, ("Layer",))) for n in stack]
        client = Rec("Client", alpn=SENT)
        server = Rec("Server", alpn=None)
        tls_start = Rec("TlsData", conn=client, context=Rec("Context", layers=layers, client=client, server=server), ssl_conn=None, is_dtls=False)
        env = {"tls_start": tls_start, "client": client, "server": server, "self": Rec("TlsConfig")}
        try:
            it.block(stmts, env, tmod, 0)
            got = it.ev(expr, env, tmod, 0)
        except Raised as r:
            got = f"<raises {r.name}>"
        ctx.cells += 1
        want = b"http/1.1" if swp else SENT
        ctx.check(got == want, "R18.3", where, f"client_alpn for layer stack [{', '.join(stack)}]",
                  f"client_alpn is {got!r}, expected {want!r}: " + ("the outer connection of a secure web proxy may negotiate something other than HTTP/1.1" if swp else "HTTP/1.1 is forced on a connection that is not a secure web proxy's outer connection"),
                  desc=f"[{', '.join(stack)}] -> client_alpn {'http/1.1' if swp else 'client.alpn'}")
    n_worlds = len(worlds)
    # the callback is installed
    cc = [c for c in calls_in(tsc) if call_name(c).endswith("create_client_proxy_context")]
    ctx.require(len(cc) == 1, "tls_start_client: create_client_proxy_context call not found exactly once")
    kw = {k.arg: k.value for k in cc[0].keywords}
    ctx.check(isinstance(kw.get("alpn_select_callback"), ast.Name) and kw["alpn_select_callback"].id == "alpn_select_callback", "R18.3", (T, "TlsConfig.tls_start_client", cc[0]),
              "alpn_select_callback=alpn_select_callback", "the client context is created without mitmproxy's ALPN callback", desc="callback passed to create_client_proxy_context")
    ccp = ctx.func(NT, "create_client_proxy_context")
    spec = FlowSpec(keep=lambda ev: ev[0] == "cond" or (ev[0] == "call" and ev[1].endswith("set_alpn_select_callback")), implicit_raises=False)
    res, eng = traces_of(ccp, spec)
    ok = True
    n = 0
    for t, how, st in res:
        if how != "return":
            continue
        n += 1
        given = any(e[0] == "cond" and e[1] == "alpn_select_callback is not None" and e[2] for e in t)
        if given and not any(e[0] == "call" for e in t):
            ok = False
    inst = [c for c in calls_in(ccp) if call_name(c).endswith("set_alpn_select_callback")]
    ok = ok and n > 0 and len(inst) == 1 and len(inst[0].args) == 1 and isinstance(inst[0].args[0], ast.Name) and inst[0].args[0].id == "alpn_select_callback"
    ctx.check(ok, "R18.3", (NT, "create_client_proxy_context", ccp), "context.set_alpn_select_callback(alpn_select_callback)",
              "a callback that is given is not installed on the context on every returning path", desc="create_client_proxy_context installs the callback")
    # h2 is not mirrored upstream when http2 is off
    tss = ctx.func(T, "TlsConfig.tls_start_server")
    assigns = [s for s in walk_in_order(tss) if isinstance(s, ast.Assign) and any(attr_chain(t) == "server.alpn_offers" for t in s.targets)]
    ctx.require(assigns, "tls_start_server no longer assigns server.alpn_offers")

    class OffSpec(FlowSpec):
        def events(self, node, st):
            out = list(super().events(node, st))
            if isinstance(node, ast.Assign) and any(attr_chain(t) == "server.alpn_offers" for t in node.targets):
                out.append(("offers", node.value))
            return out

    res, eng = traces_of(tss, OffSpec(keep=lambda ev: ev[0] == "offers" or (ev[0] == "cond" and ev[1] in ("ctx.options.http2", "client.alpn_offers", "server.alpn_offers")), implicit_raises=False))
    client_offers = [H2, H11, H3, UNK]

    def off_atom(node, env):
        if isinstance(node, ast.Attribute) and attr_chain(node) == "client.alpn_offers":
            return list(client_offers)
        if isinstance(node, ast.Call) and call_name(node) in ("tuple", "list") and len(node.args) == 1:
            return list(ceval(node.args[0], env, off_atom, "tls_start_server offers"))
        raise NotAnAtom

    n_off = leaking = 0
    for t, how, st in res:
        if how != "return":
            continue
        http2_off = any(e[0] == "cond" and e[1] == "ctx.options.http2" and not e[2] for e in t)
        http2_on = any(e[0] == "cond" and e[1] == "ctx.options.http2" and e[2] for e in t)
        for e in t:
            if e[0] == "offers" and not http2_on:
                val = ceval(e[1], {}, off_atom, "tls_start_server offers")
                if val:
                    n_off += 1
                    if H2 in val or not http2_off:
                        leaking += 1
    ctx.require(n_off > 0, "tls_start_server: no path mirrors the client's offers with http2 off (anchor changed)")
    ctx.check(leaking == 0, "R18.3", (T, "TlsConfig.tls_start_server", tss), "server.alpn_offers without h2 when http2 is off",
              f"{leaking} path(s) mirror h2 to the upstream server although http2 is disabled (or without consulting the option): upstream may negotiate h2 and the client is then given h2",
              desc="h2 filtered from mirrored offers when http2 is off")
    ctx.expect_instances("R18.3", 3 + n_worlds + 3)


def _r18_4(ctx):
    """Cooperating site of R18.3: tls_start_client reads `client.alpn` as the *override* handed to the callback.  For TLS-over-TLS (a secure web
    proxy's CONNECT tunnel) the same Client object already carries the outer session's values, so ClientTLSLayer.__init__ must reset every
    attribute the override is computed from before the inner handshake - otherwise the outer protocol (http/1.1) is forced on the inner session
    although the upstream protocol is known.  The statements of __init__ before super().__init__ are interpreted (pyint) on a client that has
    completed an outer session."""
    from ..pyint import Interp
    from ..pyint import Raised
    from ..pyint import Rec

    m = ctx.model
    tsc = ctx.func(T, "TlsConfig.tls_start_client")
    stmts, expr = _client_alpn_slice(tsc)
    read = set()
    aliases = {"client"}
    for st in stmts:
        if isinstance(st, (ast.Assign, ast.AnnAssign)) and isinstance(st.value, ast.Attribute) and attr_chain(st.value) in ("tls_start.conn", "tls_start.context.client"):
            t = st.targets[0] if isinstance(st, ast.Assign) else st.target
            if isinstance(t, ast.Name):
                aliases.add(t.id)
    for n in [x for st in stmts for x in ast.walk(st)] + list(ast.walk(expr)):
        if isinstance(n, ast.Attribute) and isinstance(n.ctx, ast.Load):
            ch = attr_chain(n)
            for a in aliases:
                if ch.startswith(a + ".") and ch.count(".") == 1:
                    read.add(n.attr)
            if ch.startswith("tls_start.conn.") and ch.count(".") == 2:
                read.add(n.attr)
    ctx.require(read, "tls_start_client: the client_alpn override no longer reads an attribute of the client connection (R18.4 premise changed)")
    init = ctx.func(PT, "ClientTLSLayer.__init__")
    params = [a.arg for a in init.args.args]
    ctx.require(len(params) == 2, "ClientTLSLayer.__init__ signature changed")
    pre = []
    for st in init.body:
        if any(isinstance(c, ast.Call) and isinstance(c.func, ast.Attribute) and c.func.attr == "__init__" for c in ast.walk(st)):
            break
        pre.append(st)
    ctx.require(len(pre) < len(init.body), "ClientTLSLayer.__init__: super().__init__ call not found")
    OUTER = {"alpn": b"http/1.1", "alpn_offers": [b"http/1.1"], "sni": "proxy.example", "cipher": "TLS_AES_128_GCM_SHA256", "cipher_list": ["x"], "tls_version": "TLSv1.3",
             "timestamp_tls_setup": 1.0, "certificate_list": ["cert"], "mitmcert": "cert", "tls": True, "tls_established": True}
    for a in read:
        ctx.require(a in OUTER, f"tls_start_client reads client.{a}, which the R18.4 model of an established outer session does not know")
    client = Rec("Client", **OUTER)
    context = Rec("Context", client=client, layers=[Rec("HttpProxy"), Rec("ClientTLSLayer"), Rec("HttpLayer")])
    it = Interp(m)
    try:
        it.block(pre, {params[0]: Rec("ClientTLSLayer"), params[1]: context}, m.module(PT), 0)
    except Raised as r:
        raise AnalysisError(f"ClientTLSLayer.__init__ raises {r.name} on a TLS-over-TLS client in the interpretation")
    for a in sorted(read):
        v = getattr(client, a)
        ctx.check(not v, "R18.4", (PT, "ClientTLSLayer.__init__", init), f"client.{a} reset before the inner (TLS-over-TLS) handshake",
                  f"client.{a} still holds the outer session's value {v!r} when the inner handshake starts: tls_start_client passes it to the ALPN callback as an override, "
                  "so the inner session is pinned to the outer protocol instead of following the upstream server", desc=f"TLS-over-TLS: client.{a} cleared by ClientTLSLayer.__init__")
    ctx.expect_instances("R18.4", 1)


def check(ctx):
    ctx.rule("R18.4", "ClientTLSLayer.__init__ clears, for TLS-over-TLS, every client attribute from which tls_start_client computes the ALPN override")
    ctx.rule("R18.1", "every return of alpn_select_callback is NO_OVERLAPPING_PROTOCOLS or proven a member of the offers on that path")
    ctx.rule("R18.2", "alpn_select_callback decision table over protocol classes x client override x upstream state x http2")
    ctx.rule("R18.3", "tls_start_client wiring of AppData (secure-web-proxy override, server.alpn, http2) and installation of the callback; no h2 mirrored upstream with http2 off")
    ctx.trust("pyOpenSSL set_alpn_select_callback / NO_OVERLAPPING_PROTOCOLS semantics")
    fn = ctx.func(T, "alpn_select_callback")
    params = [a.arg for a in fn.args.args]
    ctx.require(len(params) == 2, "alpn_select_callback signature changed")
    _r18_1(ctx, fn, params[1])
    _r18_2(ctx, fn)
    _r18_3(ctx)
    _r18_4(ctx)


MUTANTS = [
    Mutant("tls-over-tls-keeps-outer-alpn", PT, "            context.client.alpn = None\n", "", "R18.4"),
    # reverse of the F-C18 fix (a66ecfd88)
    Mutant("F-C18-reverted-upstream-known-falls-through", T,
           "    if server_alpn:\n        if server_alpn in options:\n            return server_alpn\n        else:\n            # The remote server negotiated a protocol the client does not offer.\n            return SSL.NO_OVERLAPPING_PROTOCOLS\n",
           "    if server_alpn and server_alpn in options:\n        return server_alpn\n", "R18.2"),
    Mutant("override-returned-without-membership-test", T, "        if client_alpn in options:\n            return client_alpn\n        else:\n            return SSL.NO_OVERLAPPING_PROTOCOLS\n    if server_alpn:",
           "        return client_alpn\n    if server_alpn:", "R18.1"),
    Mutant("generic-loop-over-http-alpns-returns-unoffered", T, "    for alpn in options:\n        if alpn in http_alpns:\n            return alpn\n",
           "    for alpn in http_alpns:\n        if alpn in options or alpn == b\"http/1.1\":\n            return alpn\n", "R18.1"),
    Mutant("http2-flag-inverted", T, "proxy_tls.HTTP_ALPNS if http2 else proxy_tls.HTTP1_ALPNS", "proxy_tls.HTTP1_ALPNS if http2 else proxy_tls.HTTP_ALPNS", "R18.2"),
    Mutant("upstream-none-not-mirrored", T, "    if server_alpn == b\"\":\n", "    if server_alpn == b\"\" and not http2:\n", "R18.2"),
    Mutant("http1-alpns-gain-h2", PT, "HTTP1_ALPNS = (b\"http/1.1\", b\"http/1.0\", b\"http/0.9\")", "HTTP1_ALPNS = (b\"http/1.1\", b\"http/1.0\", b\"http/0.9\", b\"h2\")", "R18.2"),
    Mutant("server-preference-order", T, "    for alpn in options:\n        if alpn in http_alpns:\n            return alpn\n",
           "    for cand in http_alpns:\n        for alpn in options:\n            if alpn == cand:\n                return alpn\n", "R18.2"),
    # reverse of the F-C18b fix (91f49e320): the outer connection is recognised by "exactly two layers", which the real stack never has
    Mutant("F-C18b-reverted-two-layers-only", T, "        if is_outer_tls and isinstance(\n            proxy_layers[0], (modes.HttpProxy, modes.HttpUpstreamProxy)\n        ):",
           "        if len(proxy_layers) == 2 and isinstance(proxy_layers[0], modes.HttpProxy):", "R18.3"),
    Mutant("secure-web-proxy-upstream-mode-forgotten", T, "proxy_layers[0], (modes.HttpProxy, modes.HttpUpstreamProxy)", "proxy_layers[0], modes.HttpProxy", "R18.3"),
    Mutant("secure-web-proxy-inner-tls-also-forced", T, "            and not any(\n                isinstance(x, proxy_tls.ClientTLSLayer) for x in proxy_layers[2:]\n            )\n", "", "R18.3"),
    Mutant("secure-web-proxy-or", T, "        if is_outer_tls and isinstance(", "        if is_outer_tls or isinstance(", "R18.3"),
    Mutant("next-layer-builds-http-before-tls", "mitmproxy/addons/next_layer.py", "            stack /= layers.ClientTLSLayer(context)\n\n        if isinstance(context.layers[0], modes.HttpUpstreamProxy):",
           "            stack /= layers.ClientTLSLayer(context)\n            stack /= layers.ServerTLSLayer(context)\n            stack /= layers.ClientTLSLayer(context)\n\n        if isinstance(context.layers[0], modes.HttpUpstreamProxy):", "R18.3"),
    Mutant("appdata-server-alpn-from-client", T, "                server_alpn=server.alpn,\n", "                server_alpn=client.alpn,\n", "R18.3"),
    Mutant("appdata-http2-hardcoded", T, "                http2=ctx.options.http2,\n", "                http2=True,\n", "R18.3"),
    Mutant("callback-not-passed", T, "            alpn_select_callback=alpn_select_callback,\n", "            alpn_select_callback=None,\n", "R18.3"),
    Mutant("h2-mirrored-with-http2-off", T, "                        x for x in client.alpn_offers if x != b\"h2\"\n", "                        x for x in client.alpn_offers if x != b\"h3\"\n", "R18.3"),
]
